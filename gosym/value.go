package gosym

import (
	"fmt"
	"go/types"
	"math"
	"strings"

	"golang.org/x/tools/go/ssa"
)

// Kind of a run-time value.
type Kind uint8

const (
	KInvalid Kind = iota
	KInt          // any integer or bool; N holds the canonical 64-bit pattern (sign/zero extended)
	KSym          // symbolic integer/bool; P is *Term (width from the static type, Bool sort for bool)
	KFloat        // N = float64 bits (float32 is kept rounded)
	KSymFloat     // P = *Term BV64 (float64 only)
	KComplex      // P = complex128
	KStr          // P = string (concrete)
	KSymStr       // P = *SymStr
	KSlice        // P = []V (nil slice: P == []V(nil))
	KPtr          // P = *V (nil pointer: (*V)(nil))
	KStruct       // P = []V
	KArray        // P = []V
	KMap          // P = *Map (nil map: (*Map)(nil))
	KIface        // P = *Iface or nil
	KFunc         // P = *ssa.Function | *Closure | *ssa.Builtin | *HostFunc; nil func: P == nil
	KTuple        // P = []V
	KChan         // P = *Chan
	KIter         // P = iterator
	KOpaque       // P = host object (reflect shim etc.)
	KDeferStack   // P = **deferred
	KOpq          // an opaque byte (part of a string formatted from symbolic operands); may be copied, not inspected
	KSymElem      // P = *symElem: address of a slice element at a symbolic index (load only)
)

// V is a run-time value of the interpreted program.
type V struct {
	K Kind
	N uint64
	P any
}

// SymStr is a string (or the content of one) with concrete length whose bytes are
// concrete (KInt) or symbolic (KSym, 8-bit terms). Immutable.
type SymStr struct {
	B      []V
	Opaque bool // contents are a placeholder (formatting of symbolic operands); must not be inspected
}

// Iface is a non-nil interface value.
type Iface struct {
	T types.Type
	V V
}

// Closure is a function value with bindings.
type Closure struct {
	Fn  *ssa.Function
	Env []V
}

// HostFunc is a function implemented by the engine.
type HostFunc struct {
	Name string
	Fn   func(e *Engine, fr *frame, args []V) V
}

// BoundMethod is a method value on an envstub or host object.
type deferred struct {
	fn    V
	args  []V
	instr *ssa.Defer
	tail  *deferred
}

func vInt(n int64) V     { return V{K: KInt, N: uint64(n)} }
func vUint(n uint64) V   { return V{K: KInt, N: n} }
func vBool(b bool) V     { return V{K: KInt, N: b2u(b)} }
func vStr(s string) V    { return V{K: KStr, P: s} }
func vFloat(f float64) V { return V{K: KFloat, N: math.Float64bits(f)} }
func vSym(t *Term) V     { return V{K: KSym, P: t} }
func vPtr(p *V) V        { return V{K: KPtr, P: p} }
func vTuple(vs ...V) V   { return V{K: KTuple, P: vs} }
func vNilIface() V       { return V{K: KIface} }
func vIface(t types.Type, v V) V {
	return V{K: KIface, P: &Iface{T: t, V: v}}
}

func b2u(b bool) uint64 {
	if b {
		return 1
	}
	return 0
}

func (v V) isSym() bool { return v.K == KSym || v.K == KSymFloat }
func (v V) term() *Term { return v.P.(*Term) }
func (v V) ptr() *V {
	if v.K != KPtr {
		panic(fmt.Sprintf("ptr(): value of kind %d", v.K))
	}
	p, _ := v.P.(*V)
	return p
}
func (v V) slice() []V {
	s, _ := v.P.([]V)
	return s
}
func (v V) fields() []V { return v.P.([]V) }
func (v V) iface() *Iface {
	if v.K != KIface {
		panic(fmt.Sprintf("iface(): value of kind %d", v.K))
	}
	i, _ := v.P.(*Iface)
	return i
}
func (v V) mapv() *Map {
	m, _ := v.P.(*Map)
	return m
}
func (v V) float() float64 { return math.Float64frombits(v.N) }

// basicInfo returns width and signedness for integer-like basic types.
func basicInfo(t types.Type) (w uint8, signed bool, ok bool) {
	b, isb := t.Underlying().(*types.Basic)
	if !isb {
		return 0, false, false
	}
	switch b.Kind() {
	case types.Bool, types.UntypedBool:
		return 1, false, true
	case types.Int8:
		return 8, true, true
	case types.Int16:
		return 16, true, true
	case types.Int32, types.UntypedRune:
		return 32, true, true
	case types.Int, types.Int64, types.UntypedInt:
		return 64, true, true
	case types.Uint8:
		return 8, false, true
	case types.Uint16:
		return 16, false, true
	case types.Uint32:
		return 32, false, true
	case types.Uint, types.Uint64, types.Uintptr:
		return 64, false, true
	}
	return 0, false, false
}

func isBoolType(t types.Type) bool {
	b, ok := t.Underlying().(*types.Basic)
	return ok && b.Info()&types.IsBoolean != 0
}

func isFloatType(t types.Type) bool {
	b, ok := t.Underlying().(*types.Basic)
	return ok && b.Info()&types.IsFloat != 0
}

func isStringType(t types.Type) bool {
	b, ok := t.Underlying().(*types.Basic)
	return ok && b.Info()&types.IsString != 0
}

// norm canonicalises a 64-bit pattern to the representation of an integer of width w.
func norm(n uint64, w uint8, signed bool) uint64 {
	if w >= 64 {
		return n
	}
	if signed {
		return uint64(sext(n, w))
	}
	return n & mask(w)
}

// zero returns the zero value of type t.
func zero(t types.Type) V {
	switch t := t.(type) {
	case *types.Basic:
		switch {
		case t.Kind() == types.UntypedNil:
			panic("zero: untyped nil")
		case t.Kind() == types.UnsafePointer:
			return V{K: KPtr, P: (*V)(nil)}
		case t.Info()&types.IsString != 0:
			return vStr("")
		case t.Info()&types.IsFloat != 0:
			return vFloat(0)
		case t.Info()&types.IsComplex != 0:
			return V{K: KComplex, P: complex128(0)}
		default:
			return V{K: KInt}
		}
	case *types.Pointer:
		return V{K: KPtr, P: (*V)(nil)}
	case *types.Array:
		a := make([]V, t.Len())
		if t.Len() > 0 {
			z := zero(t.Elem())
			for i := range a {
				a[i] = copyVal(z)
			}
		}
		return V{K: KArray, P: a}
	case *types.Named:
		return zero(t.Underlying())
	case *types.Alias:
		return zero(types.Unalias(t))
	case *types.Interface:
		return V{K: KIface}
	case *types.Slice:
		return V{K: KSlice, P: []V(nil)}
	case *types.Struct:
		s := make([]V, t.NumFields())
		for i := range s {
			s[i] = zero(t.Field(i).Type())
		}
		return V{K: KStruct, P: s}
	case *types.Tuple:
		if t.Len() == 1 {
			return zero(t.At(0).Type())
		}
		s := make([]V, t.Len())
		for i := range s {
			s[i] = zero(t.At(i).Type())
		}
		return V{K: KTuple, P: s}
	case *types.Chan:
		return V{K: KChan, P: (*Chan)(nil)}
	case *types.Map:
		return V{K: KMap, P: (*Map)(nil)}
	case *types.Signature:
		return V{K: KFunc}
	case *types.TypeParam:
		panic("zero: type parameter " + t.String())
	}
	panic(fmt.Sprintf("zero: unexpected %T", t))
}

// copyVal returns an unaliased copy of an aggregate value (structs and arrays have value
// semantics); other kinds are returned as is.
func copyVal(v V) V {
	switch v.K {
	case KStruct, KArray:
		src := v.P.([]V)
		dst := make([]V, len(src))
		for i := range src {
			dst[i] = copyVal(src[i])
		}
		return V{K: v.K, P: dst}
	}
	return v
}

// storeInto overwrites *addr with v preserving the identity of nested aggregate storage,
// so that pointers to fields/elements of *addr remain valid.
func (e *Engine) storeInto(addr *V, v V) {
	switch v.K {
	case KStruct, KArray:
		if addr.K == v.K {
			dst := addr.P.([]V)
			src := v.P.([]V)
			if len(dst) == len(src) {
				for i := range src {
					e.storeInto(&dst[i], src[i])
				}
				return
			}
		}
		e.logStore(addr)
		*addr = copyVal(v)
		return
	}
	e.logStore(addr)
	*addr = v
}

// Chan is a channel of the baton scheduler.
type Chan struct {
	buf    []V
	cap    int
	closed bool
	elem   types.Type
}

func (v V) String() string {
	var sb strings.Builder
	writeV(&sb, v, 0)
	return sb.String()
}

func writeV(sb *strings.Builder, v V, depth int) {
	if depth > 6 {
		sb.WriteString("…")
		return
	}
	switch v.K {
	case KInvalid:
		sb.WriteString("<invalid>")
	case KInt:
		fmt.Fprintf(sb, "%d", int64(v.N))
	case KSym:
		s := v.term().String()
		if len(s) > 120 {
			s = s[:120] + "…"
		}
		sb.WriteString("sym:" + s)
	case KFloat:
		fmt.Fprintf(sb, "%g", v.float())
	case KSymFloat:
		sb.WriteString("symfloat")
	case KStr:
		fmt.Fprintf(sb, "%q", v.P.(string))
	case KSymStr:
		ss := v.P.(*SymStr)
		sb.WriteString("symstr[")
		for i, b := range ss.B {
			if i > 0 {
				sb.WriteByte(' ')
			}
			if b.K == KInt {
				fmt.Fprintf(sb, "%02x", b.N)
			} else {
				sb.WriteString("?")
			}
		}
		sb.WriteString("]")
	case KSlice, KArray, KStruct, KTuple:
		open, close := "[", "]"
		if v.K == KStruct {
			open, close = "{", "}"
		} else if v.K == KTuple {
			open, close = "(", ")"
		}
		sb.WriteString(open)
		s := v.slice()
		for i, x := range s {
			if i > 0 {
				sb.WriteString(", ")
			}
			if i > 16 {
				sb.WriteString("…")
				break
			}
			writeV(sb, x, depth+1)
		}
		sb.WriteString(close)
	case KPtr:
		p := v.ptr()
		if p == nil {
			sb.WriteString("nil")
		} else {
			sb.WriteString("&")
			writeV(sb, *p, depth+1)
		}
	case KMap:
		m := v.mapv()
		if m == nil {
			sb.WriteString("map(nil)")
		} else {
			fmt.Fprintf(sb, "map[%d]", m.Len())
		}
	case KIface:
		i := v.iface()
		if i == nil {
			sb.WriteString("nil")
		} else {
			fmt.Fprintf(sb, "(%s)", i.T)
			writeV(sb, i.V, depth+1)
		}
	case KFunc:
		fmt.Fprintf(sb, "func(%v)", v.P)
	default:
		fmt.Fprintf(sb, "<kind %d>", v.K)
	}
}
