package gosym

import (
	"fmt"
	"os"
	"strings"

	"golang.org/x/tools/go/packages"
	"golang.org/x/tools/go/ssa"
	"golang.org/x/tools/go/ssa/ssautil"
)

// Program is a loaded and built SSA program.
type Program struct {
	Prog  *ssa.Program
	Pkgs  []*ssa.Package // the packages named by the patterns
	Types []*packages.Package
}

// Load loads patterns from dir with the overlay and builds SSA for everything.
func Load(dir string, overlay map[string][]byte, patterns []string, env []string) (*Program, error) {
	cfg := &packages.Config{
		Mode:    packages.LoadAllSyntax,
		Dir:     dir,
		Overlay: overlay,
		Env:     append(os.Environ(), env...),
	}
	pkgs, err := packages.Load(cfg, patterns...)
	if err != nil {
		return nil, err
	}
	var errs []string
	packages.Visit(pkgs, nil, func(p *packages.Package) {
		for _, e := range p.Errors {
			errs = append(errs, e.Error())
		}
	})
	if len(errs) > 0 {
		if len(errs) > 20 {
			errs = errs[:20]
		}
		return nil, &LoadError{Msgs: errs}
	}
	prog, spkgs := ssautil.AllPackages(pkgs, ssa.InstantiateGenerics|ssa.SanityCheckFunctions&0)
	prog.Build()
	return &Program{Prog: prog, Pkgs: spkgs, Types: pkgs}, nil
}

// LoadError carries type or syntax errors of the loaded packages.
type LoadError struct{ Msgs []string }

func (e *LoadError) Error() string {
	return fmt.Sprintf("load errors:\n  %s", strings.Join(e.Msgs, "\n  "))
}

// DefaultInitAllow is the allow-list of packages whose initialisers are interpreted.
func DefaultInitAllow(path string) bool {
	switch path {
	case "strings", "strconv", "unicode", "unicode/utf8", "unicode/utf16", "bytes", "sort", "slices", "maps",
		"math", "math/bits", "path", "path/filepath", "encoding/binary", "encoding/hex", "io", "html",
		"cmp", "iter", "container/list", "bufio", "context", "fmt", "encoding/base64", "text/tabwriter":
		return true
	}
	if path == "github.com/cloudwego/thriftgo/generator/golang/extension/meta" {
		return false // reflection registry; RegisterStruct is stubbed
	}
	if strings.HasPrefix(path, "github.com/cloudwego/") || strings.HasPrefix(path, "github.com/apache/thrift") ||
		strings.HasPrefix(path, "github.com/bytedance/gopkg") || strings.HasPrefix(path, "zzgen/") || path == "zzgen" || strings.HasPrefix(path, "verif/") {
		return true
	}
	return false
}

// MetaInitAllow is DefaultInitAllow plus the meta package (whose registry needs reflection).
func MetaInitAllow(path string) bool {
	if path == "github.com/cloudwego/thriftgo/generator/golang/extension/meta" {
		return true
	}
	return DefaultInitAllow(path)
}

// AddOverlayDir adds the .go files of dir to the overlay. Each file names its target
// directory (relative to root) in a line "//zz:target <dir>".
func AddOverlayDir(overlay map[string][]byte, root, dir string) error {
	ents, err := os.ReadDir(dir)
	if err != nil {
		return err
	}
	for _, ent := range ents {
		if ent.IsDir() || !strings.HasSuffix(ent.Name(), ".go") {
			continue
		}
		b, err := os.ReadFile(dir + "/" + ent.Name())
		if err != nil {
			return err
		}
		target := ""
		for _, line := range strings.SplitN(string(b), "\n", 30) {
			if strings.HasPrefix(line, "//zz:target ") {
				target = strings.TrimSpace(strings.TrimPrefix(line, "//zz:target "))
				break
			}
		}
		if target == "" {
			return fmt.Errorf("%s/%s: missing //zz:target line", dir, ent.Name())
		}
		overlay[root+"/"+target+"/zz_verif_"+ent.Name()] = b
	}
	return nil
}
