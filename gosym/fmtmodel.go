package gosym

import (
	"fmt"
	"regexp"
	"go/types"
	"strings"

	"golang.org/x/tools/go/ssa"
)

// Model of the fmt package: verbs are applied to engine values. Symbolic string operands of
// %s/%v are spliced in (the result stays symbolic); anything else symbolic yields an opaque
// string whose contents must not be inspected (inspection ends the path as inconclusive).

type fmtOut struct {
	b      []V
	opaque bool
}

func (o *fmtOut) str(s string) {
	for i := 0; i < len(s); i++ {
		o.b = append(o.b, vUint(uint64(s[i])))
	}
}

func (o *fmtOut) val() V {
	return mkStr(o.b)
}

// opq appends an opaque placeholder (content and length unknown).
func (o *fmtOut) opq(n int) {
	for i := 0; i < n; i++ {
		o.b = append(o.b, V{K: KOpq})
	}
	o.opaque = true
}

// hostScalar converts a concrete scalar engine value (with its static/dynamic type) to a host value.
func (e *Engine) hostScalar(t types.Type, v V) (any, bool) {
	switch v.K {
	case KInt:
		if t != nil {
			if b, ok := t.Underlying().(*types.Basic); ok {
				switch b.Kind() {
				case types.Bool:
					return v.N != 0, true
				case types.Int8:
					return int8(v.N), true
				case types.Int16:
					return int16(v.N), true
				case types.Int32:
					return int32(v.N), true
				case types.Int, types.Int64:
					return int64(v.N), true
				case types.Uint8:
					return uint8(v.N), true
				case types.Uint16:
					return uint16(v.N), true
				case types.Uint32:
					return uint32(v.N), true
				case types.Uint, types.Uint64, types.Uintptr:
					return v.N, true
				}
			}
		}
		return int64(v.N), true
	case KFloat:
		if t != nil {
			if b, ok := t.Underlying().(*types.Basic); ok && b.Kind() == types.Float32 {
				return float32(v.float()), true
			}
		}
		return v.float(), true
	case KStr:
		return v.P.(string), true
	case KSymStr:
		if s, ok := concStr(v); ok {
			return s, true
		}
	}
	return nil, false
}

// fmtArg formats one operand under the verb spec (e.g. "%5d").
func (e *Engine) fmtArg(fr *frame, out *fmtOut, spec string, verb byte, arg V) {
	plain := len(spec) == 2
	it := arg.iface()
	if it == nil {
		switch verb {
		case 'T':
			out.str("<nil>")
		case 'v', 's', 'd', 'q':
			if verb == 'v' {
				out.str("<nil>")
			} else {
				out.str("%!" + string(verb) + "(<nil>)")
			}
		default:
			out.str("%!" + string(verb) + "(<nil>)")
		}
		return
	}
	if verb == 'T' {
		out.str(goTypeString(it.T))
		return
	}
	// error / Stringer take precedence for %v %s %q %w
	if verb == 'v' || verb == 's' || verb == 'q' || verb == 'w' {
		if it.V.K == KOpaque {
			if st, ok := it.V.P.(*EnvStub); ok {
				out.str("<" + st.Name + ">")
				return
			}
		}
		isNilPtr := it.V.K == KPtr && it.V.ptr() == nil
		for _, mname := range []string{"Error", "String"} {
			m := e.methodByName(it.T, mname)
			if m == nil || m.Signature.Params().Len() != 0 || m.Signature.Results().Len() != 1 || !isStringType(m.Signature.Results().At(0).Type()) {
				continue
			}
			if isNilPtr {
				out.str("<nil>")
				return
			}
			s := e.call(fr, 0, V{K: KFunc, P: m}, []V{it.V})
			e.fmtString(out, spec, verb, plain, s)
			return
		}
	}
	v := it.V
	switch v.K {
	case KStr, KSymStr:
		e.fmtString(out, spec, verb, plain, v)
		return
	case KInt, KFloat:
		if h, ok := e.hostScalar(it.T, v); ok {
			hv := spec
			if verb == 'w' {
				hv = "%v"
			}
			// named types with underlying ints print as ints
			out.str(fmt.Sprintf(hv, h))
			return
		}
	case KSym:
		// few feasible values: fork over them and print the concrete number
		if n, ok := e.tryConcretize(v.term(), 16); ok {
			w, signed, _ := basicInfo(it.T)
			if h, ok := e.hostScalar(it.T, vUint(norm(n, w, signed))); ok {
				hv := spec
				if verb == 'w' {
					hv = "%v"
				}
				out.str(fmt.Sprintf(hv, h))
				return
			}
		}
		out.opq(3)
		return
	case KSymFloat:
		out.opq(3)
		return
	case KSlice:
		// []byte with %s / %x; other slices with %v
		if sl, ok := it.T.Underlying().(*types.Slice); ok {
			if b, ok := sl.Elem().Underlying().(*types.Basic); ok && b.Kind() == types.Uint8 && (verb == 's' || verb == 'q' || verb == 'x') {
				e.fmtString(out, spec, verb, plain, mkStr(v.slice()))
				return
			}
			out.str("[")
			for i, x := range v.slice() {
				if i > 0 {
					out.str(" ")
				}
				e.fmtArg(fr, out, "%"+string(verb), verb, e.boxForFmt(sl.Elem(), x))
			}
			out.str("]")
			return
		}
	case KArray:
		if at, ok := it.T.Underlying().(*types.Array); ok {
			out.str("[")
			for i, x := range v.fields() {
				if i > 0 {
					out.str(" ")
				}
				e.fmtArg(fr, out, "%"+string(verb), verb, e.boxForFmt(at.Elem(), x))
			}
			out.str("]")
			return
		}
	case KPtr:
		if v.ptr() == nil {
			out.str("<nil>")
			return
		}
		if pt, ok := it.T.Underlying().(*types.Pointer); ok {
			if _, isStruct := pt.Elem().Underlying().(*types.Struct); isStruct && verb == 'v' {
				out.str("&")
				e.fmtArg(fr, out, spec, verb, vIface(pt.Elem(), *v.ptr()))
				return
			}
		}
		out.opq(12)
		return
	case KStruct:
		if st, ok := it.T.Underlying().(*types.Struct); ok {
			out.str("{")
			for i, f := range v.fields() {
				if i > 0 {
					out.str(" ")
				}
				if strings.Contains(spec, "+") {
					out.str(st.Field(i).Name() + ":")
				}
				e.fmtArg(fr, out, spec, verb, e.boxForFmt(st.Field(i).Type(), f))
			}
			out.str("}")
			return
		}
	case KMap:
		out.opq(8)
		return
	case KIface:
		e.fmtArg(fr, out, spec, verb, v)
		return
	}
	out.opq(6)
}

func (e *Engine) boxForFmt(t types.Type, v V) V {
	if v.K == KIface {
		return v
	}
	return vIface(t, v)
}

func (e *Engine) fmtString(out *fmtOut, spec string, verb byte, plain bool, s V) {
	if isOpaqueStr(s) {
		out.b = append(out.b, strBytes(s)...)
		out.opaque = true
		return
	}
	if cs, ok := concStr(s); ok {
		hv := spec
		if verb == 'w' {
			hv = "%v"
		}
		out.str(fmt.Sprintf(hv, cs))
		return
	}
	if plain && (verb == 's' || verb == 'v' || verb == 'w') {
		out.b = append(out.b, strBytes(s)...)
		return
	}
	// e.g. %q of a symbolic string: placeholder
	out.opq(strLen(s) + 2)
}

// sprintf implements fmt.Sprintf over engine values; wrapped reports the %w operand.
func (e *Engine) sprintf(fr *frame, format string, args []V) (V, []V) {
	out := &fmtOut{}
	var wrapped []V
	argi := 0
	for i := 0; i < len(format); {
		c := format[i]
		if c != '%' {
			j := strings.IndexByte(format[i:], '%')
			if j < 0 {
				out.str(format[i:])
				break
			}
			out.str(format[i : i+j])
			i += j
			continue
		}
		j := i + 1
		for j < len(format) && strings.IndexByte("+-# 0123456789.*[]", format[j]) >= 0 {
			j++
		}
		if j >= len(format) {
			out.str("%!(NOVERB)")
			break
		}
		verb := format[j]
		spec := format[i : j+1]
		i = j + 1
		if verb == '%' {
			out.str("%")
			continue
		}
		if strings.ContainsAny(spec, "*[") {
			e.unsupported("fmt: '*' or '[n]' in format %q", format)
		}
		if argi >= len(args) {
			out.str("%!" + string(verb) + "(MISSING)")
			continue
		}
		arg := args[argi]
		argi++
		if verb == 'w' {
			wrapped = append(wrapped, arg)
		}
		e.fmtArg(fr, out, spec, verb, arg)
	}
	if argi < len(args) {
		out.str("%!(EXTRA ")
		for k := argi; k < len(args); k++ {
			if k > argi {
				out.str(", ")
			}
			e.fmtArg(fr, out, "%T", 'T', args[k])
			out.str("=")
			e.fmtArg(fr, out, "%v", 'v', args[k])
		}
		out.str(")")
	}
	return out.val(), wrapped
}

func (e *Engine) sprint(fr *frame, args []V, ln bool) V {
	out := &fmtOut{}
	prevString := false
	for i, a := range args {
		isString := false
		if it := a.iface(); it != nil {
			isString = it.V.K == KStr || it.V.K == KSymStr
		}
		if i > 0 && (ln || (!isString && !prevString)) {
			out.str(" ")
		}
		e.fmtArg(fr, out, "%v", 'v', a)
		prevString = isString
	}
	if ln {
		out.str("\n")
	}
	return out.val()
}

func init() {
	reg("fmt.Sprintf", func(e *Engine, fr *frame, args []V) V {
		format := argStr(e, args[0], "fmt.Sprintf format")
		s, _ := e.sprintf(fr, format, args[1].slice())
		return s
	})
	reg("fmt.Sprint", func(e *Engine, fr *frame, args []V) V { return e.sprint(fr, args[0].slice(), false) })
	reg("fmt.Sprintln", func(e *Engine, fr *frame, args []V) V { return e.sprint(fr, args[0].slice(), true) })
	reg("fmt.Errorf", func(e *Engine, fr *frame, args []V) V {
		format := argStr(e, args[0], "fmt.Errorf format")
		s, wrapped := e.sprintf(fr, format, args[1].slice())
		return e.makeFmtError(s, wrapped)
	})
	discard := func(e *Engine, fr *frame, args []V) V { return vTuple(vInt(0), vNilIface()) }
	reg("fmt.Printf", func(e *Engine, fr *frame, args []V) V {
		format := argStr(e, args[0], "fmt.Printf format")
		s, _ := e.sprintf(fr, format, args[1].slice())
		e.writeStdout(s)
		return vTuple(vInt(int64(strLen(s))), vNilIface())
	})
	reg("fmt.Println", func(e *Engine, fr *frame, args []V) V {
		s := e.sprint(fr, args[0].slice(), true)
		e.writeStdout(s)
		return vTuple(vInt(int64(strLen(s))), vNilIface())
	})
	reg("fmt.Print", func(e *Engine, fr *frame, args []V) V {
		s := e.sprint(fr, args[0].slice(), false)
		e.writeStdout(s)
		return vTuple(vInt(int64(strLen(s))), vNilIface())
	})
	_ = discard
	fprint := func(mode int) intrinsicFn {
		return func(e *Engine, fr *frame, args []V) V {
			var s V
			switch mode {
			case 0:
				format := argStr(e, args[1], "fmt.Fprintf format")
				s, _ = e.sprintf(fr, format, args[2].slice())
			case 1:
				s = e.sprint(fr, args[1].slice(), false)
			case 2:
				s = e.sprint(fr, args[1].slice(), true)
			}
			w := args[0].iface()
			if w == nil {
				e.targetPanicStr("invalid memory address or nil pointer dereference")
			}
			if w.V.K == KOpaque { // os.Stdout / os.Stderr placeholders
				e.writeStdout(s)
				return vTuple(vInt(int64(strLen(s))), vNilIface())
			}
			if isOpaqueStr(s) {
				e.unsupported("fmt.Fprint* of an opaque string into a writer")
			}
			b := strBytes(s)
			cp := make([]V, len(b))
			copy(cp, b)
			m := e.methodByName(w.T, "Write")
			return e.call(fr, 0, V{K: KFunc, P: m}, []V{w.V, {K: KSlice, P: cp}})
		}
	}
	reg("fmt.Fprintf", fprint(0))
	reg("fmt.Fprint", fprint(1))
	reg("fmt.Fprintln", fprint(2))
}

func (e *Engine) writeStdout(s V) {
	if cs, ok := concStr(s); ok {
		if e.stdout.Len() < 1<<16 {
			e.stdout.WriteString(cs)
		}
	}
}

// makeFmtError builds the error value fmt.Errorf returns: *fmt.wrapError when there is one %w
// operand, *fmt.wrapErrors for several, *errors.errorString otherwise. Their methods are
// interpreted from the library source.
func (e *Engine) makeFmtError(msg V, wrapped []V) V {
	fmtPkg := e.prog.ImportedPackage("fmt")
	var errs []V
	for _, w := range wrapped {
		if it := w.iface(); it != nil {
			errType := types.Universe.Lookup("error").Type().Underlying().(*types.Interface)
			if e.implements(it.T, errType) {
				errs = append(errs, w)
			}
		}
	}
	switch {
	case len(errs) == 1 && fmtPkg != nil && fmtPkg.Type("wrapError") != nil:
		t := fmtPkg.Type("wrapError").Type()
		cell := &V{K: KStruct, P: []V{msg, errs[0]}}
		return vIface(types.NewPointer(t), vPtr(cell))
	case len(errs) > 1 && fmtPkg != nil && fmtPkg.Type("wrapErrors") != nil:
		t := fmtPkg.Type("wrapErrors").Type()
		cell := &V{K: KStruct, P: []V{msg, {K: KSlice, P: errs}}}
		return vIface(types.NewPointer(t), vPtr(cell))
	}
	return e.newErrorString(msg)
}

func (e *Engine) newErrorString(msg V) V {
	cell := &V{K: KStruct, P: []V{msg}}
	return vIface(types.NewPointer(e.errorsErrorString), vPtr(cell))
}

var _ *ssa.Function

var aliasRe = regexp.MustCompile(`\b(byte|rune|any)\b`)

// goTypeString renders a type the way %T does (aliases resolved).
func goTypeString(t types.Type) string {
	return aliasRe.ReplaceAllStringFunc(types.TypeString(t, func(p *types.Package) string { return p.Name() }), func(m string) string {
		switch m {
		case "byte":
			return "uint8"
		case "rune":
			return "int32"
		}
		return "interface {}"
	})
}
