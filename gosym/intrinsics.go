package gosym

import (
	"fmt"
	"go/types"
	"math"
	"sort"
	"strings"

	"golang.org/x/tools/go/ssa"
)

type intrinsicFn func(e *Engine, fr *frame, args []V) V

var intrinsics = map[string]intrinsicFn{}

// ZZRT is the import path of the harness runtime package (an overlay inside /repo).
const ZZRT = "github.com/cloudwego/thriftgo/internal/zzverifrt"

func lookupIntrinsic(fn *ssa.Function) intrinsicFn {
	name := fn.String()
	if f, ok := intrinsics[name]; ok {
		return f
	}
	// generic instantiations: strip the type arguments
	if i := strings.IndexByte(name, '['); i > 0 {
		if f, ok := intrinsics[name[:i]]; ok {
			return f
		}
	}
	if fn.Pkg != nil && fn.Pkg.Pkg.Name() == "zzverifrt" {
		if f, ok := intrinsics["zzrt."+fn.Name()]; ok {
			return f
		}
	}
	return nil
}

// denyCall reports functions that must not be interpreted from source (their packages are
// not initialised and depend on the runtime); reaching one makes the path inconclusive.
func denyCall(fn *ssa.Function) bool {
	if fn.Pkg == nil {
		return false
	}
	switch fn.Pkg.Pkg.Path() {
	case "runtime", "reflect", "os", "syscall", "time", "os/exec", "text/template", "html/template",
		"encoding/json", "regexp", "regexp/syntax", "internal/reflectlite", "go/format", "compress/gzip", "compress/flate",
		"internal/poll", "io/ioutil", "io/fs", "log", "flag", "net", "text/template/parse", "gopkg.in/yaml.v3",
		"github.com/dlclark/regexp2", "debug/buildinfo", "math/rand", "crypto/rand", "sync", "sync/atomic", "internal/sync":
		return true
	}
	return false
}

func reg(name string, f intrinsicFn) { intrinsics[name] = f }

func noop(e *Engine, fr *frame, args []V) V { return V{} }

func argStr(e *Engine, v V, what string) string {
	s, ok := concStr(v)
	if !ok {
		e.unsupported("%s needs a concrete string", what)
	}
	return s
}

func init() {
	// -----------------------------------------------------------------------------------------
	// harness runtime
	symInt := func(w uint8, signed bool) intrinsicFn {
		return func(e *Engine, fr *frame, args []V) V {
			name := argStr(e, args[0], "variable name")
			return e.fromTerm(e.freshVar(name, w), signed)
		}
	}
	reg("zzrt.Bool", func(e *Engine, fr *frame, args []V) V {
		name := argStr(e, args[0], "variable name")
		return e.fromTerm(e.freshVar(name, 0), false)
	})
	reg("zzrt.Byte", symInt(8, false))
	reg("zzrt.Int8", symInt(8, true))
	reg("zzrt.Int16", symInt(16, true))
	reg("zzrt.Uint16", symInt(16, false))
	reg("zzrt.Int32", symInt(32, true))
	reg("zzrt.Uint32", symInt(32, false))
	reg("zzrt.Int64", symInt(64, true))
	reg("zzrt.Uint64", symInt(64, false))
	reg("zzrt.Int", symInt(64, true))
	reg("zzrt.Float64", func(e *Engine, fr *frame, args []V) V {
		name := argStr(e, args[0], "variable name")
		return V{K: KSymFloat, P: e.freshVar(name, 64)}
	})
	reg("zzrt.Bytes", func(e *Engine, fr *frame, args []V) V {
		name := argStr(e, args[0], "variable name")
		n := int(e.concInt(args[1]))
		b := make([]V, n)
		for i := range b {
			b[i] = vSym(e.freshVar(name, 8))
		}
		return V{K: KSlice, P: b}
	})
	reg("zzrt.String", func(e *Engine, fr *frame, args []V) V {
		name := argStr(e, args[0], "variable name")
		n := int(e.concInt(args[1]))
		b := make([]V, n)
		for i := range b {
			b[i] = vSym(e.freshVar(name, 8))
		}
		return mkStr(b)
	})
	reg("zzrt.Choose", func(e *Engine, fr *frame, args []V) V {
		name := argStr(e, args[0], "variable name")
		n := int(e.concInt(args[1]))
		if n <= 0 {
			panic(abort{kind: AbortInfeasible, msg: "Choose over an empty range"})
		}
		return vInt(int64(e.choose(n, name)))
	})
	reg("zzrt.Concrete", func(e *Engine, fr *frame, args []V) V {
		// forces an int to a concrete value (forking)
		return vInt(int64(e.concInt(args[0])))
	})
	reg("zzrt.Assume", func(e *Engine, fr *frame, args []V) V {
		e.assume(e.boolTerm(args[0]))
		return V{}
	})
	reg("zzrt.Assert", func(e *Engine, fr *frame, args []V) V {
		msg, _ := concStr(args[1])
		e.check(e.boolTerm(args[0]), msg)
		return V{}
	})
	reg("zzrt.Fail", func(e *Engine, fr *frame, args []V) V {
		msg, _ := concStr(args[0])
		e.check(e.ts.False, msg)
		return V{}
	})
	reg("zzrt.Cover", func(e *Engine, fr *frame, args []V) V {
		e.covers[argStr(e, args[0], "cover label")] = true
		return V{}
	})
	reg("zzrt.Done", func(e *Engine, fr *frame, args []V) V {
		panic(abort{kind: AbortDone, msg: "done"})
	})
	reg("zzrt.Known", func(e *Engine, fr *frame, args []V) V {
		// Known(id, cond, msg): cond is expected to be violable (a recorded finding).
		id := argStr(e, args[0], "finding id")
		msg, _ := concStr(args[2])
		c := e.boolTerm(args[1])
		hit := false
		if c.Op == OpFalse {
			hit = true
		} else if c.Op != OpTrue {
			if e.ts.Eval(c, e.model) == 0 {
				hit = true
			} else {
				r, _ := e.solver.CheckWith(e.ts.BNot(c), e.allVars(), false)
				e.Stats.Queries++
				hit = r == Sat
			}
		}
		if hit {
			e.knownHits[id] = msg
		}
		e.assume(c)
		return V{}
	})
	// Override(name, fn): calls of the package-level function name are answered by fn (an
	// environment stub written in the harness) for the rest of the path
	reg("zzrt.Override", func(e *Engine, fr *frame, args []V) V {
		name := argStr(e, args[0], "function name")
		if e.lookupFunc(name) == nil {
			e.unsupported("zzrt.Override: function %s not found", name)
		}
		it := args[1].iface()
		if it == nil || it.V.K != KFunc {
			e.unsupported("zzrt.Override: replacement is not a function")
		}
		if e.overrides == nil {
			e.overrides = map[string]V{}
		}
		e.overrides[name] = it.V
		return V{}
	})
	// CatchExit(f) runs f and reports whether it ended the process, and with which status
	reg("zzrt.CatchExit", func(e *Engine, fr *frame, args []V) (ret V) {
		defer func() {
			if r := recover(); r != nil {
				if a, ok := r.(abort); ok && a.kind == AbortExit {
					ret = vTuple(vInt(int64(a.code)), vBool(true))
					return
				}
				panic(r)
			}
		}()
		e.call(fr, 0, args[0], nil)
		return vTuple(vInt(0), vBool(false))
	})
	reg("zzrt.NondetMapOrder", func(e *Engine, fr *frame, args []V) V {
		e.nondetMapOrder = args[0].N != 0
		e.mapOrderBudget = -1
		return V{}
	})
	// NondetMapOrderBudget(k): at most k map ranges per path iterate in a perturbed order
	reg("zzrt.NondetMapOrderBudget", func(e *Engine, fr *frame, args []V) V {
		e.nondetMapOrder = int64(args[0].N) != 0
		e.mapOrderBudget = int(int64(args[0].N))
		return V{}
	})
	reg("zzrt.Symbolic", func(e *Engine, fr *frame, args []V) V { return vBool(true) })
	reg("zzrt.Opaque", func(e *Engine, fr *frame, args []V) V {
		// IsOpaque(s string) bool: harness may ask whether a string is a formatting placeholder
		return vBool(isOpaqueStr(args[0]))
	})
	reg("zzrt.Printf", func(e *Engine, fr *frame, args []V) V {
		format, _ := concStr(args[0])
		s, _ := e.sprintf(fr, format, args[1].slice())
		bs := strBytes(s)
		out := make([]byte, len(bs))
		for i, b := range bs {
			switch b.K {
			case KInt:
				out[i] = byte(b.N)
			case KSym:
				out[i] = byte(e.ts.Eval(b.term(), e.model))
			default:
				out[i] = '?'
			}
		}
		e.debugOut = append(e.debugOut, string(out))
		return V{}
	})

	// -----------------------------------------------------------------------------------------
	// internal/bytealg and friends
	indexByte := func(e *Engine, b []V, c V) V {
		for i, x := range b {
			if e.truth(e.equal(x, c)) {
				return vInt(int64(i))
			}
		}
		return vInt(-1)
	}
	reg("internal/bytealg.IndexByte", func(e *Engine, fr *frame, args []V) V { return indexByte(e, args[0].slice(), args[1]) })
	reg("internal/bytealg.IndexByteString", func(e *Engine, fr *frame, args []V) V {
		if args[0].K == KStr && args[1].K == KInt {
			return vInt(int64(strings.IndexByte(args[0].P.(string), byte(args[1].N))))
		}
		return indexByte(e, strBytes(args[0]), args[1])
	})
	lastIndexByte := func(e *Engine, b []V, c V) V {
		for i := len(b) - 1; i >= 0; i-- {
			if e.truth(e.equal(b[i], c)) {
				return vInt(int64(i))
			}
		}
		return vInt(-1)
	}
	reg("internal/bytealg.LastIndexByte", func(e *Engine, fr *frame, args []V) V { return lastIndexByte(e, args[0].slice(), args[1]) })
	reg("internal/bytealg.LastIndexByteString", func(e *Engine, fr *frame, args []V) V {
		return lastIndexByte(e, strBytes(args[0]), args[1])
	})
	countByte := func(e *Engine, b []V, c V) V {
		n := 0
		for _, x := range b {
			if e.truth(e.equal(x, c)) {
				n++
			}
		}
		return vInt(int64(n))
	}
	reg("internal/bytealg.Count", func(e *Engine, fr *frame, args []V) V { return countByte(e, args[0].slice(), args[1]) })
	reg("internal/bytealg.CountString", func(e *Engine, fr *frame, args []V) V { return countByte(e, strBytes(args[0]), args[1]) })
	reg("internal/bytealg.Equal", func(e *Engine, fr *frame, args []V) V {
		return e.strEq(mkStr(args[0].slice()), mkStr(args[1].slice()))
	})
	compare := func(e *Engine, a, b V) V {
		if e.truth(e.strLess(a, b)) {
			return vInt(-1)
		}
		if e.truth(e.strEq(a, b)) {
			return vInt(0)
		}
		return vInt(1)
	}
	reg("internal/bytealg.Compare", func(e *Engine, fr *frame, args []V) V {
		return compare(e, mkStr(args[0].slice()), mkStr(args[1].slice()))
	})
	reg("internal/bytealg.CompareString", func(e *Engine, fr *frame, args []V) V { return compare(e, args[0], args[1]) })
	reg("runtime.cmpstring", func(e *Engine, fr *frame, args []V) V { return compare(e, args[0], args[1]) })
	reg("strings.Compare", func(e *Engine, fr *frame, args []V) V { return compare(e, args[0], args[1]) })
	index := func(e *Engine, s, sep []V) V {
		n := len(sep)
		for i := 0; i+n <= len(s); i++ {
			if e.truth(e.strEq(mkStr(s[i:i+n]), mkStr(sep))) {
				return vInt(int64(i))
			}
		}
		return vInt(-1)
	}
	reg("internal/bytealg.Index", func(e *Engine, fr *frame, args []V) V { return index(e, args[0].slice(), args[1].slice()) })
	reg("internal/bytealg.IndexString", func(e *Engine, fr *frame, args []V) V {
		if args[0].K == KStr && args[1].K == KStr {
			return vInt(int64(strings.Index(args[0].P.(string), args[1].P.(string))))
		}
		return index(e, strBytes(args[0]), strBytes(args[1]))
	})
	reg("strings.Index", func(e *Engine, fr *frame, args []V) V {
		if args[0].K == KStr && args[1].K == KStr {
			return vInt(int64(strings.Index(args[0].P.(string), args[1].P.(string))))
		}
		if isOpaqueStr(args[0]) || isOpaqueStr(args[1]) {
			e.unsupported("strings.Index on an opaque string")
		}
		return index(e, strBytes(args[0]), strBytes(args[1]))
	})
	reg("bytes.Index", func(e *Engine, fr *frame, args []V) V { return index(e, args[0].slice(), args[1].slice()) })
	reg("internal/bytealg.MakeNoZero", func(e *Engine, fr *frame, args []V) V {
		n := e.concMakeLen(args[0], types.Typ[types.Int], "len")
		s := make([]V, n)
		for i := range s {
			s[i] = V{K: KInt}
		}
		return V{K: KSlice, P: s}
	})
	reg("internal/abi.NoEscape", func(e *Engine, fr *frame, args []V) V { return args[0] })
	reg("internal/abi.Escape", func(e *Engine, fr *frame, args []V) V { return args[0] })
	reg("internal/race.Acquire", noop)
	reg("internal/race.Release", noop)
	reg("internal/race.ReleaseMerge", noop)
	reg("internal/race.Disable", noop)
	reg("internal/race.Enable", noop)
	reg("internal/race.ReadRange", noop)
	reg("internal/race.WriteRange", noop)
	reg("internal/godebug.(*Setting).Value", func(e *Engine, fr *frame, args []V) V { return vStr("") })
	reg("internal/godebug.(*Setting).IncNonDefault", noop)

	// -----------------------------------------------------------------------------------------
	// math
	reg("math.Float64bits", func(e *Engine, fr *frame, args []V) V {
		if args[0].K == KSymFloat {
			return vSym(args[0].term())
		}
		return vUint(args[0].N)
	})
	reg("math.Float64frombits", func(e *Engine, fr *frame, args []V) V {
		if args[0].K == KSym {
			return V{K: KSymFloat, P: args[0].term()}
		}
		return V{K: KFloat, N: args[0].N}
	})
	reg("math.Float32bits", func(e *Engine, fr *frame, args []V) V {
		if args[0].K != KFloat {
			e.unsupported("math.Float32bits of a symbolic float")
		}
		return vUint(uint64(math.Float32bits(float32(args[0].float()))))
	})
	reg("math.Float32frombits", func(e *Engine, fr *frame, args []V) V {
		if args[0].K != KInt {
			e.unsupported("math.Float32frombits of a symbolic value")
		}
		return vFloat(float64(math.Float32frombits(uint32(args[0].N))))
	})
	f1 := func(f func(float64) float64) intrinsicFn {
		return func(e *Engine, fr *frame, args []V) V {
			if args[0].K != KFloat {
				e.unsupported("math function on a symbolic float")
			}
			return vFloat(f(args[0].float()))
		}
	}
	reg("math.Sqrt", f1(math.Sqrt))
	reg("math.sqrt", f1(math.Sqrt))
	reg("math.Floor", f1(math.Floor))
	reg("math.Ceil", f1(math.Ceil))
	reg("math.Trunc", f1(math.Trunc))
	reg("math.archFloor", f1(math.Floor))
	reg("math.archCeil", f1(math.Ceil))
	reg("math.archTrunc", f1(math.Trunc))
	reg("math.Log", f1(math.Log))
	reg("math.Exp", f1(math.Exp))
	reg("math.Log2", f1(math.Log2))
	reg("math.Log10", f1(math.Log10))
	reg("math.Pow", func(e *Engine, fr *frame, args []V) V {
		if args[0].K != KFloat || args[1].K != KFloat {
			e.unsupported("math.Pow on a symbolic float")
		}
		return vFloat(math.Pow(args[0].float(), args[1].float()))
	})
	reg("math.IsNaN", func(e *Engine, fr *frame, args []V) V {
		if args[0].K == KSymFloat {
			return e.fromTerm(e.ts.FIsNaN(args[0].term()), false)
		}
		f := args[0].float()
		return vBool(f != f)
	})

	// -----------------------------------------------------------------------------------------
	// sync (single baton: no contention unless goroutines interleave at blocking points)
	reg("(*sync.Mutex).Lock", noop)
	reg("(*sync.Mutex).Unlock", noop)
	reg("(*sync.Mutex).TryLock", func(e *Engine, fr *frame, args []V) V { return vBool(true) })
	reg("(*sync.RWMutex).Lock", noop)
	reg("(*sync.RWMutex).Unlock", noop)
	reg("(*sync.RWMutex).RLock", noop)
	reg("(*sync.RWMutex).RUnlock", noop)
	reg("(*sync.Once).Do", func(e *Engine, fr *frame, args []V) V {
		p := args[0].ptr()
		// Once struct: field 0 is `done` (atomic.Uint32 or uint32 depending on version) — use a side table
		if e.onceDone[p] {
			return V{}
		}
		e.onceDone[p] = true
		e.logUndo(func() { delete(e.onceDone, p) })
		e.call(fr, 0, args[1], nil)
		return V{}
	})
	reg("(*sync.Pool).Get", func(e *Engine, fr *frame, args []V) V {
		p := args[0].ptr()
		// field "New" is the last exported field; find by type
		st := p.P.([]V)
		for i := len(st) - 1; i >= 0; i-- {
			if st[i].K == KFunc {
				if st[i].P == nil {
					return vNilIface()
				}
				return e.call(fr, 0, st[i], nil)
			}
		}
		return vNilIface()
	})
	reg("(*sync.Pool).Put", noop)
	reg("(*sync.WaitGroup).Add", func(e *Engine, fr *frame, args []V) V {
		if e.rec != nil {
			e.recEvent(Event{Op: "wg.add", N: int64(e.concInt(args[1]))})
			return V{}
		}
		p := args[0].ptr()
		n := e.wgCount[p] + int64(e.concInt(args[1]))
		if n < 0 {
			panic(targetPanic{vIface(types.Typ[types.String], vStr("sync: negative WaitGroup counter"))})
		}
		e.wgCount[p] = n
		return V{}
	})
	reg("(*sync.WaitGroup).Done", func(e *Engine, fr *frame, args []V) V {
		if e.rec != nil {
			e.recEvent(Event{Op: "wg.done"})
			return V{}
		}
		p := args[0].ptr()
		n := e.wgCount[p] - 1
		if n < 0 {
			panic(targetPanic{vIface(types.Typ[types.String], vStr("sync: negative WaitGroup counter"))})
		}
		e.wgCount[p] = n
		return V{}
	})
	reg("(*sync.WaitGroup).Wait", func(e *Engine, fr *frame, args []V) V {
		if e.rec != nil {
			e.recEvent(Event{Op: "wg.wait"})
			return V{}
		}
		p := args[0].ptr()
		s := e.ensureSched()
		for i := 0; e.wgCount[p] > 0; i++ {
			if len(s.ready) == 0 {
				panic(abort{kind: AbortDeadlock, msg: "WaitGroup.Wait: all goroutines are asleep - deadlock"})
			}
			if i > 100000 {
				e.unsupported("WaitGroup.Wait: no progress")
			}
			s.yield()
		}
		return V{}
	})
	reg("(*sync.Map).Load", func(e *Engine, fr *frame, args []V) V {
		m := e.syncMap(args[0].ptr())
		v, ok := e.mapLookup(m, args[1])
		if !ok {
			return vTuple(vNilIface(), vBool(false))
		}
		return vTuple(v, vBool(true))
	})
	reg("(*sync.Map).Store", func(e *Engine, fr *frame, args []V) V {
		e.mapInsert(e.syncMap(args[0].ptr()), args[1], args[2])
		return V{}
	})
	reg("(*sync.Map).LoadOrStore", func(e *Engine, fr *frame, args []V) V {
		m := e.syncMap(args[0].ptr())
		if v, ok := e.mapLookup(m, args[1]); ok {
			return vTuple(v, vBool(true))
		}
		e.mapInsert(m, args[1], args[2])
		return vTuple(args[2], vBool(false))
	})
	reg("(*sync.Map).Delete", func(e *Engine, fr *frame, args []V) V {
		e.mapDelete(e.syncMap(args[0].ptr()), args[1])
		return V{}
	})
	reg("(*sync.Map).Range", func(e *Engine, fr *frame, args []V) V {
		it := e.newMapIter(e.syncMap(args[0].ptr()))
		for {
			k, v, ok := it.next()
			if !ok {
				break
			}
			r := e.call(fr, 0, args[1], []V{k, v})
			if !e.truth(r) {
				break
			}
		}
		return V{}
	})
	atomicLoad := func(e *Engine, fr *frame, args []V) V { return e.load(nil, args[0].ptr()) }
	atomicStore := func(e *Engine, fr *frame, args []V) V {
		e.storeInto(args[0].ptr(), args[1])
		return V{}
	}
	for _, t := range []string{"Int32", "Int64", "Uint32", "Uint64", "Uintptr", "Pointer"} {
		reg("sync/atomic.Load"+t, atomicLoad)
		reg("sync/atomic.Store"+t, atomicStore)
	}
	atomicAdd := func(w uint8, signed bool) intrinsicFn {
		return func(e *Engine, fr *frame, args []V) V {
			p := args[0].ptr()
			old := *p
			var nv V
			if old.K == KInt && args[1].K == KInt {
				nv = vUint(norm(old.N+args[1].N, w, signed))
			} else {
				nv = e.fromTerm(e.ts.Bin(OpAdd, e.toTermW(old, w), e.toTermW(args[1], w)), signed)
			}
			e.storeInto(p, nv)
			return nv
		}
	}
	reg("sync/atomic.AddInt32", atomicAdd(32, true))
	reg("sync/atomic.AddInt64", atomicAdd(64, true))
	reg("sync/atomic.AddUint32", atomicAdd(32, false))
	reg("sync/atomic.AddUint64", atomicAdd(64, false))
	cas := func(e *Engine, fr *frame, args []V) V {
		p := args[0].ptr()
		if e.truth(e.equal(*p, args[1])) {
			e.storeInto(p, args[2])
			return vBool(true)
		}
		return vBool(false)
	}
	for _, t := range []string{"Int32", "Int64", "Uint32", "Uint64", "Uintptr", "Pointer"} {
		reg("sync/atomic.CompareAndSwap"+t, cas)
	}
	// typed atomics: struct{ _ noCopy; v T }: value is the last field
	lastField := func(p *V) *V {
		st := p.P.([]V)
		return &st[len(st)-1]
	}
	for _, t := range []string{"Int32", "Int64", "Uint32", "Uint64", "Bool", "Uintptr"} {
		reg("(*sync/atomic."+t+").Load", func(e *Engine, fr *frame, args []V) V { return *lastField(args[0].ptr()) })
		reg("(*sync/atomic."+t+").Store", func(e *Engine, fr *frame, args []V) V {
			e.storeInto(lastField(args[0].ptr()), args[1])
			return V{}
		})
		reg("(*sync/atomic."+t+").CompareAndSwap", func(e *Engine, fr *frame, args []V) V {
			p := lastField(args[0].ptr())
			if e.truth(e.equal(*p, args[1])) {
				e.storeInto(p, args[2])
				return vBool(true)
			}
			return vBool(false)
		})
	}
	reg("(*sync/atomic.Value).Load", func(e *Engine, fr *frame, args []V) V {
		st := args[0].ptr().P.([]V)
		return st[0]
	})
	reg("(*sync/atomic.Value).Store", func(e *Engine, fr *frame, args []V) V {
		st := args[0].ptr().P.([]V)
		e.storeInto(&st[0], args[1])
		return V{}
	})

	// -----------------------------------------------------------------------------------------
	// errors
	reg("errors.Is", func(e *Engine, fr *frame, args []V) V { return vBool(e.errorsIs(fr, args[0], args[1])) })
	reg("errors.As", func(e *Engine, fr *frame, args []V) V { return vBool(e.errorsAs(fr, args[0], args[1])) })

	reg("(runtime.errorString).Error", func(e *Engine, fr *frame, args []V) V { return args[0] })
	reg("(runtime.errorString).RuntimeError", noop)
	// -----------------------------------------------------------------------------------------
	// os / runtime / time / log
	reg("os.Exit", func(e *Engine, fr *frame, args []V) V {
		panic(abort{kind: AbortExit, code: int(int64(e.concInt(args[0]))), msg: "os.Exit"})
	})
	reg("os.Getenv", func(e *Engine, fr *frame, args []V) V {
		k, _ := concStr(args[0])
		if v, ok := e.env[k]; ok {
			return vStr(v)
		}
		return vStr("")
	})
	reg("os.LookupEnv", func(e *Engine, fr *frame, args []V) V {
		k, _ := concStr(args[0])
		v, ok := e.env[k]
		return vTuple(vStr(v), vBool(ok))
	})
	reg("os.Getwd", func(e *Engine, fr *frame, args []V) V { return vTuple(vStr("/virtual/cwd"), vNilIface()) })
	reg("runtime.GOMAXPROCS", func(e *Engine, fr *frame, args []V) V { return vInt(4) })
	reg("runtime.NumCPU", func(e *Engine, fr *frame, args []V) V { return vInt(4) })
	reg("runtime.Gosched", func(e *Engine, fr *frame, args []V) V {
		if e.sched != nil {
			e.sched.yield()
		}
		return V{}
	})
	reg("runtime.GC", noop)
	reg("runtime.KeepAlive", noop)
	reg("runtime.SetFinalizer", noop)
	reg("runtime/debug.Stack", func(e *Engine, fr *frame, args []V) V { return V{K: KSlice, P: []V{}} })
	reg("runtime/debug.PrintStack", noop)
	for _, n := range []string{"Print", "Printf", "Println"} {
		reg("log."+n, noop)
		reg("(*log.Logger)."+n, noop)
	}
	for _, n := range []string{"Fatal", "Fatalf", "Fatalln"} {
		reg("log."+n, func(e *Engine, fr *frame, args []V) V {
			panic(abort{kind: AbortExit, code: 1, msg: "log.Fatal"})
		})
	}
	for _, n := range []string{"Panic", "Panicf", "Panicln"} {
		reg("log."+n, func(e *Engine, fr *frame, args []V) V {
			panic(targetPanic{vIface(types.Typ[types.String], vStr("log.Panic"))})
		})
	}

	// -----------------------------------------------------------------------------------------
	// sort (reflection based parts)
	reg("sort.Slice", func(e *Engine, fr *frame, args []V) V { e.sortSlice(fr, args[0], args[1]); return V{} })
	reg("sort.SliceStable", func(e *Engine, fr *frame, args []V) V { e.sortSlice(fr, args[0], args[1]); return V{} })
	reg("sort.SliceIsSorted", func(e *Engine, fr *frame, args []V) V {
		s := args[0].iface().V.slice()
		for i := len(s) - 1; i > 0; i-- {
			if e.truth(e.call(fr, 0, args[1], []V{vInt(int64(i)), vInt(int64(i - 1))})) {
				return vBool(false)
			}
		}
		return vBool(true)
	})

	// the reflection registry of the meta package: a no-op unless the check asks for the real one
	reg("github.com/cloudwego/thriftgo/generator/golang/extension/meta.RegisterStruct", func(e *Engine, fr *frame, args []V) V {
		if e.cfg.RealMeta {
			return e.callSSANoIntrinsic(fr, "github.com/cloudwego/thriftgo/generator/golang/extension/meta.RegisterStruct", args)
		}
		return V{}
	})
	// unsafe helpers of the libraries under analysis
	s2b := func(e *Engine, fr *frame, args []V) V {
		if isOpaqueStr(args[0]) {
			e.unsupported("opaque string converted to bytes")
		}
		b := strBytes(args[0])
		cp := make([]V, len(b))
		copy(cp, b)
		return V{K: KSlice, P: cp}
	}
	b2s := func(e *Engine, fr *frame, args []V) V { return mkStr(args[0].slice()) }
	reg("github.com/cloudwego/gopkg/unsafex.StringToBinary", s2b)
	reg("github.com/cloudwego/gopkg/unsafex.BinaryToString", b2s)
	reg("github.com/cloudwego/thriftgo/internal/utils.StringToBytes", s2b)
	reg("github.com/cloudwego/thriftgo/internal/utils.BytesToString", b2s)
	reg("github.com/cloudwego/thriftgo/internal/utils.S2B", s2b)
	reg("github.com/cloudwego/thriftgo/internal/utils.B2S", b2s)
}

func (e *Engine) syncMap(p *V) *Map {
	if m, ok := e.syncMaps[p]; ok {
		return m
	}
	m := newMap(nil, nil)
	e.syncMaps[p] = m
	if e.inPath {
		e.logUndo(func() { delete(e.syncMaps, p) })
	}
	return m
}

// sortSlice sorts the engine slice inside the interface x with the interpreted less function
// (stable insertion sort; sort.Slice does not promise stability but any correct order of
// equal elements is allowed).
func (e *Engine) sortSlice(fr *frame, x V, less V) {
	s := x.iface().V.slice()
	n := len(s)
	// sort a permutation using less(i,j) on the ORIGINAL positions is not possible since less
	// indexes the live slice; do insertion sort with swaps, which keeps indices meaningful.
	for i := 1; i < n; i++ {
		for j := i; j > 0; j-- {
			if !e.truth(e.call(fr, 0, less, []V{vInt(int64(j)), vInt(int64(j - 1))})) {
				break
			}
			a, b := copyVal(s[j]), copyVal(s[j-1])
			e.storeInto(&s[j], b)
			e.storeInto(&s[j-1], a)
		}
	}
}

func (e *Engine) errorsIs(fr *frame, err, target V) bool {
	if err.iface() == nil || target.iface() == nil {
		return err.iface() == nil && target.iface() == nil
	}
	comparable := types.Comparable(target.iface().T)
	for depth := 0; depth < 100; depth++ {
		ei := err.iface()
		if ei == nil {
			return false
		}
		if comparable && types.Identical(ei.T, target.iface().T) && e.truth(e.equal(err, target)) {
			return true
		}
		if m := e.methodByName(ei.T, "Is"); m != nil && m.Signature.Params().Len() == 1 {
			if e.truth(e.call(fr, 0, V{K: KFunc, P: m}, []V{ei.V, target})) {
				return true
			}
		}
		m := e.methodByName(ei.T, "Unwrap")
		if m == nil {
			return false
		}
		res := m.Signature.Results()
		if res.Len() != 1 {
			return false
		}
		r := e.call(fr, 0, V{K: KFunc, P: m}, []V{ei.V})
		if r.K == KSlice {
			for _, x := range r.slice() {
				if e.errorsIs(fr, x, target) {
					return true
				}
			}
			return false
		}
		err = r
	}
	return false
}

func (e *Engine) errorsAs(fr *frame, err, target V) bool {
	ti := target.iface()
	if ti == nil {
		panic(targetPanic{vIface(types.Typ[types.String], vStr("errors: target cannot be nil"))})
	}
	pt, ok := ti.T.Underlying().(*types.Pointer)
	if !ok {
		panic(targetPanic{vIface(types.Typ[types.String], vStr("errors: target must be a non-nil pointer"))})
	}
	want := pt.Elem()
	cell := ti.V.ptr()
	for depth := 0; depth < 100; depth++ {
		ei := err.iface()
		if ei == nil {
			return false
		}
		if it, isIface := want.Underlying().(*types.Interface); isIface {
			if e.implements(ei.T, it) {
				e.storeInto(cell, err)
				return true
			}
		} else if types.Identical(ei.T, want) {
			e.storeInto(cell, ei.V)
			return true
		}
		if m := e.methodByName(ei.T, "As"); m != nil && m.Signature.Params().Len() == 1 {
			if e.truth(e.call(fr, 0, V{K: KFunc, P: m}, []V{ei.V, target})) {
				return true
			}
		}
		m := e.methodByName(ei.T, "Unwrap")
		if m == nil || m.Signature.Results().Len() != 1 {
			return false
		}
		r := e.call(fr, 0, V{K: KFunc, P: m}, []V{ei.V})
		if r.K != KIface {
			return false
		}
		err = r
	}
	return false
}

// methodByName finds a method of the dynamic type t by name.
func (e *Engine) methodByName(t types.Type, name string) *ssa.Function {
	ms := e.prog.MethodSets.MethodSet(t)
	for i := 0; i < ms.Len(); i++ {
		sel := ms.At(i)
		if sel.Obj().Name() == name {
			return e.prog.MethodValue(sel)
		}
	}
	return nil
}

var _ = sort.Ints
var _ = fmt.Sprint
