package gosym

import (
	"fmt"
	"go/types"
	"sort"
	"strings"
	"sync"
	"time"

	"golang.org/x/tools/go/ssa"
)

// PathOutcome is the result of one explored path.
type PathOutcome struct {
	Kind      string // ok | violation | panic | fatal | exit | steplimit | infeasible | inconclusive | done
	Msg       string
	Model     Model
	VarNames  []string
	Covers    []string
	KnownHits map[string]string
	Steps     int64
	ExitCode  int
	Decisions int
	Notes     []string
	Debug     []string
	Trace     []Event
}

// NewEngine creates an engine over prog and runs the package initialisers reachable from
// the given packages (restricted by cfg.InitAllow).
func NewEngine(prog *ssa.Program, cfg *Config, initPkgs []*ssa.Package) (*Engine, error) {
	solver, err := NewSolver(cfg.SolverKind, cfg.TimeoutMs)
	if err != nil {
		return nil, err
	}
	e := &Engine{
		prog:      prog,
		ts:        NewTerms(),
		solver:    solver,
		globals:   map[*ssa.Global]*V{},
		fninfo:    map[*ssa.Function]*fnInfo{},
		consts:    map[*ssa.Const]V{},
		cfg:       cfg,
		ptrIDs:    map[*V]uint64{},
		onceDone:  map[*V]bool{},
		wgCount:   map[*V]int64{},
		syncMaps:  map[*V]*Map{},
		env:       map[string]string{},
		hostState: map[string]any{},
		known:     map[*Term]bool{},
		varSeq:    map[string]int{},
		covers:    map[string]bool{},
		knownHits: map[string]string{},
		model:     Model{},
	}
	if rt := prog.ImportedPackage("runtime"); rt != nil {
		e.runtimeErrorString = rt.Type("errorString").Type()
	} else {
		return nil, fmt.Errorf("program does not include package runtime")
	}
	if ep := prog.ImportedPackage("errors"); ep != nil {
		e.errorsErrorString = ep.Type("errorString").Type()
	}
	// run initialisers (outside any path: no undo logging, no symbolic values)
	var initErr error
	func() {
		defer func() {
			if r := recover(); r != nil {
				initErr = fmt.Errorf("package initialisation failed: %v", fmtPanic(r))
			}
		}()
		e.solver.BeginPath()
		for _, p := range initPkgs {
			if f := p.Func("init"); f != nil {
				e.call(nil, 0, V{K: KFunc, P: f}, nil)
			}
		}
		e.solver.EndPath()
	}()
	if initErr != nil {
		solver.Close()
		return nil, initErr
	}
	e.Stats.Steps += e.steps
	return e, nil
}

func fmtPanic(r any) string {
	switch r := r.(type) {
	case targetPanic:
		return "panic: " + panicString(r.v)
	case abort:
		return r.String()
	case hostFailure:
		return r.String()
	}
	return fmt.Sprint(r)
}

func panicString(v V) string {
	it := v.iface()
	if it == nil {
		return "nil"
	}
	switch it.V.K {
	case KStr:
		return it.V.P.(string)
	case KSymStr:
		return it.V.String()
	}
	if it.V.K == KPtr && it.V.ptr() != nil {
		// *errors.errorString, *fmt.wrapError: first field is the message
		if it.V.ptr().K == KStruct {
			f := it.V.ptr().fields()
			if len(f) > 0 && (f[0].K == KStr || f[0].K == KSymStr) {
				if s, ok := concStr(f[0]); ok {
					return s
				}
				return f[0].String()
			}
		}
	}
	return fmt.Sprintf("(%s) %s", it.T, it.V)
}

func (e *Engine) Close() { e.solver.Close() }

// RunPath executes the harness function once along item.
func (e *Engine) RunPath(fn *ssa.Function, args []V, item WorkItem) (out PathOutcome, next []WorkItem) {
	e.inPath = true
	e.prefix = item.Prefix
	e.pos = 0
	e.decisions = e.decisions[:0]
	e.model = item.Model
	if e.model == nil {
		e.model = Model{}
	}
	e.pc = e.pc[:0]
	for k := range e.known {
		delete(e.known, k)
	}
	e.steps = 0
	e.depth = 0
	for k := range e.varSeq {
		delete(e.varSeq, k)
	}
	e.pathVars = e.pathVars[:0]
	e.newItems = nil
	e.covers = map[string]bool{}
	e.knownHits = map[string]string{}
	e.notes = nil
	e.violation = nil
	e.nondetMapOrder = false
	e.overrides = nil
	e.mapOrderBudget = -1
	e.stdout.Reset()
	for k := range e.wgCount {
		delete(e.wgCount, k)
	}
	e.solver.BeginPath()

	func() {
		defer func() {
			r := recover()
			if r == nil {
				out.Kind = "ok"
				return
			}
			switch r := r.(type) {
			case abort:
				switch r.kind {
				case AbortViolation:
					out.Kind = "violation"
					out.Msg = r.msg
					out.Model = e.violation.Model
				case AbortExit:
					out.Kind = "exit"
					out.ExitCode = r.code
					out.Msg = fmt.Sprintf("os.Exit(%d)", r.code)
					out.Model = e.model
				case AbortStepLimit:
					out.Kind = "steplimit"
					out.Msg = r.msg
					out.Model = e.model
				case AbortDepthLimit:
					out.Kind = "fatal"
					out.Msg = "stack overflow: " + r.msg
					out.Model = e.model
				case AbortDeadlock:
					out.Kind = "fatal"
					out.Msg = r.msg
					out.Model = e.model
				case AbortInfeasible:
					out.Kind = "infeasible"
					out.Msg = r.msg
				case AbortDone:
					out.Kind = "ok"
				default:
					out.Kind = "inconclusive"
					out.Msg = r.msg
				}
			case targetPanic:
				out.Kind = "panic"
				out.Msg = "panic: " + panicString(r.v)
				out.Model = e.model
			case hostFailure:
				out.Kind = "inconclusive"
				out.Msg = r.String()
			default:
				out.Kind = "inconclusive"
				out.Msg = fmt.Sprintf("engine failure: %v", r)
			}
		}()
		r := e.call(nil, 0, V{K: KFunc, P: fn}, args)
		if e.captureResult != nil {
			*e.captureResult = r
		}
	}()

	e.endPathSched()
	for k := range e.covers {
		out.Covers = append(out.Covers, k)
	}
	sort.Strings(out.Covers)
	out.KnownHits = e.knownHits
	out.Steps = e.steps
	out.Decisions = len(e.decisions)
	out.Notes = e.notes
	out.Debug = e.debugOut
	if e.rec != nil {
		out.Trace = e.rec.events
		e.rec = nil
	}
	e.debugOut = nil
	for _, v := range e.pathVars {
		out.VarNames = append(out.VarNames, v.Name)
	}
	if out.Model != nil {
		// complete the model: every path variable gets a value
		m := Model{}
		for _, v := range e.pathVars {
			m[v.Name] = out.Model[v.Name] & mask(maxw(v.W))
		}
		out.Model = m
	}
	next = e.newItems
	e.newItems = nil
	e.Stats.Paths++
	e.Stats.Steps += e.steps
	e.rollback()
	e.inPath = false
	e.solver.EndPath()
	return
}

func maxw(w uint8) uint8 {
	if w == 0 {
		return 1
	}
	return w
}

// ---------------------------------------------------------------------------------------------
// parallel exploration

// ExploreOpts bounds an exploration.
type ExploreOpts struct {
	Workers       int
	MaxPaths      int64
	Deadline      time.Time
	StopOnFirst   bool // stop after the first violation-like outcome
	MaxViolations int
}

// ExploreResult aggregates the outcomes of all paths of one harness instance.
type ExploreResult struct {
	Harness      string
	Args         []int64
	Paths        int64
	Steps        int64
	Queries      int64
	SolverUnknown int64
	Outcomes     map[string]int64
	Covers       map[string]int64
	KnownHits    map[string]string
	Violations   []PathOutcome // violation | panic | fatal | steplimit | exit (classification is the caller's)
	Inconclusive map[string]int64
	Unexplored   int64 // work items left when a bound was hit
	Wall         time.Duration
	SolverTime   time.Duration
	SolverErrors []string
	Samples      []string
	MaxDecisions int
	Traces       [][]Event // recorded thread programs (thread-modular mode), one per ok path
}

// Pool is a set of engines sharing one SSA program.
type Pool struct {
	Engines []*Engine
}

func NewPool(prog *ssa.Program, cfg *Config, initPkgs []*ssa.Package, n int) (*Pool, error) {
	p := &Pool{Engines: make([]*Engine, n)}
	var wg sync.WaitGroup
	errs := make([]error, n)
	for i := 0; i < n; i++ {
		wg.Add(1)
		go func(i int) {
			defer wg.Done()
			p.Engines[i], errs[i] = NewEngine(prog, cfg, initPkgs)
		}(i)
	}
	wg.Wait()
	for _, err := range errs {
		if err != nil {
			p.Close()
			return nil, err
		}
	}
	return p, nil
}

func (p *Pool) Close() {
	for _, e := range p.Engines {
		if e != nil {
			e.Close()
		}
	}
}

// Explore runs fn(args...) over all paths.
func (p *Pool) Explore(fn *ssa.Function, args []int64, opts ExploreOpts) *ExploreResult {
	start := time.Now()
	res := &ExploreResult{
		Harness: fn.Name(), Args: args,
		Outcomes: map[string]int64{}, Covers: map[string]int64{}, KnownHits: map[string]string{},
		Inconclusive: map[string]int64{},
	}
	var mu sync.Mutex
	cond := sync.NewCond(&mu)
	queue := []WorkItem{{}}
	active := 0
	stop := false
	nw := opts.Workers
	if nw > len(p.Engines) {
		nw = len(p.Engines)
	}
	if nw < 1 {
		nw = 1
	}
	var q0, t0 []int64
	for _, e := range p.Engines[:nw] {
		q0 = append(q0, int64(e.solver.Queries))
		t0 = append(t0, int64(e.solver.Time))
	}
	var wg sync.WaitGroup
	for w := 0; w < nw; w++ {
		wg.Add(1)
		go func(e *Engine) {
			defer wg.Done()
			vargs := make([]V, len(args))
			for {
				mu.Lock()
				for len(queue) == 0 && active > 0 && !stop {
					cond.Wait()
				}
				if stop || (len(queue) == 0 && active == 0) {
					mu.Unlock()
					cond.Broadcast()
					return
				}
				item := queue[len(queue)-1]
				queue = queue[:len(queue)-1]
				active++
				mu.Unlock()

				for i, a := range args {
					vargs[i] = vInt(a)
				}
				out, next := e.RunPath(fn, vargs, item)

				mu.Lock()
				active--
				res.Paths++
				res.Steps += out.Steps
				res.Outcomes[out.Kind]++
				if out.Decisions > res.MaxDecisions {
					res.MaxDecisions = out.Decisions
				}
				for _, c := range out.Covers {
					res.Covers[c]++
				}
				if out.Trace != nil && out.Kind == "ok" {
					res.Traces = append(res.Traces, out.Trace)
				}
				for k, v := range out.KnownHits {
					res.KnownHits[k] = v
				}
				switch out.Kind {
				case "violation", "panic", "fatal", "steplimit", "exit":
					if len(res.Violations) < max(opts.MaxViolations, 1)*4 {
						res.Violations = append(res.Violations, out)
					}
					if opts.StopOnFirst && out.Kind != "exit" {
						stop = true
					}
				case "inconclusive":
					res.Inconclusive[out.Msg]++
				}
				for _, n := range out.Notes {
					res.Inconclusive["note: "+n]++
				}
				if len(res.Samples) < 3 && out.Kind == "ok" && len(out.VarNames) > 0 {
					res.Samples = append(res.Samples, fmt.Sprintf("path with %d decisions over vars %s", out.Decisions, strings.Join(firstN(out.VarNames, 8), ",")))
				}
				queue = append(queue, next...)
				if opts.MaxPaths > 0 && res.Paths >= opts.MaxPaths {
					stop = true
				}
				if !opts.Deadline.IsZero() && time.Now().After(opts.Deadline) {
					stop = true
				}
				mu.Unlock()
				cond.Broadcast()
			}
		}(p.Engines[w])
	}
	wg.Wait()
	res.Unexplored = int64(len(queue))
	res.Wall = time.Since(start)
	for i, e := range p.Engines[:nw] {
		res.Queries += int64(e.solver.Queries) - q0[i]
		res.SolverTime += time.Duration(int64(e.solver.Time) - t0[i])
		res.SolverUnknown = e.Stats.SolverUnknown
		if len(e.solver.Errors) > 0 {
			res.SolverErrors = append(res.SolverErrors, firstN(e.solver.Errors, 3)...)
			e.solver.Errors = nil
		}
	}
	return res
}

func firstN(s []string, n int) []string {
	if len(s) > n {
		return s[:n]
	}
	return s
}

// FindFunc finds a package-level function by package path and name.
func FindFunc(prog *ssa.Program, pkgPath, name string) *ssa.Function {
	for _, p := range prog.AllPackages() {
		if p.Pkg.Path() == pkgPath {
			return p.Func(name)
		}
	}
	return nil
}

var _ types.Type

// runConcrete runs fn() once and stores its result (testing aid).
func (e *Engine) runConcrete(fn *ssa.Function, result *V) PathOutcome {
	hf := &HostFunc{Name: "runConcrete", Fn: func(e *Engine, fr *frame, args []V) V {
		*result = e.call(nil, 0, V{K: KFunc, P: fn}, nil)
		return V{}
	}}
	_ = hf
	var out PathOutcome
	wrapper := fn
	e.captureResult = result
	out, _ = e.RunPath(wrapper, nil, WorkItem{})
	e.captureResult = nil
	return out
}

// SetMaxSteps changes the per-path step bound of all engines.
func (p *Pool) SetMaxSteps(n int64) {
	for _, e := range p.Engines {
		cfg := *e.cfg
		cfg.MaxSteps = n
		e.cfg = &cfg
	}
}

// RunString runs fn() string concretely and returns its result.
func (e *Engine) RunString(fn *ssa.Function) (string, PathOutcome) {
	var got V
	out := e.runConcrete(fn, &got)
	if out.Kind != "ok" {
		return "", out
	}
	s, ok := concStr(got)
	if !ok {
		out.Kind = "inconclusive"
		out.Msg = "result is not a concrete string: " + got.String()
	}
	return s, out
}
