// Package gosym is a symbolic executor for Go SSA (golang.org/x/tools/go/ssa)
// that discharges path conditions and assertions with an SMT solver.
package gosym
