package gosym

import (
	"fmt"
	"go/types"
	"reflect"
	"strings"

	"golang.org/x/tools/go/ssa"
)

// A small model of package reflect over engine values and go/types types. Only the
// operations used by the code under analysis are provided; anything else ends the path as
// inconclusive.

// hostObject is a value whose interface methods are implemented by the engine.
type hostObject interface {
	hostMethod(e *Engine, name string) *HostFunc
}

// RType models reflect.Type (the dynamic value inside a reflect.Type interface).
type RType struct {
	T types.Type
}

// RValue models reflect.Value. Either addr (addressable storage) or val is set.
type RValue struct {
	T     types.Type
	addr  *V
	val   V
	valid bool
}

func (rv *RValue) get() V {
	if rv.addr != nil {
		return *rv.addr
	}
	return rv.val
}

func (e *Engine) reflectTypeIface(t types.Type) V {
	if t == nil {
		return vNilIface()
	}
	rt := e.rtypeOf(t)
	return vIface(e.rtypeGoType(), V{K: KOpaque, P: rt})
}

// rtypeOf canonicalises RType objects so that reflect.Type values compare equal (==) and
// can be used as map keys when the underlying types are identical.
func (e *Engine) rtypeOf(t types.Type) *RType {
	key := typeKey(t)
	if e.rtypes == nil {
		e.rtypes = map[string]*RType{}
	}
	if rt, ok := e.rtypes[key]; ok {
		return rt
	}
	rt := &RType{T: t}
	e.rtypes[key] = rt
	return rt
}

// rtypeGoType is the (dynamic) Go type carried by reflect.Type interface values: *reflect.rtype.
func (e *Engine) rtypeGoType() types.Type {
	if e.rtypeT != nil {
		return e.rtypeT
	}
	if p := e.prog.ImportedPackage("reflect"); p != nil {
		if t := p.Type("rtype"); t != nil {
			e.rtypeT = types.NewPointer(t.Type())
			return e.rtypeT
		}
	}
	e.rtypeT = types.Typ[types.UnsafePointer]
	return e.rtypeT
}

func reflectKind(t types.Type) reflect.Kind {
	switch t := t.Underlying().(type) {
	case *types.Basic:
		switch t.Kind() {
		case types.Bool:
			return reflect.Bool
		case types.Int:
			return reflect.Int
		case types.Int8:
			return reflect.Int8
		case types.Int16:
			return reflect.Int16
		case types.Int32:
			return reflect.Int32
		case types.Int64:
			return reflect.Int64
		case types.Uint:
			return reflect.Uint
		case types.Uint8:
			return reflect.Uint8
		case types.Uint16:
			return reflect.Uint16
		case types.Uint32:
			return reflect.Uint32
		case types.Uint64:
			return reflect.Uint64
		case types.Uintptr:
			return reflect.Uintptr
		case types.Float32:
			return reflect.Float32
		case types.Float64:
			return reflect.Float64
		case types.Complex64:
			return reflect.Complex64
		case types.Complex128:
			return reflect.Complex128
		case types.String:
			return reflect.String
		case types.UnsafePointer:
			return reflect.UnsafePointer
		}
	case *types.Array:
		return reflect.Array
	case *types.Chan:
		return reflect.Chan
	case *types.Signature:
		return reflect.Func
	case *types.Interface:
		return reflect.Interface
	case *types.Map:
		return reflect.Map
	case *types.Pointer:
		return reflect.Ptr
	case *types.Slice:
		return reflect.Slice
	case *types.Struct:
		return reflect.Struct
	}
	return reflect.Invalid
}

func (rt *RType) hostMethod(e *Engine, name string) *HostFunc {
	mk := func(f func(e *Engine, fr *frame, args []V) V) *HostFunc {
		return &HostFunc{Name: "reflect.Type." + name, Fn: f}
	}
	t := rt.T
	switch name {
	case "Kind":
		return mk(func(e *Engine, fr *frame, args []V) V { return vUint(uint64(reflectKind(t))) })
	case "String":
		return mk(func(e *Engine, fr *frame, args []V) V { return vStr(goTypeString(t)) })
	case "Name":
		return mk(func(e *Engine, fr *frame, args []V) V {
			switch tt := t.(type) {
			case *types.Named:
				return vStr(tt.Obj().Name())
			case *types.Basic:
				return vStr(tt.Name())
			}
			return vStr("")
		})
	case "PkgPath":
		return mk(func(e *Engine, fr *frame, args []V) V {
			if n, ok := t.(*types.Named); ok && n.Obj().Pkg() != nil {
				return vStr(n.Obj().Pkg().Path())
			}
			return vStr("")
		})
	case "Elem":
		return mk(func(e *Engine, fr *frame, args []V) V {
			switch u := t.Underlying().(type) {
			case *types.Pointer:
				return e.reflectTypeIface(u.Elem())
			case *types.Slice:
				return e.reflectTypeIface(u.Elem())
			case *types.Array:
				return e.reflectTypeIface(u.Elem())
			case *types.Map:
				return e.reflectTypeIface(u.Elem())
			case *types.Chan:
				return e.reflectTypeIface(u.Elem())
			}
			panic(targetPanic{vIface(types.Typ[types.String], vStr("reflect: Elem of invalid type " + t.String()))})
		})
	case "Key":
		return mk(func(e *Engine, fr *frame, args []V) V {
			if m, ok := t.Underlying().(*types.Map); ok {
				return e.reflectTypeIface(m.Key())
			}
			panic(targetPanic{vIface(types.Typ[types.String], vStr("reflect: Key of non-map type " + t.String()))})
		})
	case "NumField":
		return mk(func(e *Engine, fr *frame, args []V) V {
			st, ok := t.Underlying().(*types.Struct)
			if !ok {
				panic(targetPanic{vIface(types.Typ[types.String], vStr("reflect: NumField of non-struct type " + t.String()))})
			}
			return vInt(int64(st.NumFields()))
		})
	case "Field":
		return mk(func(e *Engine, fr *frame, args []V) V {
			st, ok := t.Underlying().(*types.Struct)
			if !ok {
				panic(targetPanic{vIface(types.Typ[types.String], vStr("reflect: Field of non-struct type " + t.String()))})
			}
			i := int(e.concInt(args[0]))
			if i < 0 || i >= st.NumFields() {
				panic(targetPanic{vIface(types.Typ[types.String], vStr("reflect: Field index out of bounds"))})
			}
			return e.structFieldValue(st, i)
		})
	case "NumIn", "NumOut":
		return mk(func(e *Engine, fr *frame, args []V) V {
			sig, ok := t.Underlying().(*types.Signature)
			if !ok {
				panic(targetPanic{vIface(types.Typ[types.String], vStr("reflect: " + name + " of non-func type " + t.String()))})
			}
			if name == "NumIn" {
				return vInt(int64(sig.Params().Len()))
			}
			return vInt(int64(sig.Results().Len()))
		})
	case "In", "Out":
		return mk(func(e *Engine, fr *frame, args []V) V {
			sig := t.Underlying().(*types.Signature)
			i := int(e.concInt(args[0]))
			if name == "In" {
				return e.reflectTypeIface(sig.Params().At(i).Type())
			}
			return e.reflectTypeIface(sig.Results().At(i).Type())
		})
	case "NumMethod":
		return mk(func(e *Engine, fr *frame, args []V) V {
			return vInt(int64(len(e.exportedMethods(t))))
		})
	case "Method":
		return mk(func(e *Engine, fr *frame, args []V) V {
			ms := e.exportedMethods(t)
			i := int(e.concInt(args[0]))
			if i < 0 || i >= len(ms) {
				reflectPanic("reflect: Method index out of range")
			}
			rp := e.prog.ImportedPackage("reflect")
			mt := rp.Type("Method").Type().Underlying().(*types.Struct)
			out := make([]V, mt.NumFields())
			for k := 0; k < mt.NumFields(); k++ {
				switch mt.Field(k).Name() {
				case "Name":
					out[k] = vStr(ms[i].Obj().Name())
				case "Index":
					out[k] = vInt(int64(i))
				case "Type":
					out[k] = e.reflectTypeIface(ms[i].Type())
				default:
					out[k] = zero(mt.Field(k).Type())
				}
			}
			return V{K: KStruct, P: out}
		})
	case "Implements":
		return mk(func(e *Engine, fr *frame, args []V) V {
			u := e.rtypeArg(args[0])
			it, ok := u.Underlying().(*types.Interface)
			if !ok {
				panic(targetPanic{vIface(types.Typ[types.String], vStr("reflect: non-interface type passed to Type.Implements"))})
			}
			return vBool(e.implements(t, it))
		})
	case "Comparable":
		return mk(func(e *Engine, fr *frame, args []V) V { return vBool(types.Comparable(t)) })
	}
	return mk(func(e *Engine, fr *frame, args []V) V {
		e.unsupported("reflect.Type.%s is not modelled", name)
		return V{}
	})
}

// exportedMethods lists the exported methods of t sorted by name (reflect's order).
func (e *Engine) exportedMethods(t types.Type) []*types.Selection {
	ms := e.prog.MethodSets.MethodSet(t)
	var out []*types.Selection
	for i := 0; i < ms.Len(); i++ {
		if ms.At(i).Obj().Exported() {
			out = append(out, ms.At(i))
		}
	}
	// MethodSet is sorted by Id, which for exported names is the name
	return out
}

func (e *Engine) rtypeArg(v V) types.Type {
	it := v.iface()
	if it == nil {
		e.targetPanicStr("invalid memory address or nil pointer dereference")
	}
	rt, ok := it.V.P.(*RType)
	if !ok {
		e.unsupported("reflect.Type value of unexpected representation")
	}
	return rt.T
}

// structFieldValue builds a reflect.StructField value.
func (e *Engine) structFieldValue(st *types.Struct, i int) V {
	rp := e.prog.ImportedPackage("reflect")
	if rp == nil || rp.Type("StructField") == nil {
		e.unsupported("package reflect not loaded")
	}
	sft := rp.Type("StructField").Type().Underlying().(*types.Struct)
	f := st.Field(i)
	out := make([]V, sft.NumFields())
	for k := 0; k < sft.NumFields(); k++ {
		switch sft.Field(k).Name() {
		case "Name":
			out[k] = vStr(f.Name())
		case "PkgPath":
			if f.Exported() || f.Pkg() == nil {
				out[k] = vStr("")
			} else {
				out[k] = vStr(f.Pkg().Path())
			}
		case "Type":
			out[k] = e.reflectTypeIface(f.Type())
		case "Tag":
			out[k] = vStr(st.Tag(i))
		case "Offset":
			out[k] = vUint(uint64(i) * 8)
		case "Index":
			out[k] = V{K: KSlice, P: []V{vInt(int64(i))}}
		case "Anonymous":
			out[k] = vBool(f.Embedded())
		default:
			out[k] = zero(sft.Field(k).Type())
		}
	}
	return V{K: KStruct, P: out}
}

func (e *Engine) rvalue(v V) *RValue {
	if rv, ok := v.P.(*RValue); ok && v.K == KOpaque {
		return rv
	}
	if v.K == KStruct {
		// the zero reflect.Value{}
		return &RValue{}
	}
	e.unsupported("reflect.Value of unexpected representation (kind %d)", v.K)
	return nil
}

func mkRValue(rv *RValue) V { return V{K: KOpaque, P: rv} }

func reflectPanic(msg string) {
	panic(targetPanic{vIface(types.Typ[types.String], vStr(msg))})
}

func (e *Engine) isZeroValue(v V) V {
	switch v.K {
	case KInt:
		return vBool(v.N == 0)
	case KSym:
		t := v.term()
		if t.W == 0 {
			return e.fromTerm(e.ts.BNot(t), false)
		}
		return e.fromTerm(e.ts.Cmp(OpEq, t, e.ts.Const(0, t.W)), false)
	case KFloat:
		return vBool(v.N == 0)
	case KStr, KSymStr:
		return vBool(strLen(v) == 0)
	case KPtr:
		return vBool(v.ptr() == nil)
	case KSlice:
		return vBool(v.slice() == nil)
	case KMap:
		return vBool(v.mapv() == nil)
	case KIface:
		return vBool(v.iface() == nil)
	case KFunc:
		return vBool(v.P == nil)
	case KChan:
		c, _ := v.P.(*Chan)
		return vBool(c == nil)
	case KStruct, KArray:
		res := e.ts.True
		for _, f := range v.fields() {
			z := e.isZeroValue(f)
			if z.K == KInt {
				if z.N == 0 {
					return vBool(false)
				}
				continue
			}
			res = e.ts.BAnd(res, z.term())
		}
		return e.fromTerm(res, false)
	}
	e.unsupported("reflect.Value.IsZero on kind %d", v.K)
	return V{}
}

func init() {
	reg("reflect.TypeOf", func(e *Engine, fr *frame, args []V) V {
		it := args[0].iface()
		if it == nil {
			return vNilIface()
		}
		return e.reflectTypeIface(it.T)
	})
	reg("reflect.ValueOf", func(e *Engine, fr *frame, args []V) V {
		it := args[0].iface()
		if it == nil {
			return mkRValue(&RValue{})
		}
		return mkRValue(&RValue{T: it.T, val: copyVal(it.V), valid: true})
	})
	reg("reflect.PtrTo", func(e *Engine, fr *frame, args []V) V {
		return e.reflectTypeIface(types.NewPointer(e.rtypeArg(args[0])))
	})
	reg("reflect.PointerTo", func(e *Engine, fr *frame, args []V) V {
		return e.reflectTypeIface(types.NewPointer(e.rtypeArg(args[0])))
	})
	reg("reflect.SliceOf", func(e *Engine, fr *frame, args []V) V {
		return e.reflectTypeIface(types.NewSlice(e.rtypeArg(args[0])))
	})
	reg("reflect.MapOf", func(e *Engine, fr *frame, args []V) V {
		return e.reflectTypeIface(types.NewMap(e.rtypeArg(args[0]), e.rtypeArg(args[1])))
	})
	reg("reflect.New", func(e *Engine, fr *frame, args []V) V {
		t := e.rtypeArg(args[0])
		cell := new(V)
		*cell = zero(t)
		return mkRValue(&RValue{T: types.NewPointer(t), val: vPtr(cell), valid: true})
	})
	reg("reflect.Zero", func(e *Engine, fr *frame, args []V) V {
		t := e.rtypeArg(args[0])
		return mkRValue(&RValue{T: t, val: zero(t), valid: true})
	})
	reg("reflect.MakeSlice", func(e *Engine, fr *frame, args []V) V {
		t := e.rtypeArg(args[0])
		ln := e.concMakeLen(args[1], types.Typ[types.Int], "len")
		cp := e.concMakeLen(args[2], types.Typ[types.Int], "cap")
		elem := t.Underlying().(*types.Slice).Elem()
		s := make([]V, cp)
		for i := range s {
			s[i] = zero(elem)
		}
		return mkRValue(&RValue{T: t, val: V{K: KSlice, P: s[:ln]}, valid: true})
	})
	reg("reflect.MakeMapWithSize", func(e *Engine, fr *frame, args []V) V {
		t := e.rtypeArg(args[0])
		mt := t.Underlying().(*types.Map)
		return mkRValue(&RValue{T: t, val: V{K: KMap, P: newMap(mt.Key(), mt.Elem())}, valid: true})
	})
	reg("reflect.MakeMap", func(e *Engine, fr *frame, args []V) V {
		t := e.rtypeArg(args[0])
		mt := t.Underlying().(*types.Map)
		return mkRValue(&RValue{T: t, val: V{K: KMap, P: newMap(mt.Key(), mt.Elem())}, valid: true})
	})
	reg("reflect.DeepEqual", func(e *Engine, fr *frame, args []V) V { return e.deepEqual(args[0], args[1], 0) })

	rv := func(name string, f func(e *Engine, fr *frame, r *RValue, args []V) V) {
		reg("(reflect.Value)."+name, func(e *Engine, fr *frame, args []V) V {
			return f(e, fr, e.rvalue(args[0]), args[1:])
		})
	}
	rv("IsValid", func(e *Engine, fr *frame, r *RValue, args []V) V { return vBool(r.valid) })
	rv("Kind", func(e *Engine, fr *frame, r *RValue, args []V) V {
		if !r.valid {
			return vUint(uint64(reflect.Invalid))
		}
		return vUint(uint64(reflectKind(r.T)))
	})
	rv("Type", func(e *Engine, fr *frame, r *RValue, args []V) V {
		if !r.valid {
			reflectPanic("reflect: call of reflect.Value.Type on zero Value")
		}
		return e.reflectTypeIface(r.T)
	})
	rv("IsNil", func(e *Engine, fr *frame, r *RValue, args []V) V {
		v := r.get()
		switch v.K {
		case KPtr:
			return vBool(v.ptr() == nil)
		case KSlice:
			return vBool(v.slice() == nil)
		case KMap:
			return vBool(v.mapv() == nil)
		case KIface:
			return vBool(v.iface() == nil)
		case KFunc:
			return vBool(v.P == nil)
		case KChan:
			c, _ := v.P.(*Chan)
			return vBool(c == nil)
		}
		reflectPanic("reflect: call of reflect.Value.IsNil on " + fmt.Sprint(reflectKind(r.T)) + " Value")
		return V{}
	})
	rv("IsZero", func(e *Engine, fr *frame, r *RValue, args []V) V {
		if !r.valid {
			reflectPanic("reflect: call of reflect.Value.IsZero on zero Value")
		}
		return e.isZeroValue(r.get())
	})
	rv("Elem", func(e *Engine, fr *frame, r *RValue, args []V) V {
		v := r.get()
		switch u := r.T.Underlying().(type) {
		case *types.Pointer:
			p := v.ptr()
			if p == nil {
				return mkRValue(&RValue{})
			}
			return mkRValue(&RValue{T: u.Elem(), addr: p, valid: true})
		case *types.Interface:
			it := v.iface()
			if it == nil {
				return mkRValue(&RValue{})
			}
			return mkRValue(&RValue{T: it.T, val: it.V, valid: true})
		}
		reflectPanic("reflect: call of reflect.Value.Elem on " + fmt.Sprint(reflectKind(r.T)) + " Value")
		return V{}
	})
	rv("NumField", func(e *Engine, fr *frame, r *RValue, args []V) V {
		st, ok := r.T.Underlying().(*types.Struct)
		if !ok {
			reflectPanic("reflect: call of reflect.Value.NumField on non-struct Value")
		}
		return vInt(int64(st.NumFields()))
	})
	rv("Field", func(e *Engine, fr *frame, r *RValue, args []V) V {
		st, ok := r.T.Underlying().(*types.Struct)
		if !ok {
			reflectPanic("reflect: call of reflect.Value.Field on non-struct Value")
		}
		i := int(e.concInt(args[0]))
		if i < 0 || i >= st.NumFields() {
			reflectPanic("reflect: Field index out of range")
		}
		if r.addr != nil {
			return mkRValue(&RValue{T: st.Field(i).Type(), addr: &r.addr.P.([]V)[i], valid: true})
		}
		return mkRValue(&RValue{T: st.Field(i).Type(), val: copyVal(r.val.fields()[i]), valid: true})
	})
	rv("Interface", func(e *Engine, fr *frame, r *RValue, args []V) V {
		if !r.valid {
			reflectPanic("reflect: call of reflect.Value.Interface on zero Value")
		}
		v := r.get()
		if _, isIface := r.T.Underlying().(*types.Interface); isIface {
			return v
		}
		return vIface(r.T, copyVal(v))
	})
	rv("CanSet", func(e *Engine, fr *frame, r *RValue, args []V) V { return vBool(r.addr != nil) })
	rv("CanAddr", func(e *Engine, fr *frame, r *RValue, args []V) V { return vBool(r.addr != nil) })
	rv("CanInterface", func(e *Engine, fr *frame, r *RValue, args []V) V { return vBool(r.valid) })
	rv("Addr", func(e *Engine, fr *frame, r *RValue, args []V) V {
		if r.addr == nil {
			reflectPanic("reflect.Value.Addr of unaddressable value")
		}
		return mkRValue(&RValue{T: types.NewPointer(r.T), val: vPtr(r.addr), valid: true})
	})
	set := func(e *Engine, r *RValue, v V) V {
		if r.addr == nil {
			reflectPanic("reflect: reflect.Value.Set using unaddressable value")
		}
		e.storeInto(r.addr, v)
		return V{}
	}
	rv("Set", func(e *Engine, fr *frame, r *RValue, args []V) V {
		src := e.rvalue(args[0])
		v := src.get()
		if _, dstIface := r.T.Underlying().(*types.Interface); dstIface {
			if _, srcIface := src.T.Underlying().(*types.Interface); !srcIface {
				v = vIface(src.T, copyVal(v))
			}
		}
		return set(e, r, v)
	})
	for _, n := range []string{"SetBool", "SetInt", "SetUint", "SetString", "SetFloat", "SetBytes"} {
		name := n
		rv(name, func(e *Engine, fr *frame, r *RValue, args []V) V {
			v := args[0]
			if name == "SetInt" || name == "SetUint" {
				w, signed, _ := basicInfo(r.T)
				if v.K == KInt {
					v = vUint(norm(v.N, w, signed))
				} else if v.K == KSym && v.term().W > w {
					v = e.fromTerm(e.ts.Extract(v.term(), w-1, 0), signed)
				}
			}
			return set(e, r, v)
		})
	}
	rv("Bool", func(e *Engine, fr *frame, r *RValue, args []V) V { return r.get() })
	rv("String", func(e *Engine, fr *frame, r *RValue, args []V) V {
		if !r.valid {
			return vStr("<invalid Value>")
		}
		if isStringType(r.T) {
			return r.get()
		}
		return vStr("<" + goTypeString(r.T) + " Value>")
	})
	rv("Int", func(e *Engine, fr *frame, r *RValue, args []V) V {
		v := r.get()
		if v.K == KSym {
			return e.fromTerm(e.ts.SExt(v.term(), 64), true)
		}
		return v
	})
	rv("Uint", func(e *Engine, fr *frame, r *RValue, args []V) V {
		v := r.get()
		if v.K == KSym {
			return e.fromTerm(e.ts.ZExt(v.term(), 64), false)
		}
		return v
	})
	rv("Float", func(e *Engine, fr *frame, r *RValue, args []V) V { return r.get() })
	rv("Bytes", func(e *Engine, fr *frame, r *RValue, args []V) V { return r.get() })
	rv("Pointer", func(e *Engine, fr *frame, r *RValue, args []V) V { return e.ptrToUintptr(r.get()) })
	rv("Len", func(e *Engine, fr *frame, r *RValue, args []V) V {
		v := r.get()
		switch v.K {
		case KSlice, KArray:
			return vInt(int64(len(v.slice())))
		case KStr, KSymStr:
			return vInt(int64(strLen(v)))
		case KMap:
			return vInt(int64(v.mapv().Len()))
		}
		reflectPanic("reflect: call of reflect.Value.Len on " + fmt.Sprint(reflectKind(r.T)) + " Value")
		return V{}
	})
	rv("Index", func(e *Engine, fr *frame, r *RValue, args []V) V {
		v := r.get()
		var elem types.Type
		switch u := r.T.Underlying().(type) {
		case *types.Slice:
			elem = u.Elem()
		case *types.Array:
			elem = u.Elem()
		default:
			reflectPanic("reflect: call of reflect.Value.Index on " + fmt.Sprint(reflectKind(r.T)) + " Value")
		}
		s := v.slice()
		i := e.index(args[0], types.Typ[types.Int], len(s))
		return mkRValue(&RValue{T: elem, addr: &s[i], valid: true})
	})
	rv("MapIndex", func(e *Engine, fr *frame, r *RValue, args []V) V {
		mt := r.T.Underlying().(*types.Map)
		k := e.rvalue(args[0]).get()
		v, ok := e.mapLookup(r.get().mapv(), k)
		if !ok {
			return mkRValue(&RValue{})
		}
		return mkRValue(&RValue{T: mt.Elem(), val: copyVal(v), valid: true})
	})
	rv("SetMapIndex", func(e *Engine, fr *frame, r *RValue, args []V) V {
		k := e.rvalue(args[0]).get()
		val := e.rvalue(args[1])
		if !val.valid {
			e.mapDelete(r.get().mapv(), k)
			return V{}
		}
		e.mapInsert(r.get().mapv(), k, val.get())
		return V{}
	})
	rv("MapKeys", func(e *Engine, fr *frame, r *RValue, args []V) V {
		mt := r.T.Underlying().(*types.Map)
		it := e.newMapIter(r.get().mapv())
		var out []V
		for {
			k, _, ok := it.next()
			if !ok {
				break
			}
			out = append(out, mkRValue(&RValue{T: mt.Key(), val: copyVal(k), valid: true}))
		}
		return V{K: KSlice, P: out}
	})
	rv("MapRange", func(e *Engine, fr *frame, r *RValue, args []V) V {
		mt := r.T.Underlying().(*types.Map)
		return V{K: KPtr, P: &V{K: KOpaque, P: &rMapIter{it: e.newMapIter(r.get().mapv()), mt: mt}}}
	})
	reg("(*reflect.MapIter).Next", func(e *Engine, fr *frame, args []V) V {
		mi := args[0].ptr().P.(*rMapIter)
		mi.k, mi.v, mi.ok = mi.it.next()
		return vBool(mi.ok)
	})
	reg("(*reflect.MapIter).Key", func(e *Engine, fr *frame, args []V) V {
		mi := args[0].ptr().P.(*rMapIter)
		return mkRValue(&RValue{T: mi.mt.Key(), val: copyVal(mi.k), valid: true})
	})
	reg("(*reflect.MapIter).Value", func(e *Engine, fr *frame, args []V) V {
		mi := args[0].ptr().P.(*rMapIter)
		return mkRValue(&RValue{T: mi.mt.Elem(), val: copyVal(mi.v), valid: true})
	})
	rv("Convert", func(e *Engine, fr *frame, r *RValue, args []V) V {
		t := e.rtypeArg(args[0])
		if _, toIface := t.Underlying().(*types.Interface); toIface {
			v := r.get()
			if _, fromIface := r.T.Underlying().(*types.Interface); !fromIface {
				v = vIface(r.T, copyVal(v))
			}
			return mkRValue(&RValue{T: t, val: v, valid: true})
		}
		return mkRValue(&RValue{T: t, val: e.conv(t, r.T, r.get()), valid: true})
	})
	rv("Call", func(e *Engine, fr *frame, r *RValue, args []V) V {
		fn := r.get()
		var in []V
		for _, a := range args[0].slice() {
			in = append(in, e.rvalue(a).get())
		}
		sig := r.T.Underlying().(*types.Signature)
		res := e.call(fr, 0, fn, in)
		var out []V
		switch sig.Results().Len() {
		case 0:
		case 1:
			out = []V{mkRValue(&RValue{T: sig.Results().At(0).Type(), val: res, valid: true})}
		default:
			for i, x := range res.P.([]V) {
				out = append(out, mkRValue(&RValue{T: sig.Results().At(i).Type(), val: x, valid: true}))
			}
		}
		return V{K: KSlice, P: out}
	})
	rv("MethodByName", func(e *Engine, fr *frame, r *RValue, args []V) V {
		name := argStr(e, args[0], "method name")
		m := e.methodByName(r.T, name)
		if m == nil {
			return mkRValue(&RValue{})
		}
		recv := r.get()
		sig := m.Signature
		// bound method: a closure-like host function
		params := make([]*types.Var, 0)
		for i := 0; i < sig.Params().Len(); i++ {
			params = append(params, sig.Params().At(i))
		}
		bt := types.NewSignatureType(nil, nil, nil, types.NewTuple(params...), sig.Results(), sig.Variadic())
		hf := &HostFunc{Name: "bound " + m.String(), Fn: func(e *Engine, fr *frame, a []V) V {
			return e.call(fr, 0, V{K: KFunc, P: m}, append([]V{recv}, a...))
		}}
		return mkRValue(&RValue{T: bt, val: V{K: KFunc, P: hf}, valid: true})
	})
}

type rMapIter struct {
	it   *mapIter
	mt   *types.Map
	k, v V
	ok   bool
}

// deepEqual models reflect.DeepEqual for the value shapes of the code under analysis.
func (e *Engine) deepEqual(x, y V, depth int) V {
	if depth > 50 {
		e.unsupported("reflect.DeepEqual: nesting too deep (cyclic value?)")
	}
	if x.K != y.K {
		if (x.K == KInt || x.K == KSym) && (y.K == KInt || y.K == KSym) {
			return e.equal(x, y)
		}
		if (x.K == KStr || x.K == KSymStr) && (y.K == KStr || y.K == KSymStr) {
			return e.equal(x, y)
		}
		return vBool(false)
	}
	and := func(parts ...V) V {
		res := e.ts.True
		for _, p := range parts {
			if p.K == KInt {
				if p.N == 0 {
					return vBool(false)
				}
				continue
			}
			res = e.ts.BAnd(res, p.term())
		}
		return e.fromTerm(res, false)
	}
	switch x.K {
	case KIface:
		xi, yi := x.iface(), y.iface()
		if xi == nil || yi == nil {
			return vBool(xi == nil && yi == nil)
		}
		if !types.Identical(xi.T, yi.T) {
			return vBool(false)
		}
		return e.deepEqual(xi.V, yi.V, depth+1)
	case KPtr:
		if x.ptr() == y.ptr() {
			return vBool(true)
		}
		if x.ptr() == nil || y.ptr() == nil {
			return vBool(false)
		}
		return e.deepEqual(*x.ptr(), *y.ptr(), depth+1)
	case KStruct, KArray:
		var parts []V
		xs, ys := x.fields(), y.fields()
		for i := range xs {
			parts = append(parts, e.deepEqual(xs[i], ys[i], depth+1))
		}
		return and(parts...)
	case KSlice:
		xs, ys := x.slice(), y.slice()
		if (xs == nil) != (ys == nil) || len(xs) != len(ys) {
			return vBool(false)
		}
		var parts []V
		for i := range xs {
			parts = append(parts, e.deepEqual(xs[i], ys[i], depth+1))
		}
		return and(parts...)
	case KMap:
		xm, ym := x.mapv(), y.mapv()
		if (xm == nil) != (ym == nil) || xm.Len() != ym.Len() {
			return vBool(false)
		}
		if xm == ym {
			return vBool(true)
		}
		var parts []V
		it := e.newMapIter(xm)
		for {
			k, v, ok := it.next()
			if !ok {
				break
			}
			w, found := e.mapLookup(ym, k)
			if !found {
				return vBool(false)
			}
			parts = append(parts, e.deepEqual(v, w, depth+1))
		}
		return and(parts...)
	case KFunc:
		return vBool(x.P == nil && y.P == nil)
	}
	return e.equal(x, y)
}

func denyExceptions(fn *ssa.Function) bool {
	name := fn.String()
	return strings.HasPrefix(name, "(reflect.StructTag).") || strings.HasPrefix(name, "(reflect.Kind).")
}
