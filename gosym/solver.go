package gosym

import (
	"bufio"
	"fmt"
	"io"
	"os/exec"
	"strconv"
	"strings"
	"time"
)

// SatResult of a solver query.
type SatResult int

const (
	Unsat SatResult = iota
	Sat
	Unknown
)

func (r SatResult) String() string { return [...]string{"unsat", "sat", "unknown"}[r] }

// Solver is one incremental SMT solver process driven over a pipe.
type Solver struct {
	Kind    string // z3 | z3-new | cvc5
	cmd     *exec.Cmd
	in      io.WriteCloser
	out     *bufio.Reader
	epoch   uint32 // current path epoch; a term with defEpoch==epoch has a live define-fun
	declared map[string]uint32
	Queries int
	Time    time.Duration
	Errors  []string
	buf     strings.Builder
	log     io.Writer
	TimeoutMs int
}

func solverArgv(kind string, timeoutMs int) []string {
	switch kind {
	case "z3", "z3-new":
		return []string{kind, "-in", fmt.Sprintf("-t:%d", timeoutMs)}
	case "cvc5":
		return []string{"cvc5", "--incremental", "--produce-models", "--lang=smt2", fmt.Sprintf("--tlimit-per=%d", timeoutMs)}
	}
	panic("unknown solver " + kind)
}

func NewSolver(kind string, timeoutMs int) (*Solver, error) {
	argv := solverArgv(kind, timeoutMs)
	cmd := exec.Command(argv[0], argv[1:]...)
	in, err := cmd.StdinPipe()
	if err != nil {
		return nil, err
	}
	out, err := cmd.StdoutPipe()
	if err != nil {
		return nil, err
	}
	cmd.Stderr = cmd.Stdout
	if err := cmd.Start(); err != nil {
		return nil, err
	}
	s := &Solver{Kind: kind, cmd: cmd, in: in, out: bufio.NewReaderSize(out, 1<<16), epoch: 1, declared: map[string]uint32{}, TimeoutMs: timeoutMs}
	s.send("(set-option :produce-models true)\n")
	if kind == "cvc5" {
		s.send("(set-logic ALL)\n")
	}
	return s, nil
}

func (s *Solver) SetLog(w io.Writer) { s.log = w }

func (s *Solver) Close() {
	if s.cmd != nil {
		s.in.Close()
		s.cmd.Process.Kill()
		s.cmd.Wait()
		s.cmd = nil
	}
}

func (s *Solver) send(str string) {
	s.buf.WriteString(str)
}

func (s *Solver) flush() {
	if s.buf.Len() == 0 {
		return
	}
	if s.log != nil {
		io.WriteString(s.log, s.buf.String())
	}
	io.WriteString(s.in, s.buf.String())
	s.buf.Reset()
}

func (s *Solver) readLine() string {
	line, err := s.out.ReadString('\n')
	if err != nil {
		return "(error \"solver pipe: " + err.Error() + "\")"
	}
	return strings.TrimSpace(line)
}

// BeginPath opens a scope for one path; definitions and assertions made afterwards are
// dropped by EndPath.
func (s *Solver) BeginPath() {
	s.epoch++
	s.send("(push 1)\n")
}

func (s *Solver) EndPath() {
	s.send("(pop 1)\n")
	s.epoch++
}

// define makes sure t (and its sub-terms) are known to the solver in the current path scope.
func (s *Solver) define(t *Term) {
	switch t.Op {
	case OpConst, OpTrue, OpFalse:
		return
	case OpVar, OpBVar:
		if s.declared[t.Name] != s.epoch {
			s.declared[t.Name] = s.epoch
			s.send("(declare-const " + smtName(t.Name) + " " + sortOf(t.W) + ")\n")
		}
		return
	}
	if t.defEpoch == s.epoch {
		return
	}
	// iterative post-order to avoid deep recursion on long chains
	type item struct {
		t    *Term
		done bool
	}
	stack := []item{{t, false}}
	for len(stack) > 0 {
		it := stack[len(stack)-1]
		stack = stack[:len(stack)-1]
		x := it.t
		if x == nil {
			continue
		}
		switch x.Op {
		case OpConst, OpTrue, OpFalse:
			continue
		case OpVar, OpBVar:
			s.define(x)
			continue
		}
		if x.defEpoch == s.epoch {
			continue
		}
		if it.done {
			x.defEpoch = s.epoch
			s.send("(define-fun " + x.ref() + " () " + sortOf(x.W) + " " + x.body() + ")\n")
			continue
		}
		stack = append(stack, item{x, true})
		stack = append(stack, item{x.C, false}, item{x.B, false}, item{x.A, false})
	}
}

// Assert adds t to the current path scope.
func (s *Solver) Assert(t *Term) {
	s.define(t)
	s.send("(assert " + t.ref() + ")\n")
}

// CheckWith asks whether the asserted path condition together with extra is satisfiable.
// When sat and wantModel, the values of vars are returned.
func (s *Solver) CheckWith(extra *Term, vars []*Term, wantModel bool) (SatResult, Model) {
	start := time.Now()
	defer func() { s.Time += time.Since(start); s.Queries++ }()
	if extra != nil {
		s.define(extra)
	}
	for _, v := range vars {
		s.define(v)
	}
	s.send("(push 1)\n")
	if extra != nil {
		s.send("(assert " + extra.ref() + ")\n")
	}
	s.send("(check-sat)\n")
	s.flush()
	res := s.readResult()
	var m Model
	if res == Sat && wantModel {
		m = s.getModel(vars)
		if m == nil {
			res = Unknown
		}
	}
	s.send("(pop 1)\n")
	return res, m
}

func (s *Solver) readResult() SatResult {
	for {
		line := s.readLine()
		switch {
		case line == "sat":
			return Sat
		case line == "unsat":
			return Unsat
		case line == "unknown" || line == "timeout":
			return Unknown
		case strings.HasPrefix(line, "(error"):
			s.Errors = append(s.Errors, line)
			if strings.Contains(line, "solver pipe") {
				return Unknown
			}
			// keep reading: the check-sat answer still follows, but the result is not to be trusted
			r := s.readResult()
			_ = r
			return Unknown
		case line == "":
			continue
		default:
			// unexpected output (e.g. warnings); record and continue
			s.Errors = append(s.Errors, "unexpected: "+line)
			if len(s.Errors) > 1000 {
				return Unknown
			}
		}
	}
}

func (s *Solver) getModel(vars []*Term) Model {
	m := Model{}
	if len(vars) == 0 {
		return m
	}
	const chunk = 200
	for i := 0; i < len(vars); i += chunk {
		j := i + chunk
		if j > len(vars) {
			j = len(vars)
		}
		var sb strings.Builder
		sb.WriteString("(get-value (")
		for _, v := range vars[i:j] {
			sb.WriteString(v.ref())
			sb.WriteByte(' ')
		}
		sb.WriteString("))\n")
		s.send(sb.String())
		s.flush()
		txt := s.readSexp()
		if strings.HasPrefix(txt, "(error") {
			s.Errors = append(s.Errors, txt)
			return nil
		}
		if !parseValues(txt, vars[i:j], m) {
			s.Errors = append(s.Errors, "cannot parse get-value answer: "+txt)
			return nil
		}
	}
	return m
}

// readSexp reads one balanced s-expression (possibly spanning lines).
func (s *Solver) readSexp() string {
	var sb strings.Builder
	depth := 0
	started := false
	inBar := false
	for {
		line, err := s.out.ReadString('\n')
		if err != nil {
			return "(error \"pipe\")"
		}
		for _, c := range line {
			switch {
			case c == '|':
				inBar = !inBar
			case inBar:
			case c == '(':
				depth++
				started = true
			case c == ')':
				depth--
			}
		}
		sb.WriteString(line)
		if started && depth <= 0 {
			return strings.TrimSpace(sb.String())
		}
	}
}

// parseValues parses ((name value) ...) in the order of vars.
func parseValues(txt string, vars []*Term, m Model) bool {
	// tokenise
	toks := tokenize(txt)
	// expect: ( ( name val ) ( name val ) ... )
	i := 0
	if i >= len(toks) || toks[i] != "(" {
		return false
	}
	i++
	for _, v := range vars {
		if i >= len(toks) || toks[i] != "(" {
			return false
		}
		i++
		// name token (possibly |...|)
		i++
		if i >= len(toks) {
			return false
		}
		val := toks[i]
		switch {
		case val == "true":
			m[v.Name] = 1
		case val == "false":
			m[v.Name] = 0
		case strings.HasPrefix(val, "#x"):
			n, err := strconv.ParseUint(val[2:], 16, 64)
			if err != nil {
				return false
			}
			m[v.Name] = n
		case strings.HasPrefix(val, "#b"):
			n, err := strconv.ParseUint(val[2:], 2, 64)
			if err != nil {
				return false
			}
			m[v.Name] = n
		case val == "(":
			// (_ bvN w)
			if i+3 < len(toks) && toks[i+1] == "_" && strings.HasPrefix(toks[i+2], "bv") {
				n, err := strconv.ParseUint(toks[i+2][2:], 10, 64)
				if err != nil {
					return false
				}
				m[v.Name] = n
				i += 4 // ( _ bvN w )
			} else {
				return false
			}
		default:
			return false
		}
		i++
		if i >= len(toks) || toks[i] != ")" {
			return false
		}
		i++
	}
	return true
}

func tokenize(s string) []string {
	var toks []string
	i := 0
	for i < len(s) {
		c := s[i]
		switch {
		case c == ' ' || c == '\n' || c == '\t' || c == '\r':
			i++
		case c == '(' || c == ')':
			toks = append(toks, string(c))
			i++
		case c == '|':
			j := i + 1
			for j < len(s) && s[j] != '|' {
				j++
			}
			toks = append(toks, s[i:min(j+1, len(s))])
			i = j + 1
		default:
			j := i
			for j < len(s) && !strings.ContainsRune(" \n\t\r()", rune(s[j])) {
				j++
			}
			toks = append(toks, s[i:j])
			i = j
		}
	}
	return toks
}
