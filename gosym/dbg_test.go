package gosym

import (
	"os"
	"testing"
	"time"
)

func TestDbg(t *testing.T) {
	if os.Getenv("SELF") == "" {
		t.Skip("development helper: set SELF=<harness function>")
	}
	prog, err := Load("/verif", nil, []string{"verif/harness/selftest"}, []string{"GOFLAGS=-mod=mod", "GOPROXY=off", "GOSUMDB=off"})
	if err != nil {
		t.Fatal(err)
	}
	cfg := &Config{MaxSteps: 50000000, MaxDepth: 5000, MaxFork: 64, SolverKind: "z3", TimeoutMs: 5000, InitAllow: DefaultInitAllow}
	pool, err := NewPool(prog.Prog, cfg, prog.Pkgs, 1)
	if err != nil {
		t.Fatal(err)
	}
	f, _ := os.Create("/tmp/solver.log")
	pool.Engines[0].solver.SetLog(f)
	fn := FindFunc(prog.Prog, "verif/harness/selftest", os.Getenv("SELF"))
	res := pool.Explore(fn, nil, ExploreOpts{Workers: 1, Deadline: time.Now().Add(20 * time.Second)})
	t.Logf("paths=%d queries=%d outcomes=%v inconcl=%v solvertime=%v unexplored=%d", res.Paths, res.Queries, res.Outcomes, res.Inconclusive, res.SolverTime, res.Unexplored)
}
