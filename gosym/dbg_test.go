package gosym

import "testing"

func TestDbg(t *testing.T) {
	prog, e := loadSelftest(t)
	defer e.Close()
	for _, w := range e.InitWarnings {
		t.Log("init warning:", w)
	}
	for _, name := range []string{"D1", "D2", "D4", "D5", "D6", "D7"} {
		fn := FindFunc(prog.Prog, "verif/harness/selftest", name)
		var got V
		out := e.runConcrete(fn, &got)
		t.Logf("%s: %s %s -> %v", name, out.Kind, out.Msg, got)
	}
}
