package gosym

import (
	"fmt"
	"go/token"
	"go/types"
	"math"
	"unicode/utf8"

	"golang.org/x/tools/go/ssa"
)

// ---------------------------------------------------------------------------------------------
// helpers on integers

// toTerm lifts an integer/bool value to a term of the width of type t.
func (e *Engine) toTerm(v V, t types.Type) *Term {
	w, _, ok := basicInfo(t)
	if !ok {
		panic("toTerm: not an integer type: " + t.String())
	}
	return e.toTermW(v, w)
}

func (e *Engine) toTermW(v V, w uint8) *Term {
	if v.K == KSym {
		return v.term()
	}
	if v.K == KOpq {
		e.unsupported("a byte of an opaque (formatted from symbolic operands) string is inspected")
	}
	if v.K != KInt {
		panic(fmt.Sprintf("toTermW: kind %d", v.K))
	}
	if w == 1 {
		return e.ts.Bool(v.N != 0)
	}
	return e.ts.Const(v.N, w)
}

// fromTerm wraps a term as a value, folding constants.
func (e *Engine) fromTerm(t *Term, signed bool) V {
	switch t.Op {
	case OpConst:
		return vUint(norm(t.K, t.W, signed))
	case OpTrue:
		return vBool(true)
	case OpFalse:
		return vBool(false)
	}
	return vSym(t)
}

func (e *Engine) boolTerm(v V) *Term {
	if v.K == KInt {
		return e.ts.Bool(v.N != 0)
	}
	return v.term()
}

// ---------------------------------------------------------------------------------------------
// strings

// strBytes returns the bytes of a string value as engine values.
func strBytes(v V) []V {
	switch v.K {
	case KStr:
		s := v.P.(string)
		b := make([]V, len(s))
		for i := 0; i < len(s); i++ {
			b[i] = vUint(uint64(s[i]))
		}
		return b
	case KSymStr:
		return v.P.(*SymStr).B
	}
	panic(fmt.Sprintf("strBytes: kind %d", v.K))
}

func strLen(v V) int {
	switch v.K {
	case KStr:
		return len(v.P.(string))
	case KSymStr:
		return len(v.P.(*SymStr).B)
	}
	panic(fmt.Sprintf("strLen: kind %d", v.K))
}

// mkStr builds a string value from bytes, concrete when all bytes are.
func mkStr(b []V) V {
	conc := true
	for _, x := range b {
		if x.K != KInt {
			conc = false
			break
		}
	}
	if conc {
		bs := make([]byte, len(b))
		for i, x := range b {
			bs[i] = byte(x.N)
		}
		return vStr(string(bs))
	}
	cp := make([]V, len(b))
	copy(cp, b)
	return V{K: KSymStr, P: &SymStr{B: cp}}
}

func isOpaqueStr(v V) bool {
	if v.K == KSymStr {
		ss := v.P.(*SymStr)
		if ss.Opaque {
			return true
		}
		for _, b := range ss.B {
			if b.K == KOpq {
				return true
			}
		}
	}
	return false
}

// concStr returns the Go string when v is fully concrete.
func concStr(v V) (string, bool) {
	switch v.K {
	case KStr:
		return v.P.(string), true
	case KSymStr:
		ss := v.P.(*SymStr)
		if ss.Opaque {
			return "", false
		}
		bs := make([]byte, len(ss.B))
		for i, b := range ss.B {
			if b.K != KInt {
				return "", false
			}
			bs[i] = byte(b.N)
		}
		return string(bs), true
	}
	return "", false
}

func (e *Engine) byteTerm(b V) *Term { return e.toTermW(b, 8) }

// strEq returns the condition under which two strings are equal.
func (e *Engine) strEq(x, y V) V {
	if x.K == KStr && y.K == KStr {
		return vBool(x.P.(string) == y.P.(string))
	}
	if isOpaqueStr(x) || isOpaqueStr(y) {
		if r, ok := opaqueDiffer(strBytes(x), strBytes(y)); ok {
			return vBool(r)
		}
		e.unsupported("comparison of an opaque formatted string")
	}
	if strLen(x) != strLen(y) {
		return vBool(false)
	}
	xb, yb := strBytes(x), strBytes(y)
	c := e.ts.True
	for i := range xb {
		if xb[i].K == KInt && yb[i].K == KInt {
			if xb[i].N != yb[i].N {
				return vBool(false)
			}
			continue
		}
		c = e.ts.BAnd(c, e.ts.Cmp(OpEq, e.byteTerm(xb[i]), e.byteTerm(yb[i])))
	}
	return e.fromTerm(c, false)
}

// strLess returns the condition x < y (lexicographic on bytes).
func (e *Engine) strLess(x, y V) V {
	if x.K == KStr && y.K == KStr {
		return vBool(x.P.(string) < y.P.(string))
	}
	if isOpaqueStr(x) || isOpaqueStr(y) {
		e.unsupported("comparison of an opaque formatted string")
	}
	xb, yb := strBytes(x), strBytes(y)
	n := len(xb)
	if len(yb) < n {
		n = len(yb)
	}
	// build from the end: less_i = x[i]<y[i] || (x[i]==y[i] && less_{i+1}); base: len(x) < len(y)
	res := e.ts.Bool(len(xb) < len(yb))
	for i := n - 1; i >= 0; i-- {
		a, b := e.byteTerm(xb[i]), e.byteTerm(yb[i])
		res = e.ts.BOr(e.ts.Cmp(OpUlt, a, b), e.ts.BAnd(e.ts.Cmp(OpEq, a, b), res))
	}
	return e.fromTerm(res, false)
}

func (e *Engine) strConcat(x, y V) V {
	if x.K == KStr && y.K == KStr {
		return vStr(x.P.(string) + y.P.(string))
	}
	if strLen(x) == 0 {
		return y
	}
	if strLen(y) == 0 {
		return x
	}
	xb, yb := strBytes(x), strBytes(y)
	b := make([]V, 0, len(xb)+len(yb))
	b = append(b, xb...)
	b = append(b, yb...)
	r := mkStr(b)
	if isOpaqueStr(x) || isOpaqueStr(y) {
		r.P.(*SymStr).Opaque = true
	}
	return r
}

func substr(v V, lo, hi int) V {
	switch v.K {
	case KStr:
		return vStr(v.P.(string)[lo:hi])
	case KSymStr:
		ss := v.P.(*SymStr)
		r := mkStr(ss.B[lo:hi])
		if ss.Opaque && r.K == KSymStr {
			r.P.(*SymStr).Opaque = true
		}
		return r
	}
	panic("substr")
}

// ---------------------------------------------------------------------------------------------
// unop

func (e *Engine) unop(instr *ssa.UnOp, x V) V {
	switch instr.Op {
	case token.ARROW:
		return e.chanRecv(nil, x, instr.CommaOk, instr.X.Type().Underlying().(*types.Chan).Elem())
	case token.MUL:
		if x.K == KSymElem {
			return e.loadSym(deref(instr.X.Type()), x)
		}
		v := e.load(deref(instr.X.Type()), x.ptr())
		if v.K == KSym && v.term().W == 0 {
			// a bool cell read through *(*byte)(unsafe.Pointer(&b)): 0 or 1
			if w, signed, ok := basicInfo(instr.Type()); ok && w > 1 {
				return e.fromTerm(e.ts.BoolToBV(v.term(), w), signed)
			}
		}
		return v
	case token.SUB:
		t := instr.X.Type()
		switch x.K {
		case KInt:
			w, signed, _ := basicInfo(t)
			return vUint(norm(-x.N, w, signed))
		case KSym:
			_, signed, _ := basicInfo(t)
			return e.fromTerm(e.ts.Neg(x.term()), signed)
		case KFloat:
			f := -x.float()
			return vFloat(f)
		case KSymFloat:
			return V{K: KSymFloat, P: e.ts.Bin(OpXor, x.term(), e.ts.Const(1<<63, 64))}
		case KComplex:
			return V{K: KComplex, P: -x.P.(complex128)}
		}
	case token.NOT:
		switch x.K {
		case KInt:
			return vBool(x.N == 0)
		case KSym:
			return e.fromTerm(e.ts.BNot(x.term()), false)
		}
	case token.XOR:
		t := instr.X.Type()
		w, signed, _ := basicInfo(t)
		switch x.K {
		case KInt:
			return vUint(norm(^x.N, w, signed))
		case KSym:
			return e.fromTerm(e.ts.Not(x.term()), signed)
		}
	}
	panic(fmt.Sprintf("invalid unary op %s on kind %d", instr.Op, x.K))
}

// ---------------------------------------------------------------------------------------------
// binop

func (e *Engine) binop(op token.Token, tx, ty types.Type, x, y V) V {
	switch op {
	case token.EQL:
		return e.equal(x, y)
	case token.NEQ:
		return e.notV(e.equal(x, y))
	}
	ut := tx.Underlying()
	if b, ok := ut.(*types.Basic); ok {
		switch {
		case b.Info()&types.IsString != 0:
			return e.binopString(op, x, y)
		case b.Info()&types.IsFloat != 0:
			return e.binopFloat(op, b, x, y)
		case b.Info()&types.IsComplex != 0:
			return e.binopComplex(op, x, y)
		case b.Info()&(types.IsInteger|types.IsBoolean) != 0 || b.Kind() == types.UntypedRune:
			return e.binopInt(op, tx, ty, x, y)
		}
	}
	if _, ok := ut.(*types.TypeParam); ok {
		e.unsupported("binop on type parameter")
	}
	panic(fmt.Sprintf("binop %s on type %s", op, tx))
}

func (e *Engine) notV(v V) V {
	if v.K == KInt {
		return vBool(v.N == 0)
	}
	return e.fromTerm(e.ts.BNot(v.term()), false)
}

func (e *Engine) binopString(op token.Token, x, y V) V {
	switch op {
	case token.ADD:
		return e.strConcat(x, y)
	case token.LSS:
		return e.strLess(x, y)
	case token.GTR:
		return e.strLess(y, x)
	case token.LEQ:
		return e.notV(e.strLess(y, x))
	case token.GEQ:
		return e.notV(e.strLess(x, y))
	}
	panic("binopString: " + op.String())
}

func (e *Engine) binopComplex(op token.Token, x, y V) V {
	a, b := x.P.(complex128), y.P.(complex128)
	switch op {
	case token.ADD:
		return V{K: KComplex, P: a + b}
	case token.SUB:
		return V{K: KComplex, P: a - b}
	case token.MUL:
		return V{K: KComplex, P: a * b}
	case token.QUO:
		return V{K: KComplex, P: a / b}
	}
	panic("binopComplex: " + op.String())
}

func (e *Engine) binopFloat(op token.Token, b *types.Basic, x, y V) V {
	if x.K == KSymFloat || y.K == KSymFloat {
		tx, ty := e.floatTerm(x), e.floatTerm(y)
		switch op {
		case token.LSS:
			return e.fromTerm(e.ts.Cmp(OpFLt, tx, ty), false)
		case token.LEQ:
			return e.fromTerm(e.ts.Cmp(OpFLe, tx, ty), false)
		case token.GTR:
			return e.fromTerm(e.ts.Cmp(OpFLt, ty, tx), false)
		case token.GEQ:
			return e.fromTerm(e.ts.Cmp(OpFLe, ty, tx), false)
		}
		e.unsupported("float arithmetic %s on a symbolic operand", op)
	}
	a, c := x.float(), y.float()
	f32 := b.Kind() == types.Float32
	rnd := func(f float64) V {
		if f32 {
			f = float64(float32(f))
		}
		return vFloat(f)
	}
	switch op {
	case token.ADD:
		return rnd(a + c)
	case token.SUB:
		return rnd(a - c)
	case token.MUL:
		return rnd(a * c)
	case token.QUO:
		return rnd(a / c)
	case token.LSS:
		return vBool(a < c)
	case token.LEQ:
		return vBool(a <= c)
	case token.GTR:
		return vBool(a > c)
	case token.GEQ:
		return vBool(a >= c)
	}
	panic("binopFloat: " + op.String())
}

func (e *Engine) floatTerm(v V) *Term {
	if v.K == KSymFloat {
		return v.term()
	}
	return e.ts.Const(v.N, 64)
}

func (e *Engine) binopInt(op token.Token, tx, ty types.Type, x, y V) V {
	w, signed, _ := basicInfo(tx)
	if x.K == KInt && y.K == KInt {
		return e.binopIntConc(op, w, signed, ty, x.N, y.N)
	}
	ts := e.ts
	if w == 1 { // booleans: only & | ^ &^ never appear in Go; treat logical ops
		a, b := e.boolTerm(x), e.boolTerm(y)
		switch op {
		case token.AND, token.LAND:
			return e.fromTerm(ts.BAnd(a, b), false)
		case token.OR, token.LOR:
			return e.fromTerm(ts.BOr(a, b), false)
		}
		panic("binopInt on bool: " + op.String())
	}
	a := e.toTermW(x, w)
	switch op {
	case token.SHL, token.SHR:
		return e.shift(op, w, signed, a, y, ty)
	}
	b := e.toTermW(y, w)
	switch op {
	case token.ADD:
		return e.fromTerm(ts.Bin(OpAdd, a, b), signed)
	case token.SUB:
		return e.fromTerm(ts.Bin(OpSub, a, b), signed)
	case token.MUL:
		return e.fromTerm(ts.Bin(OpMul, a, b), signed)
	case token.QUO, token.REM:
		if !(b.Op == OpConst && b.K != 0) {
			if e.branch(ts.Cmp(OpEq, b, ts.Const(0, w))) {
				e.targetPanicStr("integer divide by zero")
			}
		}
		var o Op
		switch {
		case op == token.QUO && signed:
			o = OpSDiv
		case op == token.QUO:
			o = OpUDiv
		case signed:
			o = OpSRem
		default:
			o = OpURem
		}
		return e.fromTerm(ts.Bin(o, a, b), signed)
	case token.AND:
		return e.fromTerm(ts.Bin(OpAnd, a, b), signed)
	case token.OR:
		return e.fromTerm(ts.Bin(OpOr, a, b), signed)
	case token.XOR:
		return e.fromTerm(ts.Bin(OpXor, a, b), signed)
	case token.AND_NOT:
		return e.fromTerm(ts.Bin(OpAnd, a, ts.Not(b)), signed)
	case token.LSS:
		if signed {
			return e.fromTerm(ts.Cmp(OpSlt, a, b), false)
		}
		return e.fromTerm(ts.Cmp(OpUlt, a, b), false)
	case token.LEQ:
		if signed {
			return e.fromTerm(ts.Cmp(OpSle, a, b), false)
		}
		return e.fromTerm(ts.Cmp(OpUle, a, b), false)
	case token.GTR:
		if signed {
			return e.fromTerm(ts.Cmp(OpSlt, b, a), false)
		}
		return e.fromTerm(ts.Cmp(OpUlt, b, a), false)
	case token.GEQ:
		if signed {
			return e.fromTerm(ts.Cmp(OpSle, b, a), false)
		}
		return e.fromTerm(ts.Cmp(OpUle, b, a), false)
	}
	panic("binopInt: " + op.String())
}

func (e *Engine) shift(op token.Token, w uint8, signed bool, a *Term, y V, ty types.Type) V {
	ts := e.ts
	yw, ysigned, _ := basicInfo(ty)
	var cnt *Term
	if y.K == KInt {
		n := y.N
		if ysigned && int64(n) < 0 {
			e.targetPanicStr("negative shift amount")
		}
		if n >= uint64(w) {
			n = uint64(w)
		}
		cnt = ts.Const(n, w)
		if n >= uint64(w) {
			if op == token.SHR && signed {
				return e.fromTerm(ts.Bin(OpAShr, a, ts.Const(uint64(w-1), w)), signed)
			}
			return vUint(0)
		}
	} else {
		yt := y.term()
		if ysigned {
			if e.branch(ts.Cmp(OpSlt, yt, ts.Const(0, yw))) {
				e.targetPanicStr("negative shift amount")
			}
		}
		// saturate the count to w
		switch {
		case yw > w:
			big := ts.Cmp(OpUle, ts.Const(uint64(w), yw), yt)
			cnt = ts.Ite(big, ts.Const(uint64(w), w), ts.Extract(yt, w-1, 0))
		case yw < w:
			cnt = ts.ZExt(yt, w)
		default:
			cnt = yt
		}
		// SMT shifts already yield 0 (or sign fill) for counts >= w
	}
	switch {
	case op == token.SHL:
		return e.fromTerm(ts.Bin(OpShl, a, cnt), signed)
	case signed:
		return e.fromTerm(ts.Bin(OpAShr, a, cnt), signed)
	default:
		return e.fromTerm(ts.Bin(OpLShr, a, cnt), signed)
	}
}

func (e *Engine) binopIntConc(op token.Token, w uint8, signed bool, ty types.Type, x, y uint64) V {
	if w == 1 {
		switch op {
		case token.AND, token.LAND:
			return vBool(x != 0 && y != 0)
		case token.OR, token.LOR:
			return vBool(x != 0 || y != 0)
		}
		panic("binopIntConc on bool: " + op.String())
	}
	m := mask(w)
	ux, uy := x&m, y&m
	sx, sy := int64(x), int64(y)
	res := func(n uint64) V { return vUint(norm(n, w, signed)) }
	switch op {
	case token.ADD:
		return res(x + y)
	case token.SUB:
		return res(x - y)
	case token.MUL:
		return res(x * y)
	case token.QUO:
		if uy == 0 {
			e.targetPanicStr("integer divide by zero")
		}
		if signed {
			if sy == -1 {
				return res(uint64(-sx))
			}
			return res(uint64(sx / sy))
		}
		return res(ux / uy)
	case token.REM:
		if uy == 0 {
			e.targetPanicStr("integer divide by zero")
		}
		if signed {
			if sy == -1 {
				return res(0)
			}
			return res(uint64(sx % sy))
		}
		return res(ux % uy)
	case token.AND:
		return res(x & y)
	case token.OR:
		return res(x | y)
	case token.XOR:
		return res(x ^ y)
	case token.AND_NOT:
		return res(x &^ y)
	case token.SHL, token.SHR:
		_, ysigned, _ := basicInfo(ty)
		if ysigned && int64(y) < 0 {
			e.targetPanicStr("negative shift amount")
		}
		if op == token.SHL {
			if y >= uint64(w) {
				return res(0)
			}
			return res(x << y)
		}
		if signed {
			if y >= 64 {
				y = 63
			}
			return res(uint64(sx >> y))
		}
		if y >= uint64(w) {
			return res(0)
		}
		return res(ux >> y)
	case token.LSS:
		if signed {
			return vBool(sx < sy)
		}
		return vBool(ux < uy)
	case token.LEQ:
		if signed {
			return vBool(sx <= sy)
		}
		return vBool(ux <= uy)
	case token.GTR:
		if signed {
			return vBool(sx > sy)
		}
		return vBool(ux > uy)
	case token.GEQ:
		if signed {
			return vBool(sx >= sy)
		}
		return vBool(ux >= uy)
	}
	panic("binopIntConc: " + op.String())
}

// ---------------------------------------------------------------------------------------------
// equality

// equal returns a bool value (concrete or symbolic) for x == y.
func (e *Engine) equal(x, y V) V {
	if x.K == KOpq || y.K == KOpq {
		e.unsupported("a byte of an opaque (formatted from symbolic operands) string is compared")
	}
	switch {
	case x.K == KInt && y.K == KInt:
		return vBool(x.N == y.N)
	case (x.K == KInt || x.K == KSym) && (y.K == KInt || y.K == KSym):
		var tx, ty *Term
		if x.K == KSym {
			tx = x.term()
			ty = e.toTermW(y, widthOrBool(tx))
		} else {
			ty = y.term()
			tx = e.toTermW(x, widthOrBool(ty))
		}
		return e.fromTerm(e.ts.Cmp(OpEq, tx, ty), false)
	case (x.K == KStr || x.K == KSymStr) && (y.K == KStr || y.K == KSymStr):
		return e.strEq(x, y)
	case x.K == KFloat && y.K == KFloat:
		return vBool(x.float() == y.float())
	case (x.K == KFloat || x.K == KSymFloat) && (y.K == KFloat || y.K == KSymFloat):
		return e.fromTerm(e.ts.Cmp(OpFEq, e.floatTerm(x), e.floatTerm(y)), false)
	case x.K == KComplex && y.K == KComplex:
		return vBool(x.P.(complex128) == y.P.(complex128))
	case x.K == KPtr && y.K == KPtr:
		return vBool(x.ptr() == y.ptr())
	case x.K == KOpaque || y.K == KOpaque:
		if x.K == KOpaque && y.K == KOpaque {
			return vBool(x.P == y.P)
		}
		return vBool(false) // opaque object vs nil pointer
	case x.K == KIface && y.K == KIface:
		xi, yi := x.iface(), y.iface()
		if xi == nil || yi == nil {
			return vBool(xi == nil && yi == nil)
		}
		if !types.Identical(xi.T, yi.T) {
			return vBool(false)
		}
		if !types.Comparable(xi.T) {
			panic(targetPanic{e.runtimeError("runtime error: comparing uncomparable type " + xi.T.String())})
		}
		return e.equal(xi.V, yi.V)
	case (x.K == KStruct && y.K == KStruct) || (x.K == KArray && y.K == KArray):
		xs, ys := x.P.([]V), y.P.([]V)
		res := e.ts.True
		for i := range xs {
			c := e.equal(xs[i], ys[i])
			if c.K == KInt {
				if c.N == 0 {
					return vBool(false)
				}
				continue
			}
			res = e.ts.BAnd(res, c.term())
		}
		return e.fromTerm(res, false)
	case x.K == KSlice && y.K == KSlice:
		// only comparison with nil is legal
		return vBool(x.slice() == nil && y.slice() == nil)
	case x.K == KMap && y.K == KMap:
		return vBool(x.mapv() == y.mapv())
	case x.K == KFunc && y.K == KFunc:
		return vBool(x.P == nil && y.P == nil)
	case x.K == KChan && y.K == KChan:
		return vBool(x.P == y.P)
	}
	panic(fmt.Sprintf("equal: kinds %d and %d", x.K, y.K))
}

func widthOrBool(t *Term) uint8 {
	if t.W == 0 {
		return 1
	}
	return t.W
}

// ---------------------------------------------------------------------------------------------
// conversions

func (e *Engine) conv(tdst, tsrc types.Type, x V) V {
	ud, us := tdst.Underlying(), tsrc.Underlying()
	if types.Identical(ud, us) {
		return x
	}
	switch ud := ud.(type) {
	case *types.Pointer:
		// unsafe.Pointer -> *T
		return e.fromUnsafe(x)
	case *types.Slice:
		// string -> []byte / []rune
		bt, ok := ud.Elem().Underlying().(*types.Basic)
		if !ok || !isStringType(us) {
			break
		}
		if isOpaqueStr(x) {
			e.unsupported("conversion of an opaque formatted string to a slice")
		}
		switch bt.Kind() {
		case types.Uint8:
			b := strBytes(x)
			cp := make([]V, len(b))
			copy(cp, b)
			return V{K: KSlice, P: cp}
		case types.Int32:
			return V{K: KSlice, P: e.decodeRunes(x)}
		}
	case *types.Basic:
		if ud.Kind() == types.UnsafePointer {
			if usb, ok := us.(*types.Basic); ok && usb.Kind() == types.Uintptr {
				e.unsupported("conversion uintptr -> unsafe.Pointer")
			}
			return x // *T -> unsafe.Pointer keeps the cell pointer
		}
		if ud.Info()&types.IsString != 0 {
			switch us := us.(type) {
			case *types.Slice:
				bt := us.Elem().Underlying().(*types.Basic)
				switch bt.Kind() {
				case types.Uint8:
					return mkStr(x.slice())
				case types.Int32:
					return e.encodeRunes(x.slice())
				}
			case *types.Basic:
				if us.Info()&types.IsInteger != 0 {
					if x.K == KSym {
						w, _, _ := basicInfo(us)
						t := x.term()
						if w < 32 {
							t = e.ts.ZExt(t, 32)
						} else if w > 32 {
							// out of range values become U+FFFD; decide first
							if !e.branch(e.ts.Cmp(OpUlt, t, e.ts.Const(0x110000, w))) {
								return vStr("�")
							}
							t = e.ts.Extract(t, 31, 0)
						}
						return e.encodeRunes([]V{e.fromTerm(t, true)})
					}
					w, signed, _ := basicInfo(us)
					n := int64(norm(x.N, w, signed))
					if n < 0 || n > 0x10ffff {
						return vStr("�")
					}
					return vStr(string(rune(n)))
				}
			}
		}
		usb, ok := us.(*types.Basic)
		if !ok {
			break
		}
		if usb.Kind() == types.UnsafePointer && ud.Kind() == types.Uintptr {
			// only used for identity/alignment tricks; give a stable fake address
			return e.ptrToUintptr(x)
		}
		switch {
		case ud.Info()&types.IsInteger != 0 && usb.Info()&types.IsInteger != 0:
			sw, ssigned, _ := basicInfo(usb)
			dw, dsigned, _ := basicInfo(ud)
			if x.K == KInt {
				return vUint(norm(norm(x.N, sw, ssigned), dw, dsigned))
			}
			t := x.term()
			switch {
			case dw < sw:
				t = e.ts.Extract(t, dw-1, 0)
			case dw > sw && ssigned:
				t = e.ts.SExt(t, dw)
			case dw > sw:
				t = e.ts.ZExt(t, dw)
			}
			return e.fromTerm(t, dsigned)
		case ud.Info()&types.IsFloat != 0 && usb.Info()&types.IsInteger != 0:
			if x.K == KSym {
				e.unsupported("conversion of a symbolic integer to float")
			}
			_, ssigned, _ := basicInfo(usb)
			var f float64
			if ssigned {
				f = float64(int64(x.N))
			} else {
				f = float64(x.N)
			}
			if ud.Kind() == types.Float32 {
				f = float64(float32(f))
			}
			return vFloat(f)
		case ud.Info()&types.IsInteger != 0 && usb.Info()&types.IsFloat != 0:
			if x.K == KSymFloat {
				e.unsupported("conversion of a symbolic float to integer")
			}
			f := x.float()
			dw, dsigned, _ := basicInfo(ud)
			if dsigned {
				return vUint(norm(uint64(int64(f)), dw, true))
			}
			return vUint(norm(uint64(f), dw, false))
		case ud.Info()&types.IsFloat != 0 && usb.Info()&types.IsFloat != 0:
			if x.K == KSymFloat {
				if ud.Kind() == types.Float32 {
					e.unsupported("float64->float32 conversion of a symbolic float")
				}
				return x
			}
			f := x.float()
			if ud.Kind() == types.Float32 {
				f = float64(float32(f))
			}
			return vFloat(f)
		case ud.Info()&types.IsComplex != 0 && usb.Info()&types.IsComplex != 0:
			return x
		}
	}
	if _, ok := ud.(*types.TypeParam); ok {
		e.unsupported("conversion to type parameter")
	}
	panic(fmt.Sprintf("unsupported conversion: %s -> %s", tsrc, tdst))
}

// decodeRunes converts a string to runes, forking on symbolic lead bytes.
func (e *Engine) decodeRunes(x V) []V {
	if x.K == KStr {
		rs := []rune(x.P.(string))
		out := make([]V, len(rs))
		for i, r := range rs {
			out[i] = vInt(int64(r))
		}
		return out
	}
	b := x.P.(*SymStr).B
	var out []V
	for i := 0; i < len(b); {
		r, size := e.decodeRuneAt(b, i)
		out = append(out, r)
		i += size
	}
	if out == nil {
		out = []V{}
	}
	return out
}

// decodeRuneAt decodes one rune of b starting at i (symbolic aware).
func (e *Engine) decodeRuneAt(b []V, i int) (V, int) {
	c := b[i]
	if c.K == KInt {
		if c.N < utf8.RuneSelf {
			return vInt(int64(c.N)), 1
		}
	} else {
		t := c.term()
		if e.branch(e.ts.Cmp(OpUlt, t, e.ts.Const(utf8.RuneSelf, 8))) {
			return e.fromTerm(e.ts.ZExt(t, 32), true), 1
		}
	}
	// multi-byte or invalid: interpret the library decoder on the (symbolic) tail
	if fn := e.lookupFunc("unicode/utf8.DecodeRuneInString"); fn != nil {
		end := i + 4
		if end > len(b) {
			end = len(b)
		}
		r := e.call(e.top, 0, V{K: KFunc, P: fn}, []V{mkStr(b[i:end])})
		t := r.P.([]V)
		return t[0], int(e.concInt(t[1]))
	}
	e.unsupported("utf8 decoding of symbolic bytes: unicode/utf8 not loaded")
	return V{}, 0
}

// encodeRunes converts runes to a string.
func (e *Engine) encodeRunes(rs []V) V {
	var out []V
	for _, r := range rs {
		if r.K == KInt {
			var buf [4]byte
			n := utf8.EncodeRune(buf[:], rune(int32(r.N)))
			for _, c := range buf[:n] {
				out = append(out, vUint(uint64(c)))
			}
			continue
		}
		t := r.term()
		if t.W != 32 {
			panic("encodeRunes: rune term of width != 32")
		}
		if e.branch(e.ts.Cmp(OpUlt, t, e.ts.Const(utf8.RuneSelf, 32))) {
			out = append(out, e.fromTerm(e.ts.Extract(t, 7, 0), false))
			continue
		}
		fn := e.lookupFunc("unicode/utf8.AppendRune")
		if fn == nil {
			e.unsupported("utf8 encoding of a symbolic rune: unicode/utf8 not loaded")
		}
		enc := e.call(e.top, 0, V{K: KFunc, P: fn}, []V{{K: KSlice, P: []V(nil)}, r})
		out = append(out, enc.slice()...)
	}
	return mkStr(out)
}

func (e *Engine) fromUnsafe(x V) V {
	if x.K == KPtr || x.K == KOpaque {
		return x
	}
	e.unsupported("unsafe.Pointer conversion of kind %d", x.K)
	return V{}
}

func (e *Engine) ptrToUintptr(x V) V {
	p := x.ptr()
	if p == nil {
		return vUint(0)
	}
	id, ok := e.ptrIDs[p]
	if !ok {
		id = uint64(len(e.ptrIDs)+1) * 4096
		e.ptrIDs[p] = id
	}
	return vUint(id)
}

// ---------------------------------------------------------------------------------------------
// slicing, lookup, type assertion, iteration

func (e *Engine) sliceOp(instr *ssa.Slice, x, lo, hi, max V) V {
	var ln, cp int
	var s []V
	isStr := false
	switch x.K {
	case KStr, KSymStr:
		ln = strLen(x)
		cp = ln
		isStr = true
	case KSlice:
		s = x.slice()
		ln, cp = len(s), cap(s)
	case KPtr:
		p := x.ptr()
		if p == nil {
			e.targetPanicStr("invalid memory address or nil pointer dereference")
		}
		s = p.P.([]V)
		ln, cp = len(s), cap(s)
	default:
		panic(fmt.Sprintf("slice of kind %d", x.K))
	}
	l, h, m := 0, ln, cp
	bound := func(v V, t types.Type, limit int, what string) int {
		if v.K == KInt {
			n := int64(v.N)
			if n < 0 || n > int64(limit) {
				e.targetPanicStr(fmt.Sprintf("slice bounds out of range [%s %d] with capacity %d", what, n, limit))
			}
			return int(n)
		}
		tm := v.term()
		if !e.branch(e.ts.Cmp(OpUle, tm, e.ts.Const(uint64(limit), tm.W))) {
			e.targetPanicStr(fmt.Sprintf("slice bounds out of range [%s symbolic] with capacity %d", what, limit))
		}
		return int(e.concretize(tm))
	}
	if instr.Max != nil {
		m = bound(max, instr.Max.Type(), cp, "::max")
	}
	if instr.High != nil {
		lim := cp
		if isStr {
			lim = ln
		}
		if instr.Max != nil {
			lim = m
		}
		h = bound(hi, instr.High.Type(), lim, ":high")
	}
	if instr.Low != nil {
		l = bound(lo, instr.Low.Type(), h, "low:")
	}
	if l > h {
		e.targetPanicStr(fmt.Sprintf("slice bounds out of range [%d:%d]", l, h))
	}
	if isStr {
		return substr(x, l, h)
	}
	if x.K == KSlice && s == nil {
		return V{K: KSlice, P: []V(nil)}
	}
	return V{K: KSlice, P: s[l:h:m]}
}

func (e *Engine) lookup(instr *ssa.Lookup, x, idx V) V {
	switch x.K {
	case KMap:
		m := x.mapv()
		v, ok := e.mapLookup(m, idx)
		if !ok {
			v = zero(instr.X.Type().Underlying().(*types.Map).Elem())
		} else {
			v = copyVal(v)
		}
		if instr.CommaOk {
			return vTuple(v, vBool(ok))
		}
		return v
	case KStr, KSymStr:
		return e.strIndex(x, idx, instr.Index.Type())
	}
	panic(fmt.Sprintf("lookup on kind %d", x.K))
}

func (e *Engine) implements(t types.Type, it *types.Interface) bool {
	m, _ := types.MissingMethod(t, it, true)
	return m == nil
}

func (e *Engine) typeAssert(instr *ssa.TypeAssert, x V) V {
	itf := x.iface()
	var ok bool
	var v V
	if it, isIface := instr.AssertedType.Underlying().(*types.Interface); isIface {
		if itf != nil {
			if st, isStub := itf.V.P.(*EnvStub); isStub && itf.V.K == KOpaque {
				ok = st.implements(it)
			} else {
				ok = e.implements(itf.T, it)
			}
		}
		if ok {
			v = x
		}
	} else if itf != nil && types.Identical(itf.T, instr.AssertedType) {
		ok = true
		v = copyVal(itf.V)
	}
	if instr.CommaOk {
		if !ok {
			v = zero(instr.AssertedType)
		}
		return vTuple(v, vBool(ok))
	}
	if !ok {
		var msg string
		if itf == nil {
			msg = fmt.Sprintf("interface conversion: %s is nil, not %s", ifaceWord(instr.X.Type()), instr.AssertedType)
		} else {
			msg = fmt.Sprintf("interface conversion: %s is %s, not %s", ifaceWord(instr.X.Type()), itf.T, instr.AssertedType)
		}
		panic(targetPanic{e.runtimeError(msg)})
	}
	return v
}

type strIter struct {
	s V
	b []V
	i int
}

type intIter struct {
	i, n int64
}

func (e *Engine) rangeIter(x V, t types.Type) V {
	switch x.K {
	case KMap:
		return V{K: KIter, P: e.newMapIter(x.mapv())}
	case KStr, KSymStr:
		if x.K == KSymStr {
			e.inspect(x.P.(*SymStr))
		}
		return V{K: KIter, P: &strIter{s: x, b: strBytes(x)}}
	}
	panic(fmt.Sprintf("range over kind %d (%s)", x.K, t))
}

func (e *Engine) iterNext(fr *frame, it V) V {
	switch it := it.P.(type) {
	case *mapIter:
		k, v, ok := it.next()
		if !ok {
			return vTuple(vBool(false), V{}, V{})
		}
		return vTuple(vBool(true), copyVal(k), copyVal(v))
	case *strIter:
		if it.i >= len(it.b) {
			return vTuple(vBool(false), vInt(0), vInt(0))
		}
		pos := it.i
		r, size := e.decodeRuneAt(it.b, it.i)
		it.i += size
		return vTuple(vBool(true), vInt(int64(pos)), r)
	}
	panic(fmt.Sprintf("next on %T", it.P))
}

// float helpers
func f64(v V) float64 { return math.Float64frombits(v.N) }

func ifaceWord(t types.Type) string {
	if it, ok := t.(*types.Interface); ok && it.Empty() {
		return "interface {}"
	}
	if it, ok := types.Unalias(t).(*types.Interface); ok && it.Empty() {
		return "interface {}"
	}
	return types.TypeString(t, nil)
}

// strIndex implements s[i] for strings (symbolic index: ite chain over the bytes).
func (e *Engine) strIndex(x, idx V, it types.Type) V {
	if x.K == KSymStr {
		e.inspect(x.P.(*SymStr))
	}
	n := strLen(x)
	if idx.K == KSym && n > 1 && n <= 4096 {
		e.boundsCheck(idx.term(), n)
		return e.selectElem(strBytes(x), idx.term(), types.Typ[types.Uint8])
	}
	i := e.index(idx, it, n)
	if x.K == KStr {
		return vUint(uint64(x.P.(string)[i]))
	}
	return x.P.(*SymStr).B[i]
}

// opaqueDiffer decides x == y for strings with opaque segments (unknown content and length)
// when the concrete parts already settle it: a concrete mismatch in the common concrete
// prefix or suffix, or one side fully concrete and shorter than the other's concrete bytes.
// ok=false means undecidable.
func opaqueDiffer(x, y []V) (equal bool, ok bool) {
	conc := func(b []V) (n int, all bool) {
		all = true
		for _, c := range b {
			if c.K == KInt {
				n++
			} else if c.K == KOpq {
				all = false
			} else {
				return n, false
			}
		}
		return
	}
	nx, ax := conc(x)
	ny, ay := conc(y)
	// one side fully concrete and too short to contain the other's concrete bytes
	if ay && ny < nx {
		return false, true
	}
	if ax && nx < ny {
		return false, true
	}
	// common concrete prefix
	for i := 0; i < len(x) && i < len(y); i++ {
		if x[i].K != KInt || y[i].K != KInt {
			break
		}
		if x[i].N != y[i].N {
			return false, true
		}
	}
	for i := 1; i <= len(x) && i <= len(y); i++ {
		a, b := x[len(x)-i], y[len(y)-i]
		if a.K != KInt || b.K != KInt {
			break
		}
		if a.N != b.N {
			return false, true
		}
	}
	return false, false
}
