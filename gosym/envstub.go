package gosym

import (
	"go/types"
)

// EnvStub is an environment object that implements any interface; a call on it is
// answered by Handler (typically with fresh symbolic results).
type EnvStub struct {
	Name    string
	Handler func(e *Engine, fr *frame, method string, args []V) V
}

func (s *EnvStub) implements(it *types.Interface) bool { return true }

func (s *EnvStub) method(m *types.Func) *HostFunc {
	name := m.Name()
	return &HostFunc{Name: s.Name + "." + name, Fn: func(e *Engine, fr *frame, args []V) V {
		if s.Handler == nil {
			e.unsupported("call of %s.%s on an environment stub without handler", s.Name, name)
		}
		return s.Handler(e, fr, name, args[1:])
	}}
}
