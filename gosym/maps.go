package gosym

import (
	"fmt"
	"go/types"
	"strings"
)

type mapEntry struct {
	k, v    V
	deleted bool
	hk      any // host key when concrete, nil otherwise
}

// Map is the engine's map: insertion ordered, concrete keys are indexed.
type Map struct {
	kt      types.Type
	vt      types.Type
	entries []*mapEntry
	idx     map[any]*mapEntry
	n       int
	nsym    int // live entries with symbolic keys
}

func newMap(kt, vt types.Type) *Map {
	return &Map{kt: kt, vt: vt, idx: map[any]*mapEntry{}}
}

func (m *Map) Len() int {
	if m == nil {
		return 0
	}
	return m.n
}

type ifaceKey struct {
	t string
	v any
}

// hostKey returns a comparable host value identifying v among values of one type, or
// ok=false when v contains symbolic parts.
func hostKey(v V) (any, bool) {
	switch v.K {
	case KInt:
		return v.N, true
	case KFloat:
		f := v.float()
		if f != f {
			return nil, false // NaN never equals anything; treat as not indexable
		}
		if f == 0 {
			return float64(0), true
		}
		return f, true
	case KStr:
		return v.P.(string), true
	case KSymStr:
		ss := v.P.(*SymStr)
		if ss.Opaque {
			return nil, false
		}
		bs := make([]byte, len(ss.B))
		for i, b := range ss.B {
			if b.K != KInt {
				return nil, false
			}
			bs[i] = byte(b.N)
		}
		return string(bs), true
	case KPtr:
		return v.ptr(), true
	case KChan:
		return v.P, true
	case KIface:
		i := v.iface()
		if i == nil {
			return ifaceKey{}, true
		}
		k, ok := hostKey(i.V)
		if !ok {
			return nil, false
		}
		return ifaceKey{typeKey(i.T), k}, true
	case KStruct, KArray:
		var sb strings.Builder
		for _, f := range v.fields() {
			k, ok := hostKey(f)
			if !ok {
				return nil, false
			}
			fmt.Fprintf(&sb, "%T:%v|", k, k)
		}
		return sb.String(), true
	case KOpaque:
		return v.P, true
	}
	return nil, false
}

func typeKey(t types.Type) string {
	return types.TypeString(t, nil)
}

func (e *Engine) mapFind(m *Map, k V) *mapEntry {
	if m == nil {
		return nil
	}
	hk, conc := hostKey(k)
	if conc {
		if en := m.idx[hk]; en != nil {
			return en
		}
		if m.nsym == 0 {
			return nil
		}
		for _, en := range m.entries {
			if en.deleted || en.hk != nil {
				continue
			}
			if e.truth(e.equal(en.k, k)) {
				return en
			}
		}
		return nil
	}
	for _, en := range m.entries {
		if en.deleted {
			continue
		}
		if e.truth(e.equal(en.k, k)) {
			return en
		}
	}
	return nil
}

func (e *Engine) mapLookup(m *Map, k V) (V, bool) {
	en := e.mapFind(m, k)
	if en == nil {
		return V{}, false
	}
	return en.v, true
}

func (e *Engine) mapInsert(m *Map, k, v V) {
	if m == nil {
		e.targetPanicStr("assignment to entry in nil map")
	}
	if en := e.mapFind(m, k); en != nil {
		old := en.v
		e.logUndo(func() { en.v = old })
		en.v = copyVal(v)
		return
	}
	en := &mapEntry{k: copyVal(k), v: copyVal(v)}
	if hk, ok := hostKey(k); ok {
		en.hk = hk
		m.idx[hk] = en
	} else {
		m.nsym++
	}
	m.entries = append(m.entries, en)
	m.n++
	e.logUndo(func() {
		m.entries = m.entries[:len(m.entries)-1]
		m.n--
		if en.hk != nil {
			delete(m.idx, en.hk)
		} else {
			m.nsym--
		}
	})
}

func (e *Engine) mapDelete(m *Map, k V) {
	en := e.mapFind(m, k)
	if en == nil {
		return
	}
	en.deleted = true
	m.n--
	if en.hk != nil {
		delete(m.idx, en.hk)
	} else {
		m.nsym--
	}
	e.logUndo(func() {
		en.deleted = false
		m.n++
		if en.hk != nil {
			m.idx[en.hk] = en
		} else {
			m.nsym++
		}
	})
}

func (e *Engine) mapClear(m *Map) {
	if m == nil {
		return
	}
	for _, en := range m.entries {
		if !en.deleted {
			e.mapDelete(m, en.k)
		}
	}
}

// mapIter iterates over a snapshot of the live entries. Entries deleted during iteration
// are skipped; entries added during iteration are not visited (allowed by the spec).
type mapIter struct {
	m     *Map
	order []*mapEntry
	i     int
}

func (e *Engine) newMapIter(m *Map) *mapIter {
	it := &mapIter{m: m}
	if m == nil {
		return it
	}
	for _, en := range m.entries {
		if !en.deleted {
			it.order = append(it.order, en)
		}
	}
	if e.nondetMapOrder && len(it.order) > 1 && e.mapOrderBudget != 0 {
		it.order = e.perturbOrder(it.order)
	}
	return it
}

func (it *mapIter) next() (k, v V, ok bool) {
	for it.i < len(it.order) {
		en := it.order[it.i]
		it.i++
		if en.deleted {
			continue
		}
		return en.k, en.v, true
	}
	return V{}, V{}, false
}

// perturbOrder picks an iteration order for a map range through decision variables.
//
// Unlimited budget (mapOrderBudget < 0): every permutation (Lehmer code), n! paths per range.
// Budget k > 0: at most k ranges per path iterate in a perturbed order, all others in insertion
// order. A perturbed range of n <= 3 entries takes any of its n!-1 other permutations; a larger
// one takes an adjacent transposition (n-1 choices), the reversal or a rotation by one. Adjacent
// transpositions generate every permutation, so an output that depends on the order of ONE
// range is caught; dependence that needs several ranges perturbed at once needs a larger budget.
func (e *Engine) perturbOrder(order []*mapEntry) []*mapEntry {
	n := len(order)
	if e.mapOrderBudget < 0 || n <= 3 {
		rest := append([]*mapEntry(nil), order...)
		perm := make([]*mapEntry, 0, n)
		changed := false
		for len(rest) > 1 {
			c := e.choose(len(rest), "maporder")
			if c != 0 {
				changed = true
			}
			perm = append(perm, rest[c])
			rest = append(rest[:c], rest[c+1:]...)
		}
		perm = append(perm, rest[0])
		if changed && e.mapOrderBudget > 0 {
			e.mapOrderBudget--
		}
		return perm
	}
	c := e.choose(n+2, "maporder")
	if c == 0 {
		return order
	}
	e.mapOrderBudget--
	out := append([]*mapEntry(nil), order...)
	switch {
	case c <= n-1: // swap c-1, c
		out[c-1], out[c] = out[c], out[c-1]
	case c == n: // reverse
		for i, j := 0, n-1; i < j; i, j = i+1, j-1 {
			out[i], out[j] = out[j], out[i]
		}
	default: // rotate by one
		out = append(out[1:], out[0])
	}
	return out
}
