package gosym

import (
	"os"
	"testing"

	"verif/harness/selftest"
	zzrt "verif/harness/zzrt"
)

func loadSelftest(t *testing.T) (*Program, *Engine) {
	prog, err := Load("/verif", nil, []string{"verif/harness/selftest"}, []string{"GOFLAGS=-mod=mod", "GOPROXY=off", "GOSUMDB=off"})
	if err != nil {
		t.Fatal(err)
	}
	cfg := &Config{MaxSteps: 50000000, MaxDepth: 5000, MaxFork: 64, SolverKind: "z3", TimeoutMs: 30000, InitAllow: DefaultInitAllow}
	e, err := NewEngine(prog.Prog, cfg, prog.Pkgs)
	if err != nil {
		t.Fatal(err)
	}
	return prog, e
}

func TestSelfConcrete(t *testing.T) {
	prog, e := loadSelftest(t)
	defer e.Close()
	for name, f := range selftest.All() {
		want := f()
		fn := FindFunc(prog.Prog, "verif/harness/selftest", name)
		if fn == nil {
			t.Fatalf("no function %s", name)
		}
		var got V
		out := e.runConcrete(fn, &got)
		if out.Kind != "ok" {
			t.Errorf("%s: outcome %s %s", name, out.Kind, out.Msg)
			continue
		}
		gs, ok := concStr(got)
		if !ok {
			t.Errorf("%s: result not a concrete string: %v", name, got)
			continue
		}
		if gs != want {
			t.Errorf("%s:\n native: %s\n engine: %s", name, want, gs)
		}
	}
}

func TestSelfSymbolic(t *testing.T) {
	prog, err := Load("/verif", nil, []string{"verif/harness/selftest"}, []string{"GOFLAGS=-mod=mod", "GOPROXY=off", "GOSUMDB=off"})
	if err != nil {
		t.Fatal(err)
	}
	for _, solver := range []string{"z3", "z3-new", "cvc5"} {
		cfg := &Config{MaxSteps: 50000000, MaxDepth: 5000, MaxFork: 64, SolverKind: solver, TimeoutMs: 5000, InitAllow: DefaultInitAllow}
		pool, err := NewPool(prog.Prog, cfg, prog.Pkgs, 4)
		if err != nil {
			t.Fatal(err)
		}
		for name, native := range selftest.Sym() {
			if only := os.Getenv("SELF"); only != "" && only != name {
				continue
			}
			fn := FindFunc(prog.Prog, "verif/harness/selftest", name)
			res := pool.Explore(fn, nil, ExploreOpts{Workers: 4, MaxViolations: 3})
			bad := res.Outcomes["violation"] + res.Outcomes["panic"] + res.Outcomes["fatal"]
			t.Logf("%s %s: paths=%d queries=%d outcomes=%v covers=%v", solver, name, res.Paths, res.Queries, res.Outcomes, res.Covers)
			if len(res.Inconclusive) > 0 || len(res.SolverErrors) > 0 {
				t.Errorf("%s %s: inconclusive: %v %v", solver, name, res.Inconclusive, res.SolverErrors)
			}
			if name[0] == 'S' {
				if bad != 0 {
					t.Errorf("%s %s: unexpected violation: %+v", solver, name, res.Violations[0])
				}
				continue
			}
			if bad == 0 {
				t.Errorf("%s %s: expected a violation, found none", solver, name)
				continue
			}
			// replay natively
			v := res.Violations[0]
			zzrt.SetModel(map[string]uint64(v.Model))
			out := zzrt.Run(name, native)
			if out == "ok" || len(out) > 12 && out[:13] == "ASSUME-FAILED" {
				t.Errorf("%s %s: model %v does not reproduce natively: %s (engine: %s)", solver, name, v.Model, out, v.Msg)
			} else {
				t.Logf("   replayed: %s with %v", out, v.Model)
			}
		}
		pool.Close()
	}
}
