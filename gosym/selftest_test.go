package gosym

import (
	"testing"

	"verif/harness/selftest"
)

func loadSelftest(t *testing.T) (*Program, *Engine) {
	prog, err := Load("/verif", nil, []string{"verif/harness/selftest"}, []string{"GOFLAGS=-mod=mod", "GOPROXY=off", "GOSUMDB=off"})
	if err != nil {
		t.Fatal(err)
	}
	cfg := &Config{MaxSteps: 50000000, MaxDepth: 5000, MaxFork: 64, SolverKind: "z3", TimeoutMs: 30000, InitAllow: DefaultInitAllow}
	e, err := NewEngine(prog.Prog, cfg, prog.Pkgs)
	if err != nil {
		t.Fatal(err)
	}
	return prog, e
}

func TestSelfConcrete(t *testing.T) {
	prog, e := loadSelftest(t)
	defer e.Close()
	for name, f := range selftest.All() {
		want := f()
		fn := FindFunc(prog.Prog, "verif/harness/selftest", name)
		if fn == nil {
			t.Fatalf("no function %s", name)
		}
		var got V
		out := e.runConcrete(fn, &got)
		if out.Kind != "ok" {
			t.Errorf("%s: outcome %s %s", name, out.Kind, out.Msg)
			continue
		}
		gs, ok := concStr(got)
		if !ok {
			t.Errorf("%s: result not a concrete string: %v", name, got)
			continue
		}
		if gs != want {
			t.Errorf("%s:\n native: %s\n engine: %s", name, want, gs)
		}
	}
}
