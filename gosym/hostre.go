package gosym

import (
	"go/types"
	"regexp"
)

func regexpCompile(p string) (*regexp.Regexp, error) { return regexp.Compile(p) }

func hostRegexp(e *Engine, v V) *regexp.Regexp {
	re, ok := v.P.(*regexp.Regexp)
	if !ok || v.K != KOpaque {
		e.unsupported("regexp method on a value that was not produced by regexp.MustCompile")
	}
	return re
}

func typesString() types.Type { return types.Typ[types.String] }

type re2 struct {
	re  *regexp.Regexp
	src string
}
