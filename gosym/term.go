package gosym

import (
	"fmt"
	"math"
	"strings"
)

// Op is a term operator.
type Op uint8

const (
	OpConst Op = iota // bit-vector constant (K)
	OpVar             // bit-vector variable (Name)
	OpAdd
	OpSub
	OpMul
	OpUDiv
	OpSDiv
	OpURem
	OpSRem
	OpAnd
	OpOr
	OpXor
	OpNot // bvnot
	OpNeg // bvneg
	OpShl
	OpLShr
	OpAShr
	OpExtract // K = hi<<8|lo
	OpConcat
	OpZExt
	OpSExt
	OpIte // A Bool cond, B, C
	// Boolean-sorted (W == 0)
	OpTrue
	OpFalse
	OpBVar
	OpEq
	OpUlt
	OpUle
	OpSlt
	OpSle
	OpBAnd
	OpBOr
	OpBNot
	OpFEq // float64 comparisons over BV64 operands
	OpFLt
	OpFLe
	OpFIsNaN
)

var opNames = [...]string{
	OpAdd: "bvadd", OpSub: "bvsub", OpMul: "bvmul", OpUDiv: "bvudiv", OpSDiv: "bvsdiv",
	OpURem: "bvurem", OpSRem: "bvsrem", OpAnd: "bvand", OpOr: "bvor", OpXor: "bvxor",
	OpNot: "bvnot", OpNeg: "bvneg", OpShl: "bvshl", OpLShr: "bvlshr", OpAShr: "bvashr",
	OpConcat: "concat", OpIte: "ite", OpEq: "=", OpUlt: "bvult", OpUle: "bvule",
	OpSlt: "bvslt", OpSle: "bvsle", OpBAnd: "and", OpBOr: "or", OpBNot: "not",
	OpFEq: "fp.eq", OpFLt: "fp.lt", OpFLe: "fp.leq", OpFIsNaN: "fp.isNaN",
}

// Term is a hash-consed node. W is the bit width (0 for Bool).
type Term struct {
	Op      Op
	W       uint8
	A, B, C *Term
	K       uint64
	Name    string
	ID      int32

	evalEpoch uint32
	evalVal   uint64
	defEpoch  uint32 // path epoch in which a define-fun for this node was sent
}

func (t *Term) IsBool() bool  { return t.W == 0 }
func (t *Term) IsConst() bool { return t.Op == OpConst || t.Op == OpTrue || t.Op == OpFalse }

type termKey struct {
	op      Op
	w       uint8
	a, b, c int32
	k       uint64
	name    string
}

// Terms is a per-engine term factory.
type Terms struct {
	tab    map[termKey]*Term
	nextID int32
	True   *Term
	False  *Term
	epoch  uint32 // eval epoch
	vars   []*Term
}

func NewTerms() *Terms {
	ts := &Terms{tab: make(map[termKey]*Term)}
	ts.True = ts.mk(OpTrue, 0, nil, nil, nil, 0, "")
	ts.False = ts.mk(OpFalse, 0, nil, nil, nil, 0, "")
	return ts
}

func tid(t *Term) int32 {
	if t == nil {
		return -1
	}
	return t.ID
}

func (ts *Terms) mk(op Op, w uint8, a, b, c *Term, k uint64, name string) *Term {
	key := termKey{op, w, tid(a), tid(b), tid(c), k, name}
	if t, ok := ts.tab[key]; ok {
		return t
	}
	t := &Term{Op: op, W: w, A: a, B: b, C: c, K: k, Name: name, ID: ts.nextID}
	ts.nextID++
	ts.tab[key] = t
	if op == OpVar || op == OpBVar {
		ts.vars = append(ts.vars, t)
	}
	return t
}

func mask(w uint8) uint64 {
	if w >= 64 {
		return ^uint64(0)
	}
	return (uint64(1) << w) - 1
}

func sext(v uint64, w uint8) int64 {
	if w >= 64 {
		return int64(v)
	}
	sh := 64 - uint(w)
	return int64(v<<sh) >> sh
}

func (ts *Terms) Const(v uint64, w uint8) *Term {
	if w == 0 {
		panic("Const: width 0")
	}
	return ts.mk(OpConst, w, nil, nil, nil, v&mask(w), "")
}

func (ts *Terms) Bool(b bool) *Term {
	if b {
		return ts.True
	}
	return ts.False
}

func (ts *Terms) Var(name string, w uint8) *Term {
	if w == 0 {
		return ts.mk(OpBVar, 0, nil, nil, nil, 0, name)
	}
	return ts.mk(OpVar, w, nil, nil, nil, 0, name)
}

// maxU returns an upper bound (inclusive) on the unsigned value of t.
func maxU(t *Term) uint64 {
	switch t.Op {
	case OpConst:
		return t.K
	case OpZExt:
		return maxU(t.A)
	case OpIte:
		a, b := maxU(t.B), maxU(t.C)
		if a > b {
			return a
		}
		return b
	case OpAnd:
		a, b := maxU(t.A), maxU(t.B)
		if a < b {
			return a
		}
		return b
	case OpLShr:
		if t.B.Op == OpConst && t.B.K < 64 {
			return maxU(t.A) >> t.B.K
		}
	case OpURem:
		if t.B.Op == OpConst && t.B.K > 0 {
			return t.B.K - 1
		}
	case OpConcat:
		// high part bound
		return (maxU(t.A) << t.B.W) | mask(t.B.W)
	}
	return mask(t.W)
}

func evalBin(op Op, w uint8, x, y uint64) uint64 {
	m := mask(w)
	switch op {
	case OpAdd:
		return (x + y) & m
	case OpSub:
		return (x - y) & m
	case OpMul:
		return (x * y) & m
	case OpUDiv:
		if y == 0 {
			return m
		}
		return (x / y) & m
	case OpURem:
		if y == 0 {
			return x
		}
		return (x % y) & m
	case OpSDiv:
		sx, sy := sext(x, w), sext(y, w)
		if sy == 0 {
			if sx < 0 {
				return 1
			}
			return m
		}
		if sy == -1 {
			return uint64(-sx) & m
		}
		return uint64(sx/sy) & m
	case OpSRem:
		sx, sy := sext(x, w), sext(y, w)
		if sy == 0 {
			return x
		}
		if sy == -1 {
			return 0
		}
		return uint64(sx%sy) & m
	case OpAnd:
		return x & y
	case OpOr:
		return x | y
	case OpXor:
		return x ^ y
	case OpShl:
		if y >= uint64(w) {
			return 0
		}
		return (x << y) & m
	case OpLShr:
		if y >= uint64(w) {
			return 0
		}
		return x >> y
	case OpAShr:
		sx := sext(x, w)
		if y >= uint64(w) {
			y = uint64(w) - 1
		}
		return uint64(sx>>y) & m
	}
	panic("evalBin: bad op")
}

func evalCmp(op Op, w uint8, x, y uint64) bool {
	switch op {
	case OpEq:
		return x == y
	case OpUlt:
		return x < y
	case OpUle:
		return x <= y
	case OpSlt:
		return sext(x, w) < sext(y, w)
	case OpSle:
		return sext(x, w) <= sext(y, w)
	case OpFEq:
		return math.Float64frombits(x) == math.Float64frombits(y)
	case OpFLt:
		return math.Float64frombits(x) < math.Float64frombits(y)
	case OpFLe:
		return math.Float64frombits(x) <= math.Float64frombits(y)
	}
	panic("evalCmp: bad op")
}

// Bin builds a binary bit-vector operation with simplification.
func (ts *Terms) Bin(op Op, a, b *Term) *Term {
	w := a.W
	if a.W != b.W {
		panic(fmt.Sprintf("Bin %v: width mismatch %d vs %d", opNames[op], a.W, b.W))
	}
	if a.Op == OpConst && b.Op == OpConst {
		return ts.Const(evalBin(op, w, a.K, b.K), w)
	}
	// commutative: constant to the right
	switch op {
	case OpAdd, OpMul, OpAnd, OpOr, OpXor:
		if a.Op == OpConst {
			a, b = b, a
		}
	}
	if b.Op == OpConst {
		k := b.K
		switch op {
		case OpAdd, OpSub, OpOr, OpXor, OpShl, OpLShr, OpAShr:
			if k == 0 {
				return a
			}
			if op == OpOr && k == mask(w) {
				return b
			}
			if (op == OpShl || op == OpLShr) && k >= uint64(w) {
				return ts.Const(0, w)
			}
			if op == OpAdd && a.Op == OpAdd && a.B.Op == OpConst {
				return ts.Bin(OpAdd, a.A, ts.Const(a.B.K+k, w))
			}
			if op == OpSub {
				return ts.Bin(OpAdd, a, ts.Const(-k, w))
			}
			if op == OpLShr && a.Op == OpConcat && k == uint64(a.B.W) {
				return ts.ZExt(a.A, w)
			}
			if op == OpLShr && maxU(a)>>k == 0 {
				return ts.Const(0, w)
			}
		case OpMul:
			if k == 0 {
				return b
			}
			if k == 1 {
				return a
			}
		case OpAnd:
			if k == 0 {
				return b
			}
			if k == mask(w) {
				return a
			}
			if maxU(a)&^k == 0 && k&(k+1) == 0 {
				return a
			}
			// (zext x) & 0xff.. where k covers x completely
			if a.Op == OpZExt && k&mask(a.A.W) == mask(a.A.W) {
				return a
			}
		case OpUDiv:
			if k == 1 {
				return a
			}
		case OpURem:
			if k != 0 && maxU(a) < k {
				return a
			}
		}
	}
	if a == b {
		switch op {
		case OpSub, OpXor:
			return ts.Const(0, w)
		case OpAnd, OpOr:
			return a
		}
	}
	// (zext hi << 8) | zext lo  patterns are common in BigEndian decoding: build concat
	if op == OpOr || op == OpAdd {
		if c := ts.tryConcat(a, b); c != nil {
			return c
		}
		if c := ts.tryConcat(b, a); c != nil {
			return c
		}
	}
	// shl of zext by constant: keep as is but normalise to concat when exact
	return ts.mk(op, w, a, b, nil, 0, "")
}

// lowZeros returns the number of low bits known to be zero.
func lowZeros(t *Term) uint8 {
	switch t.Op {
	case OpConst:
		if t.K == 0 {
			return t.W
		}
		n := uint8(0)
		for k := t.K; k&1 == 0; k >>= 1 {
			n++
		}
		return n
	case OpShl:
		if t.B.Op == OpConst {
			if t.B.K >= uint64(t.W) {
				return t.W
			}
			z := uint64(lowZeros(t.A)) + t.B.K
			if z > uint64(t.W) {
				z = uint64(t.W)
			}
			return uint8(z)
		}
	case OpConcat:
		lz := lowZeros(t.B)
		if lz == t.B.W {
			return t.B.W + lowZeros(t.A)
		}
		return lz
	case OpZExt:
		z := lowZeros(t.A)
		if z == t.A.W {
			return t.W
		}
		return z
	case OpOr, OpAdd:
		a, b := lowZeros(t.A), lowZeros(t.B)
		if a < b {
			return a
		}
		return b
	}
	return 0
}

// bitLen is the number of low bits that may be non-zero.
func bitLen(t *Term) uint8 {
	m := maxU(t)
	n := uint8(0)
	for m != 0 {
		n++
		m >>= 1
	}
	return n
}

// tryConcat recognises hi|lo where hi has at least bitLen(lo) low zero bits and
// rewrites to a concat form: this keeps BigEndian.UintNN of symbolic bytes in a
// shape from which Extract recovers the bytes.
func (ts *Terms) tryConcat(hi, lo *Term) *Term {
	if hi.Op != OpShl || hi.B.Op != OpConst {
		return nil
	}
	sh := uint8(hi.B.K)
	if sh == 0 || sh >= hi.W {
		return nil
	}
	if bitLen(lo) > sh {
		return nil
	}
	// result = concat(extract(hi.A, W-sh-1, 0), extract(lo, sh-1, 0))
	hpart := ts.Extract(hi.A, hi.W-sh-1, 0)
	lpart := ts.Extract(lo, sh-1, 0)
	return ts.Concat(hpart, lpart)
}

func (ts *Terms) Not(a *Term) *Term {
	if a.Op == OpConst {
		return ts.Const(^a.K, a.W)
	}
	if a.Op == OpNot {
		return a.A
	}
	return ts.mk(OpNot, a.W, a, nil, nil, 0, "")
}

func (ts *Terms) Neg(a *Term) *Term {
	if a.Op == OpConst {
		return ts.Const(-a.K, a.W)
	}
	if a.Op == OpNeg {
		return a.A
	}
	return ts.mk(OpNeg, a.W, a, nil, nil, 0, "")
}

func (ts *Terms) Extract(a *Term, hi, lo uint8) *Term {
	if hi < lo || hi >= a.W {
		panic(fmt.Sprintf("Extract: bad range [%d:%d] of width %d", hi, lo, a.W))
	}
	w := hi - lo + 1
	if w == a.W {
		return a
	}
	switch a.Op {
	case OpConst:
		return ts.Const(a.K>>lo, w)
	case OpConcat:
		bw := a.B.W
		if hi < bw {
			return ts.Extract(a.B, hi, lo)
		}
		if lo >= bw {
			return ts.Extract(a.A, hi-bw, lo-bw)
		}
		return ts.Concat(ts.Extract(a.A, hi-bw, 0), ts.Extract(a.B, bw-1, lo))
	case OpZExt:
		iw := a.A.W
		if hi < iw {
			return ts.Extract(a.A, hi, lo)
		}
		if lo >= iw {
			return ts.Const(0, w)
		}
		return ts.ZExt(ts.Extract(a.A, iw-1, lo), w)
	case OpSExt:
		iw := a.A.W
		if hi < iw {
			return ts.Extract(a.A, hi, lo)
		}
	case OpExtract:
		l0 := uint8(a.K & 0xff)
		return ts.Extract(a.A, hi+l0, lo+l0)
	case OpIte:
		if a.B.IsConst() || a.C.IsConst() {
			return ts.Ite(a.A, ts.Extract(a.B, hi, lo), ts.Extract(a.C, hi, lo))
		}
	case OpAnd, OpOr, OpXor:
		if a.B.Op == OpConst {
			return ts.Bin(a.Op, ts.Extract(a.A, hi, lo), ts.Extract(a.B, hi, lo))
		}
	case OpLShr:
		if a.B.Op == OpConst && uint64(hi)+a.B.K < uint64(a.W) {
			return ts.Extract(a.A, hi+uint8(a.B.K), lo+uint8(a.B.K))
		}
	case OpShl:
		if a.B.Op == OpConst && uint64(lo) >= a.B.K {
			return ts.Extract(a.A, hi-uint8(a.B.K), lo-uint8(a.B.K))
		}
		if a.B.Op == OpConst && uint64(hi) < a.B.K {
			return ts.Const(0, w)
		}
	}
	return ts.mk(OpExtract, w, a, nil, nil, uint64(hi)<<8|uint64(lo), "")
}

func (ts *Terms) Concat(a, b *Term) *Term {
	w := a.W + b.W
	if w > 64 || w < a.W {
		panic("Concat: width > 64")
	}
	if a.Op == OpConst && b.Op == OpConst {
		return ts.Const(a.K<<b.W|b.K, w)
	}
	if a.Op == OpConst && a.K == 0 {
		return ts.ZExt(b, w)
	}
	// concat(extract(x,h,m+1), extract(x,m,l)) = extract(x,h,l)
	if a.Op == OpExtract && b.Op == OpExtract && a.A == b.A {
		ah, al := uint8(a.K>>8), uint8(a.K&0xff)
		bh, bl := uint8(b.K>>8), uint8(b.K&0xff)
		if al == bh+1 {
			return ts.Extract(a.A, ah, bl)
		}
	}
	if a.Op == OpExtract && b.Op == OpConcat && b.A.Op == OpExtract && a.A == b.A.A {
		ah, al := uint8(a.K>>8), uint8(a.K&0xff)
		bh, bl := uint8(b.A.K>>8), uint8(b.A.K&0xff)
		if al == bh+1 {
			return ts.Concat(ts.Extract(a.A, ah, bl), b.B)
		}
	}
	return ts.mk(OpConcat, w, a, b, nil, 0, "")
}

func (ts *Terms) ZExt(a *Term, w uint8) *Term {
	if w == a.W {
		return a
	}
	if w < a.W {
		panic("ZExt: narrowing")
	}
	if a.Op == OpConst {
		return ts.Const(a.K, w)
	}
	if a.Op == OpZExt {
		return ts.ZExt(a.A, w)
	}
	return ts.mk(OpZExt, w, a, nil, nil, 0, "")
}

func (ts *Terms) SExt(a *Term, w uint8) *Term {
	if w == a.W {
		return a
	}
	if w < a.W {
		panic("SExt: narrowing")
	}
	if a.Op == OpConst {
		return ts.Const(uint64(sext(a.K, a.W)), w)
	}
	if a.Op == OpZExt {
		return ts.ZExt(a.A, w)
	}
	if a.Op == OpSExt {
		return ts.SExt(a.A, w)
	}
	return ts.mk(OpSExt, w, a, nil, nil, 0, "")
}

func (ts *Terms) Ite(c, a, b *Term) *Term {
	if c.Op == OpTrue {
		return a
	}
	if c.Op == OpFalse {
		return b
	}
	if a == b {
		return a
	}
	if a.W == 0 {
		// Boolean ite
		if a.Op == OpTrue && b.Op == OpFalse {
			return c
		}
		if a.Op == OpFalse && b.Op == OpTrue {
			return ts.BNot(c)
		}
		return ts.BOr(ts.BAnd(c, a), ts.BAnd(ts.BNot(c), b))
	}
	if c.Op == OpBNot {
		return ts.Ite(c.A, b, a)
	}
	return ts.mk(OpIte, a.W, c, a, b, 0, "")
}

// Cmp builds a comparison.
func (ts *Terms) Cmp(op Op, a, b *Term) *Term {
	if a.W != b.W {
		panic(fmt.Sprintf("Cmp %v: width mismatch %d vs %d", opNames[op], a.W, b.W))
	}
	if a.W == 0 {
		if op != OpEq {
			panic("Cmp: ordering on Bool")
		}
		return ts.BEq(a, b)
	}
	if a.Op == OpConst && b.Op == OpConst {
		return ts.Bool(evalCmp(op, a.W, a.K, b.K))
	}
	w := a.W
	switch op {
	case OpEq:
		if a == b {
			return ts.True
		}
		if a.Op == OpConst {
			a, b = b, a
		}
		if b.Op == OpConst {
			k := b.K
			if k > maxU(a) {
				return ts.False
			}
			switch a.Op {
			case OpZExt:
				return ts.Cmp(OpEq, a.A, ts.Const(k, a.A.W))
			case OpSExt:
				iw := a.A.W
				if uint64(sext(k&mask(iw), iw))&mask(w) != k {
					return ts.False
				}
				return ts.Cmp(OpEq, a.A, ts.Const(k, iw))
			case OpConcat:
				return ts.BAnd(ts.Cmp(OpEq, a.A, ts.Const(k>>a.B.W, a.A.W)), ts.Cmp(OpEq, a.B, ts.Const(k, a.B.W)))
			case OpIte:
				if a.B.Op == OpConst && a.C.Op == OpConst {
					tb, tc := a.B.K == k, a.C.K == k
					switch {
					case tb && tc:
						return ts.True
					case tb:
						return a.A
					case tc:
						return ts.BNot(a.A)
					default:
						return ts.False
					}
				}
				if a.B.Op == OpConst || a.C.Op == OpConst {
					return ts.Ite(a.A, ts.Cmp(OpEq, a.B, b), ts.Cmp(OpEq, a.C, b))
				}
			case OpAdd:
				if a.B.Op == OpConst {
					return ts.Cmp(OpEq, a.A, ts.Const(k-a.B.K, w))
				}
			case OpXor:
				if a.B.Op == OpConst {
					return ts.Cmp(OpEq, a.A, ts.Const(k^a.B.K, w))
				}
			}
		}
		if a.Op == OpZExt && b.Op == OpZExt && a.A.W == b.A.W {
			return ts.Cmp(OpEq, a.A, b.A)
		}
		if a.Op == OpConcat && b.Op == OpConcat && a.B.W == b.B.W {
			return ts.BAnd(ts.Cmp(OpEq, a.A, b.A), ts.Cmp(OpEq, a.B, b.B))
		}
		if a.ID > b.ID {
			a, b = b, a
		}
	case OpUlt:
		if a == b {
			return ts.False
		}
		if b.Op == OpConst {
			if b.K == 0 {
				return ts.False
			}
			if maxU(a) < b.K {
				return ts.True
			}
			if a.Op == OpZExt && b.K <= mask(a.A.W) {
				return ts.Cmp(OpUlt, a.A, ts.Const(b.K, a.A.W))
			}
		}
		if a.Op == OpConst {
			if a.K >= maxU(b) {
				return ts.False
			}
			if b.Op == OpZExt {
				return ts.Cmp(OpUlt, ts.Const(a.K, b.A.W), b.A)
			}
		}
		if a.Op == OpZExt && b.Op == OpZExt && a.A.W == b.A.W {
			return ts.Cmp(OpUlt, a.A, b.A)
		}
	case OpUle:
		if a == b {
			return ts.True
		}
		if b.Op == OpConst {
			if maxU(a) <= b.K {
				return ts.True
			}
			if a.Op == OpZExt && b.K <= mask(a.A.W) {
				return ts.Cmp(OpUle, a.A, ts.Const(b.K, a.A.W))
			}
		}
		if a.Op == OpConst {
			if a.K == 0 {
				return ts.True
			}
			if a.K > maxU(b) {
				return ts.False
			}
			if b.Op == OpZExt {
				return ts.Cmp(OpUle, ts.Const(a.K, b.A.W), b.A)
			}
		}
		if a.Op == OpZExt && b.Op == OpZExt && a.A.W == b.A.W {
			return ts.Cmp(OpUle, a.A, b.A)
		}
	case OpSlt, OpSle:
		if a == b {
			return ts.Bool(op == OpSle)
		}
		// both provably non-negative: use unsigned comparison
		half := mask(w) >> 1
		if maxU(a) <= half && maxU(b) <= half {
			if op == OpSlt {
				return ts.Cmp(OpUlt, a, b)
			}
			return ts.Cmp(OpUle, a, b)
		}
	case OpFEq, OpFLt, OpFLe:
	}
	return ts.mk(op, 0, a, b, nil, 0, "")
}

func (ts *Terms) FIsNaN(a *Term) *Term {
	if a.Op == OpConst {
		f := math.Float64frombits(a.K)
		return ts.Bool(f != f)
	}
	return ts.mk(OpFIsNaN, 0, a, nil, nil, 0, "")
}

func (ts *Terms) BNot(a *Term) *Term {
	switch a.Op {
	case OpTrue:
		return ts.False
	case OpFalse:
		return ts.True
	case OpBNot:
		return a.A
	}
	return ts.mk(OpBNot, 0, a, nil, nil, 0, "")
}

func (ts *Terms) BAnd(a, b *Term) *Term {
	if a.Op == OpFalse || b.Op == OpFalse {
		return ts.False
	}
	if a.Op == OpTrue {
		return b
	}
	if b.Op == OpTrue {
		return a
	}
	if a == b {
		return a
	}
	if (a.Op == OpBNot && a.A == b) || (b.Op == OpBNot && b.A == a) {
		return ts.False
	}
	return ts.mk(OpBAnd, 0, a, b, nil, 0, "")
}

func (ts *Terms) BOr(a, b *Term) *Term {
	if a.Op == OpTrue || b.Op == OpTrue {
		return ts.True
	}
	if a.Op == OpFalse {
		return b
	}
	if b.Op == OpFalse {
		return a
	}
	if a == b {
		return a
	}
	if (a.Op == OpBNot && a.A == b) || (b.Op == OpBNot && b.A == a) {
		return ts.True
	}
	return ts.mk(OpBOr, 0, a, b, nil, 0, "")
}

func (ts *Terms) BEq(a, b *Term) *Term {
	if a == b {
		return ts.True
	}
	if a.Op == OpTrue {
		return b
	}
	if b.Op == OpTrue {
		return a
	}
	if a.Op == OpFalse {
		return ts.BNot(b)
	}
	if b.Op == OpFalse {
		return ts.BNot(a)
	}
	if a.ID > b.ID {
		a, b = b, a
	}
	return ts.mk(OpEq, 0, a, b, nil, 0, "")
}

// BoolToBV turns a Bool term into a 1/0 bit-vector of width w.
func (ts *Terms) BoolToBV(c *Term, w uint8) *Term {
	return ts.Ite(c, ts.Const(1, w), ts.Const(0, w))
}

// Model maps variable names to values (Bool: 0/1).
type Model map[string]uint64

// Eval evaluates t under m; variables absent from m are 0.
func (ts *Terms) Eval(t *Term, m Model) uint64 {
	ts.epoch++
	if ts.epoch == 0 {
		// wrapped: invalidate
		for _, x := range ts.tab {
			x.evalEpoch = 0
		}
		ts.epoch = 1
	}
	return ts.eval(t, m)
}

func (ts *Terms) eval(t *Term, m Model) uint64 {
	switch t.Op {
	case OpConst:
		return t.K
	case OpTrue:
		return 1
	case OpFalse:
		return 0
	case OpVar:
		return m[t.Name] & mask(t.W)
	case OpBVar:
		return m[t.Name] & 1
	}
	if t.evalEpoch == ts.epoch {
		return t.evalVal
	}
	var r uint64
	switch t.Op {
	case OpAdd, OpSub, OpMul, OpUDiv, OpSDiv, OpURem, OpSRem, OpAnd, OpOr, OpXor, OpShl, OpLShr, OpAShr:
		r = evalBin(t.Op, t.W, ts.eval(t.A, m), ts.eval(t.B, m))
	case OpNot:
		r = ^ts.eval(t.A, m) & mask(t.W)
	case OpNeg:
		r = -ts.eval(t.A, m) & mask(t.W)
	case OpExtract:
		lo := uint8(t.K & 0xff)
		r = (ts.eval(t.A, m) >> lo) & mask(t.W)
	case OpConcat:
		r = ts.eval(t.A, m)<<t.B.W | ts.eval(t.B, m)
	case OpZExt:
		r = ts.eval(t.A, m)
	case OpSExt:
		r = uint64(sext(ts.eval(t.A, m), t.A.W)) & mask(t.W)
	case OpIte:
		if ts.eval(t.A, m) != 0 {
			r = ts.eval(t.B, m)
		} else {
			r = ts.eval(t.C, m)
		}
	case OpEq, OpUlt, OpUle, OpSlt, OpSle, OpFEq, OpFLt, OpFLe:
		if t.A.W == 0 {
			if ts.eval(t.A, m) == ts.eval(t.B, m) {
				r = 1
			}
		} else if evalCmp(t.Op, t.A.W, ts.eval(t.A, m), ts.eval(t.B, m)) {
			r = 1
		}
	case OpFIsNaN:
		f := math.Float64frombits(ts.eval(t.A, m))
		if f != f {
			r = 1
		}
	case OpBAnd:
		if ts.eval(t.A, m) != 0 && ts.eval(t.B, m) != 0 {
			r = 1
		}
	case OpBOr:
		if ts.eval(t.A, m) != 0 || ts.eval(t.B, m) != 0 {
			r = 1
		}
	case OpBNot:
		r = 1 - ts.eval(t.A, m)
	default:
		panic(fmt.Sprintf("eval: op %d", t.Op))
	}
	t.evalEpoch = ts.epoch
	t.evalVal = r
	return r
}

// Vars appends the variables occurring in t to out (deduplicated via seen).
func Vars(t *Term, seen map[*Term]bool, out *[]*Term) {
	if t == nil || seen[t] {
		return
	}
	seen[t] = true
	if t.Op == OpVar || t.Op == OpBVar {
		*out = append(*out, t)
		return
	}
	Vars(t.A, seen, out)
	Vars(t.B, seen, out)
	Vars(t.C, seen, out)
}

func sortOf(w uint8) string {
	if w == 0 {
		return "Bool"
	}
	return fmt.Sprintf("(_ BitVec %d)", w)
}

func constLit(v uint64, w uint8) string {
	if w%4 == 0 {
		return fmt.Sprintf("#x%0*x", int(w/4), v)
	}
	return fmt.Sprintf("#b%0*b", int(w), v)
}

func smtName(s string) string {
	ok := true
	for _, c := range s {
		if !(c >= 'a' && c <= 'z' || c >= 'A' && c <= 'Z' || c >= '0' && c <= '9' || c == '_' || c == '.') {
			ok = false
			break
		}
	}
	if ok && s != "" && !(s[0] >= '0' && s[0] <= '9') {
		return s
	}
	return "|" + strings.ReplaceAll(strings.ReplaceAll(s, "|", "!"), "\\", "!") + "|"
}

// ref returns the SMT-LIB reference to a term whose definition has been sent.
func (t *Term) ref() string {
	switch t.Op {
	case OpConst:
		return constLit(t.K, t.W)
	case OpTrue:
		return "true"
	case OpFalse:
		return "false"
	case OpVar, OpBVar:
		return smtName(t.Name)
	}
	return fmt.Sprintf("t!%d", t.ID)
}

// body is the defining expression of a non-leaf term in terms of refs of its children.
func (t *Term) body() string {
	fpw := func(x *Term) string { return "((_ to_fp 11 53) " + x.ref() + ")" }
	switch t.Op {
	case OpNot, OpNeg, OpBNot:
		return "(" + opNames[t.Op] + " " + t.A.ref() + ")"
	case OpExtract:
		return fmt.Sprintf("((_ extract %d %d) %s)", t.K>>8, t.K&0xff, t.A.ref())
	case OpZExt:
		return fmt.Sprintf("((_ zero_extend %d) %s)", t.W-t.A.W, t.A.ref())
	case OpSExt:
		return fmt.Sprintf("((_ sign_extend %d) %s)", t.W-t.A.W, t.A.ref())
	case OpIte:
		return "(ite " + t.A.ref() + " " + t.B.ref() + " " + t.C.ref() + ")"
	case OpFEq, OpFLt, OpFLe:
		return "(" + opNames[t.Op] + " " + fpw(t.A) + " " + fpw(t.B) + ")"
	case OpFIsNaN:
		return "(fp.isNaN " + fpw(t.A) + ")"
	default:
		return "(" + opNames[t.Op] + " " + t.A.ref() + " " + t.B.ref() + ")"
	}
}

// String renders a term as a nested expression (for diagnostics; may be large).
func (t *Term) String() string {
	var sb strings.Builder
	t.write(&sb, 0)
	return sb.String()
}

func (t *Term) write(sb *strings.Builder, depth int) {
	if depth > 12 {
		sb.WriteString("…")
		return
	}
	switch t.Op {
	case OpConst, OpTrue, OpFalse, OpVar, OpBVar:
		sb.WriteString(t.ref())
		return
	case OpExtract:
		fmt.Fprintf(sb, "((_ extract %d %d) ", t.K>>8, t.K&0xff)
	case OpZExt:
		fmt.Fprintf(sb, "((_ zext %d) ", t.W-t.A.W)
	case OpSExt:
		fmt.Fprintf(sb, "((_ sext %d) ", t.W-t.A.W)
	default:
		sb.WriteString("(" + opNames[t.Op] + " ")
	}
	t.A.write(sb, depth+1)
	if t.B != nil {
		sb.WriteString(" ")
		t.B.write(sb, depth+1)
	}
	if t.C != nil {
		sb.WriteString(" ")
		t.C.write(sb, depth+1)
	}
	sb.WriteString(")")
}
