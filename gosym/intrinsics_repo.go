package gosym

import (
	"bytes"
	"compress/gzip"
	"io"
)

// Function-level models of helpers in the code under analysis that rely on reflect/unsafe.
// A change inside these functions is invisible to the engine (stated in DESIGN.md 2.5).

const tg = "github.com/cloudwego/thriftgo/"

func init() {
	fillRandom := func(e *Engine, fr *frame, args []V) V {
		s := args[0].slice()
		for i := range s {
			e.storeInto(&s[i], vUint(uint64(0xA5^byte(i*37))))
		}
		return vTuple(vInt(int64(len(s))), vNilIface())
	}
	reg("math/rand.Read", fillRandom)
	reg("crypto/rand.Read", fillRandom)

	// thrift_reflection.isNil(i interface{}) bool: reflect.ValueOf(i).Kind()==Ptr && IsNil()
	reg(tg+"thrift_reflection.isNil", func(e *Engine, fr *frame, args []V) V {
		it := args[0].iface()
		if it == nil {
			return vBool(true)
		}
		if it.V.K == KPtr {
			return vBool(it.V.ptr() == nil)
		}
		return vBool(false)
	})

	// fieldmask.pathValue{pv unsafe.Pointer; iv int}: string header smuggled through unsafe
	reg(tg+"fieldmask.newPathValueStr", func(e *Engine, fr *frame, args []V) V {
		n := strLen(args[0])
		if n == 0 {
			return V{K: KStruct, P: []V{{K: KPtr, P: (*V)(nil)}, vInt(0)}}
		}
		cell := new(V)
		*cell = args[0]
		return V{K: KStruct, P: []V{vPtr(cell), vInt(int64(n))}}
	})
	reg("("+tg+"fieldmask.pathValue).Str", func(e *Engine, fr *frame, args []V) V {
		f := args[0].fields()
		p := f[0].ptr()
		if p == nil {
			if f[1].K == KInt && f[1].N == 0 {
				return vStr("")
			}
			e.unsupported("pathValue.Str on an integer token with nil data pointer and non-zero length (undefined behaviour in the real code)")
		}
		if p.K != KStr && p.K != KSymStr {
			e.unsupported("pathValue.Str: data pointer does not hold a string")
		}
		return *p
	})
}

func opaqueStr(n int) V {
	b := make([]V, n)
	for i := range b {
		b[i] = V{K: KOpq}
	}
	return V{K: KSymStr, P: &SymStr{B: b}}
}

func init() {
	// Formatting a symbolic integer yields an opaque placeholder (length and digits unknown);
	// concrete operands are interpreted from the library source.
	fmtInt := func(name string) {
		reg(name, func(e *Engine, fr *frame, args []V) V {
			if args[0].K == KSym {
				n, ok := e.tryConcretize(args[0].term(), 64)
				if !ok {
					return opaqueStr(5)
				}
				_, signed, _ := basicInfo(fr.fn.Signature.Params().At(0).Type())
				args = append([]V{vUint(norm(n, 64, signed))}, args[1:]...)
			}
			return e.callSSANoIntrinsic(fr, name, args)
		})
	}
	fmtInt("strconv.Itoa")
	fmtInt("strconv.FormatInt")
	fmtInt("strconv.FormatUint")
}

// concretizeStr forces every symbolic byte of a string to a concrete value (forking over all
// feasible values); the result is a Go string.
func (e *Engine) concretizeStr(v V, what string) string {
	if s, ok := concStr(v); ok {
		return s
	}
	if isOpaqueStr(v) {
		e.unsupported("%s of an opaque string", what)
	}
	b := strBytes(v)
	out := make([]byte, len(b))
	for i, x := range b {
		out[i] = byte(e.concInt(x))
	}
	return string(out)
}

func init() {
	// strconv.ParseFloat: float arithmetic on symbolic digits is not encoded; the digits are
	// enumerated by the solver instead (sound, may hit the fork bound on long free strings).
	reg("strconv.ParseFloat", func(e *Engine, fr *frame, args []V) V {
		if _, ok := concStr(args[0]); ok {
			return e.callSSANoIntrinsic(fr, "strconv.ParseFloat", args)
		}
		s := e.concretizeStr(args[0], "strconv.ParseFloat")
		return e.callSSANoIntrinsic(fr, "strconv.ParseFloat", []V{vStr(s), args[1]})
	})
}

// regexp: concrete call-outs (the host executes the real library; operands must be concrete).
func init() {
	reg("regexp.MustCompile", func(e *Engine, fr *frame, args []V) V {
		pat := argStr(e, args[0], "regexp.MustCompile pattern")
		re, err := regexpCompile(pat)
		if err != nil {
			panic(targetPanic{vIface(typesString(), vStr("regexp: Compile(" + pat + "): " + err.Error()))})
		}
		return V{K: KOpaque, P: re}
	})
	reg("(*regexp.Regexp).FindAllString", func(e *Engine, fr *frame, args []V) V {
		re := hostRegexp(e, args[0])
		s := argStr(e, args[1], "regexp subject")
		n := int(int64(e.concInt(args[2])))
		ms := re.FindAllString(s, n)
		if ms == nil {
			return V{K: KSlice, P: []V(nil)}
		}
		out := make([]V, len(ms))
		for i, m := range ms {
			out[i] = vStr(m)
		}
		return V{K: KSlice, P: out}
	})
	reg("(*regexp.Regexp).MatchString", func(e *Engine, fr *frame, args []V) V {
		return vBool(hostRegexp(e, args[0]).MatchString(argStr(e, args[1], "regexp subject")))
	})
	reg("(*regexp.Regexp).FindStringSubmatch", func(e *Engine, fr *frame, args []V) V {
		ms := hostRegexp(e, args[0]).FindStringSubmatch(argStr(e, args[1], "regexp subject"))
		if ms == nil {
			return V{K: KSlice, P: []V(nil)}
		}
		out := make([]V, len(ms))
		for i, m := range ms {
			out[i] = vStr(m)
		}
		return V{K: KSlice, P: out}
	})
	reg("(*regexp.Regexp).ReplaceAllString", func(e *Engine, fr *frame, args []V) V {
		return vStr(hostRegexp(e, args[0]).ReplaceAllString(argStr(e, args[1], "regexp subject"), argStr(e, args[2], "regexp replacement")))
	})
	reg("(*regexp.Regexp).String", func(e *Engine, fr *frame, args []V) V { return vStr(hostRegexp(e, args[0]).String()) })
}

func init() {
	// gopkg BinaryProtocol.Skip walks raw pointers; it is replaced by the safe-Go model
	// zzgen/internal/zzskip.Skip (same contract), interpreted like any other code.
	reg("(github.com/cloudwego/gopkg/protocol/thrift.BinaryProtocol).Skip", func(e *Engine, fr *frame, args []V) V {
		fn := e.lookupFunc("zzgen/internal/zzskip.Skip")
		if fn == nil {
			fn = e.lookupFunc("github.com/cloudwego/thriftgo/internal/zzskip.Skip")
		}
		if fn == nil {
			e.unsupported("gopkg BinaryProtocol.Skip: model package zzgen/internal/zzskip not loaded")
		}
		return e.callSSA(fr.caller, fr.callSite, fn, []V{args[1], args[2]}, nil)
	})
}

func init() {
	// The embedded descriptor bytes of *-reflection.go are gzip + meta encoded (not encodable);
	// harnesses obtain descriptors from thrift_reflection.RegisterAST instead.
	reg(tg+"thrift_reflection.BuildFileDescriptor", func(e *Engine, fr *frame, args []V) V {
		if e.cfg.RealMeta {
			return e.callSSANoIntrinsic(fr, tg+"thrift_reflection.BuildFileDescriptor", args)
		}
		return V{K: KPtr, P: (*V)(nil)}
	})
}

func init() {
	// regexp2 (github.com/dlclark/regexp2): concrete call-outs to Go's regexp for the simple
	// patterns used as method filters (the library itself is not linked into the checker).
	reg("github.com/dlclark/regexp2.Compile", func(e *Engine, fr *frame, args []V) V {
		pat := argStr(e, args[0], "regexp2.Compile pattern")
		re, err := regexpCompile(pat)
		if err != nil {
			return vTuple(V{K: KPtr, P: (*V)(nil)}, e.newErrorString(vStr("regexp2: "+err.Error())))
		}
		return vTuple(V{K: KOpaque, P: &re2{re: re, src: pat}}, vNilIface())
	})
	reg("github.com/dlclark/regexp2.MustCompile", func(e *Engine, fr *frame, args []V) V {
		pat := argStr(e, args[0], "regexp2.MustCompile pattern")
		re, err := regexpCompile(pat)
		if err != nil {
			panic(targetPanic{vIface(typesString(), vStr("regexp2: " + err.Error()))})
		}
		return V{K: KOpaque, P: &re2{re: re, src: pat}}
	})
	reg("(*github.com/dlclark/regexp2.Regexp).MatchString", func(e *Engine, fr *frame, args []V) V {
		r, ok := args[0].P.(*re2)
		if !ok {
			e.unsupported("regexp2 method on a foreign value")
		}
		return vTuple(vBool(r.re.MatchString(argStr(e, args[1], "regexp2 subject"))), vNilIface())
	})
	reg("(*github.com/dlclark/regexp2.Regexp).String", func(e *Engine, fr *frame, args []V) V {
		r, ok := args[0].P.(*re2)
		if !ok {
			e.unsupported("regexp2 method on a foreign value")
		}
		return vStr(r.src)
	})
	reg(tg+"utils/dir_utils.ToAbsolute", func(e *Engine, fr *frame, args []V) V { return vTuple(args[0], vNilIface()) })
}

func init() {
	// compress/gzip is an environment library (a DEFLATE encoder over symbolic bytes is out of
	// reach). thrift_reflection.doGzip / doUnzip are modelled:
	//   - all bytes concrete: the host's compress/gzip does the work (same library, same output)
	//   - otherwise: an injective marker framing "ZZGZ" + data, which doUnzip strips
	// so that Marshal/Unmarshal of descriptors with symbolic content exercise the meta codec.
	allConcrete := func(s []V) ([]byte, bool) {
		b := make([]byte, len(s))
		for i, x := range s {
			if x.K == KSym || x.K == KOpq {
				return nil, false
			}
			b[i] = byte(x.N)
		}
		return b, true
	}
	mk := func(b []byte) V {
		out := make([]V, len(b))
		for i, x := range b {
			out[i] = vUint(uint64(x))
		}
		return V{K: KSlice, P: out}
	}
	reg(tg+"thrift_reflection.doGzip", func(e *Engine, fr *frame, args []V) V {
		s := args[0].slice()
		if b, ok := allConcrete(s); ok {
			var buf bytes.Buffer
			w := gzip.NewWriter(&buf)
			w.Write(b)
			w.Close()
			return vTuple(mk(buf.Bytes()), vNilIface())
		}
		out := make([]V, 0, len(s)+4)
		for _, c := range []byte("ZZGZ") {
			out = append(out, vUint(uint64(c)))
		}
		out = append(out, s...)
		return vTuple(V{K: KSlice, P: out}, vNilIface())
	})
	reg(tg+"thrift_reflection.doUnzip", func(e *Engine, fr *frame, args []V) V {
		s := args[0].slice()
		if len(s) >= 4 {
			if b, ok := allConcrete(s[:4]); ok && string(b) == "ZZGZ" {
				cp := make([]V, len(s)-4)
				copy(cp, s[4:])
				return vTuple(V{K: KSlice, P: cp}, vNilIface())
			}
		}
		b, ok := allConcrete(s)
		if !ok {
			e.unsupported("doUnzip of symbolic bytes without the model framing")
		}
		r, err := gzip.NewReader(bytes.NewReader(b))
		if err != nil {
			return vTuple(V{K: KSlice, P: []V(nil)}, e.newErrorString(vStr(err.Error())))
		}
		out, err := io.ReadAll(r)
		if err != nil {
			return vTuple(V{K: KSlice, P: []V(nil)}, e.newErrorString(vStr(err.Error())))
		}
		return vTuple(mk(out), vNilIface())
	})
}
