package gosym

import (
	"fmt"
	"go/types"

	"golang.org/x/tools/go/ssa"
)

// Baton scheduler: interpreted goroutines are host goroutines of which exactly one runs at
// a time. A goroutine runs until it blocks or finishes; the next ready one (FIFO) takes over.
// This is deterministic: interleavings are NOT explored here (that is gosched's job).

type gor struct {
	id     int
	wake   chan struct{}
	done   bool
	isMain bool
}

type waiter struct {
	g   *gor
	val V
	ok  bool
}

type scheduler struct {
	e       *Engine
	cur     *gor
	main    *gor
	all     []*gor
	ready   []*gor
	pending any  // abort or panic to deliver to main
	killing bool // path is over: parked goroutines must unwind
	exited  chan struct{}
}

type killGor struct{}

func (e *Engine) ensureSched() *scheduler {
	if e.sched == nil {
		m := &gor{id: 0, wake: make(chan struct{}), isMain: true}
		e.sched = &scheduler{e: e, cur: m, main: m, all: []*gor{m}, exited: make(chan struct{}, 64)}
	}
	return e.sched
}

// park blocks the current goroutine until it is made ready and scheduled again.
func (s *scheduler) park() {
	me := s.cur
	s.switchAway()
	<-me.wake
	s.cur = me
	s.afterWake(me)
}

func (s *scheduler) afterWake(me *gor) {
	if s.killing && !me.isMain {
		panic(abort{kind: AbortDone, msg: "goroutine killed at end of path"})
	}
	if me.isMain && s.pending != nil {
		p := s.pending
		s.pending = nil
		panic(p)
	}
}

// switchAway hands the baton to the next ready goroutine. The caller is not in the ready
// queue. When nothing is ready the program is deadlocked.
func (s *scheduler) switchAway() {
	if len(s.ready) == 0 {
		// nobody can run
		dl := abort{kind: AbortDeadlock, msg: "all goroutines are asleep - deadlock"}
		if s.cur.isMain {
			panic(dl)
		}
		s.pending = dl
		s.main.wake <- struct{}{}
		return
	}
	next := s.ready[0]
	s.ready = s.ready[1:]
	next.wake <- struct{}{}
}

func (s *scheduler) makeReady(g *gor) { s.ready = append(s.ready, g) }

// yield lets other ready goroutines run first (used for polling waits).
func (s *scheduler) yield() {
	if len(s.ready) == 0 {
		return
	}
	me := s.cur
	s.ready = append(s.ready, me)
	next := s.ready[0]
	s.ready = s.ready[1:]
	next.wake <- struct{}{}
	<-me.wake
	s.cur = me
	s.afterWake(me)
}

func (e *Engine) goStmt(fr *frame, instr *ssa.Go, fn V, args []V) {
	if e.rec != nil {
		e.recGo(fr, instr, fn, args)
		return
	}
	s := e.ensureSched()
	g := &gor{id: len(s.all), wake: make(chan struct{})}
	s.all = append(s.all, g)
	s.makeReady(g)
	go func() {
		<-g.wake
		s.cur = g
		defer func() {
			r := recover()
			g.done = true
			if s.killing {
				s.exited <- struct{}{}
				return
			}
			if r != nil {
				if a, ok := r.(abort); ok && a.kind == AbortDone && s.killing {
					s.exited <- struct{}{}
					return
				}
				// an abort or an uncaught panic in a goroutine ends the whole path
				s.pending = r
				if tp, ok := r.(targetPanic); ok {
					s.pending = tp
				}
				s.exited <- struct{}{}
				// wake main to deliver
				s.removeReady(s.main)
				s.main.wake <- struct{}{}
				return
			}
			s.exited <- struct{}{}
			s.switchAway()
		}()
		if s.killing {
			panic(abort{kind: AbortDone})
		}
		e.call(nil, instr.Pos(), fn, args)
	}()
}

func (s *scheduler) removeReady(g *gor) {
	for i, x := range s.ready {
		if x == g {
			s.ready = append(s.ready[:i], s.ready[i+1:]...)
			return
		}
	}
}

// shutdown unwinds every goroutine that is still parked. Called by main at the end of a path.
func (s *scheduler) shutdown() {
	s.killing = true
	for _, g := range s.all {
		if g.isMain || g.done {
			continue
		}
		g.wake <- struct{}{}
		for !g.done {
			<-s.exited
		}
	}
	// drain
	for {
		select {
		case <-s.exited:
			continue
		default:
		}
		break
	}
}

// ---------------------------------------------------------------------------------------------
// channels

type chanState struct {
	recvq []*waiter
	sendq []*waiter
}

func (e *Engine) chanQ(c *Chan) *chanState {
	if e.chanQs == nil {
		e.chanQs = map[*Chan]*chanState{}
	}
	q := e.chanQs[c]
	if q == nil {
		q = &chanState{}
		e.chanQs[c] = q
	}
	return q
}

func (e *Engine) chanSend(fr *frame, ch V, v V) {
	if e.rec != nil {
		e.recSend(ch)
		return
	}
	c, _ := ch.P.(*Chan)
	s := e.ensureSched()
	if c == nil {
		// send on nil channel blocks forever
		s.park()
		return
	}
	if c.closed {
		panic(targetPanic{e.runtimeError("send on closed channel")})
	}
	q := e.chanQ(c)
	if len(q.recvq) > 0 {
		w := q.recvq[0]
		q.recvq = q.recvq[1:]
		w.val, w.ok = copyVal(v), true
		s.makeReady(w.g)
		return
	}
	if len(c.buf) < c.cap {
		c.buf = append(c.buf, copyVal(v))
		return
	}
	w := &waiter{g: s.cur, val: copyVal(v)}
	q.sendq = append(q.sendq, w)
	s.park()
	if c.closed && !w.ok {
		panic(targetPanic{e.runtimeError("send on closed channel")})
	}
}

func (e *Engine) chanRecv(fr *frame, ch V, commaOk bool, elem types.Type) V {
	if e.rec != nil {
		return e.recRecv(ch, commaOk, elem)
	}
	c, _ := ch.P.(*Chan)
	s := e.ensureSched()
	ret := func(v V, ok bool) V {
		if commaOk {
			return vTuple(v, vBool(ok))
		}
		return v
	}
	if c == nil {
		s.park()
		return ret(zero(elem), false)
	}
	q := e.chanQ(c)
	if len(c.buf) > 0 {
		v := c.buf[0]
		c.buf = c.buf[1:]
		if len(q.sendq) > 0 {
			w := q.sendq[0]
			q.sendq = q.sendq[1:]
			c.buf = append(c.buf, w.val)
			w.ok = true
			s.makeReady(w.g)
		}
		return ret(v, true)
	}
	if len(q.sendq) > 0 {
		w := q.sendq[0]
		q.sendq = q.sendq[1:]
		w.ok = true
		s.makeReady(w.g)
		return ret(w.val, true)
	}
	if c.closed {
		return ret(zero(elem), false)
	}
	w := &waiter{g: s.cur}
	q.recvq = append(q.recvq, w)
	s.park()
	if !w.ok {
		return ret(zero(elem), false)
	}
	return ret(w.val, true)
}

func (e *Engine) chanClose(ch V) {
	c, _ := ch.P.(*Chan)
	if c == nil {
		panic(targetPanic{e.runtimeError("close of nil channel")})
	}
	if c.closed {
		panic(targetPanic{e.runtimeError("close of closed channel")})
	}
	c.closed = true
	s := e.ensureSched()
	q := e.chanQ(c)
	for _, w := range q.recvq {
		w.ok = false
		s.makeReady(w.g)
	}
	q.recvq = nil
	for _, w := range q.sendq {
		w.ok = false
		s.makeReady(w.g)
	}
	q.sendq = nil
}

// chanIter support: range over channel
type chanIter struct {
	ch   V
	elem types.Type
}

func (e *Engine) selectOp(fr *frame, instr *ssa.Select) V {
	if e.rec != nil {
		return e.recSelect(fr, instr)
	}
	// deterministic: first ready case in source order; default when none and non-blocking
	s := e.ensureSched()
	for attempt := 0; ; attempt++ {
		for i, st := range instr.States {
			c, _ := fr.get(st.Chan).P.(*Chan)
			if c == nil {
				continue
			}
			q := e.chanQ(c)
			if st.Dir == types.SendOnly {
				if c.closed || len(q.recvq) > 0 || len(c.buf) < c.cap {
					e.chanSend(fr, fr.get(st.Chan), fr.get(st.Send))
					return e.selectResult(instr, i, true, V{})
				}
			} else {
				if len(c.buf) > 0 || len(q.sendq) > 0 || c.closed {
					r := e.chanRecv(fr, fr.get(st.Chan), true, c.elem)
					t := r.P.([]V)
					return e.selectResult(instr, i, t[1].N != 0, t[0])
				}
			}
		}
		if !instr.Blocking {
			return e.selectResult(instr, -1, false, V{})
		}
		if len(s.ready) == 0 {
			panic(abort{kind: AbortDeadlock, msg: "select: all goroutines are asleep - deadlock"})
		}
		if attempt > 10000 {
			e.unsupported("select: no progress after 10000 polls")
		}
		s.yield()
	}
}

func (e *Engine) selectResult(instr *ssa.Select, chosen int, recvOk bool, recv V) V {
	r := []V{vInt(int64(chosen)), vBool(recvOk)}
	for i, st := range instr.States {
		if st.Dir == types.RecvOnly {
			if i == chosen && recvOk {
				r = append(r, recv)
			} else {
				r = append(r, zero(st.Chan.Type().Underlying().(*types.Chan).Elem()))
			}
		}
	}
	return V{K: KTuple, P: r}
}

func (e *Engine) endPathSched() {
	if e.sched != nil {
		e.sched.shutdown()
		e.sched = nil
	}
	e.chanQs = nil
}

var _ = fmt.Sprintf
