package gosym

import (
	"fmt"
	"go/constant"
	"go/token"
	"go/types"
	"strings"

	"golang.org/x/tools/go/ssa"
)

// AbortKind classifies why the engine stopped a path.
type AbortKind int

const (
	AbortUnsupported AbortKind = iota // something the engine cannot model: path is inconclusive
	AbortStepLimit                    // maxSteps exceeded
	AbortDepthLimit                   // call depth exceeded (stack overflow in the target)
	AbortInfeasible                   // an Assume turned out unsatisfiable on this path
	AbortExit                         // os.Exit
	AbortViolation                    // assertion violated (model in engine)
	AbortForkLimit                    // too many values for a concretisation
	AbortSolver                       // solver answered unknown where an answer was needed
	AbortDone                         // harness asked to end the path (zzrt.Done)
	AbortDeadlock                     // all goroutines blocked
)

type abort struct {
	kind AbortKind
	msg  string
	code int
}

func (a abort) String() string { return fmt.Sprintf("abort(%d): %s", a.kind, a.msg) }

// targetPanic is a Go panic of the interpreted program.
type targetPanic struct {
	v V // the interface value passed to panic()
}

// Decision is one recorded nondeterministic choice on a path.
type Decision struct {
	Kind uint8  // 0 = branch, 1 = concretise
	Val  uint64 // branch: 0/1; concretise: chosen value
}

// WorkItem is a path prefix still to be explored together with a model satisfying it.
type WorkItem struct {
	Prefix []Decision
	Model  Model
}

type undoRec struct {
	p   *V
	old V
	f   func()
}

type fnInfo struct {
	index     map[ssa.Value]int32
	nregs     int
	intrinsic func(e *Engine, fr *frame, args []V) V
	checked   bool
	name      string
}

// Engine is one sequential symbolic interpreter instance.
type Engine struct {
	prog    *ssa.Program
	ts      *Terms
	solver  *Solver
	globals map[*ssa.Global]*V
	fninfo  map[*ssa.Function]*fnInfo
	consts  map[*ssa.Const]V
	cfg     *Config
	sizes   types.Sizes

	runtimeErrorString types.Type
	errorsErrorString  types.Type

	// per-path state
	inPath    bool
	prefix    []Decision
	pos       int
	decisions []Decision
	model     Model
	pc        []*Term
	known     map[*Term]bool
	undo      []undoRec
	steps     int64
	depth     int
	varSeq    map[string]int
	pathVars  []*Term
	newItems  []WorkItem
	covers    map[string]bool
	notes     []string
	knownHits map[string]string // known-finding id -> message (this path)
	violation *Violation
	nondetMapOrder bool
	mapOrderBudget int // <0: unlimited (all permutations of every range); k>0: at most k perturbed ranges per path
	stdout    strings.Builder

	// statistics
	Stats Stats

	top       *frame
	rec       *recorder
	rtypes    map[string]*RType
	rtypeT    types.Type
	debugOut  []string
	skipIntrinsic bool
	overrides     map[string]V // harness-installed replacements of package-level functions (zzrt.Override), per path
	funcByName map[string]*ssa.Function
	captureResult *V
	InitWarnings []string
	sched     *scheduler
	chanQs    map[*Chan]*chanState
	hostState map[string]any
	ptrIDs    map[*V]uint64
	onceDone  map[*V]bool
	wgCount   map[*V]int64
	syncMaps  map[*V]*Map
	env       map[string]string
}

// Stats accumulates counters over the paths run by an engine.
type Stats struct {
	Paths, Steps, Queries, Forks, Concretisations int64
	SolverUnknown                                   int64
}

// Violation describes a failed assertion or an escaped panic.
type Violation struct {
	Kind  string // assert | panic | fatal | steplimit
	Msg   string
	Model Model
	Vars  []string
	Stack []string
}

// Config holds engine limits and policy.
type Config struct {
	MaxSteps   int64
	MaxDepth   int
	MaxFork    int
	SolverKind string
	TimeoutMs  int
	Trace      bool
	InitAllow  func(pkgPath string) bool
	RealMeta   bool // interpret meta.RegisterStruct and the meta package initialiser (reflection registry)
	NoCoalesce bool // disable merging of if-chains with a common target (a||b||c, multi-value switch cases)
}

func (e *Engine) logStore(p *V) {
	if e.inPath {
		e.undo = append(e.undo, undoRec{p: p, old: *p})
	}
}

func (e *Engine) logUndo(f func()) {
	if e.inPath {
		e.undo = append(e.undo, undoRec{f: f})
	}
}

func (e *Engine) rollback() {
	for i := len(e.undo) - 1; i >= 0; i-- {
		u := e.undo[i]
		if u.f != nil {
			u.f()
		} else {
			*u.p = u.old
		}
	}
	e.undo = e.undo[:0]
}

func (e *Engine) unsupported(format string, args ...any) {
	panic(abort{kind: AbortUnsupported, msg: fmt.Sprintf(format, args...) + e.where()})
}

// where renders the innermost frames of the interpreted call stack.
func (e *Engine) where() string {
	var sb strings.Builder
	n := 0
	for fr := e.top; fr != nil && n < 6; fr = fr.caller {
		if n == 0 {
			sb.WriteString(" @ ")
		} else {
			sb.WriteString(" < ")
		}
		sb.WriteString(fr.fn.String())
		n++
	}
	return sb.String()
}

func (e *Engine) runtimeError(msg string) V {
	return vIface(e.runtimeErrorString, vStr(msg))
}

func (e *Engine) targetPanicStr(msg string) {
	panic(targetPanic{e.runtimeError("runtime error: " + msg)})
}

type frame struct {
	e         *Engine
	caller    *frame
	fn        *ssa.Function
	info      *fnInfo
	regs      []V
	block     *ssa.BasicBlock
	prev      *ssa.BasicBlock
	defers    *deferred
	result    V
	panicking bool
	panicVal  any
	phitemps  []V
	callSite  token.Pos
}

func (e *Engine) info(fn *ssa.Function) *fnInfo {
	if fi, ok := e.fninfo[fn]; ok {
		return fi
	}
	fi := &fnInfo{index: map[ssa.Value]int32{}, name: fn.String()}
	n := int32(0)
	add := func(v ssa.Value) {
		fi.index[v] = n
		n++
	}
	for _, p := range fn.Params {
		add(p)
	}
	for _, fv := range fn.FreeVars {
		add(fv)
	}
	for _, b := range fn.Blocks {
		for _, ins := range b.Instrs {
			if v, ok := ins.(ssa.Value); ok {
				add(v)
			}
		}
	}
	fi.nregs = int(n)
	fi.intrinsic = lookupIntrinsic(fn)
	e.fninfo[fn] = fi
	return fi
}

func (fr *frame) get(v ssa.Value) V {
	switch v := v.(type) {
	case *ssa.Const:
		return fr.e.constV(v)
	case *ssa.Global:
		return vPtr(fr.e.global(v))
	case *ssa.Function:
		return V{K: KFunc, P: v}
	case *ssa.Builtin:
		return V{K: KFunc, P: v}
	case nil:
		return V{}
	}
	idx, ok := fr.info.index[v]
	if !ok {
		panic(fmt.Sprintf("get: no register for %T %s in %s", v, v.Name(), fr.fn))
	}
	return fr.regs[idx]
}

func (fr *frame) set(v ssa.Value, x V) {
	fr.regs[fr.info.index[v]] = x
}

func (e *Engine) global(g *ssa.Global) *V {
	if p, ok := e.globals[g]; ok {
		return p
	}
	cell := new(V)
	*cell = zero(deref(g.Type()))
	e.globals[g] = cell
	return cell
}

func deref(t types.Type) types.Type {
	if p, ok := t.Underlying().(*types.Pointer); ok {
		return p.Elem()
	}
	panic("deref: not a pointer: " + t.String())
}

func (e *Engine) constV(c *ssa.Const) V {
	if v, ok := e.consts[c]; ok {
		return v
	}
	v := e.constV0(c)
	e.consts[c] = v
	return v
}

func (e *Engine) constV0(c *ssa.Const) V {
	if c.Value == nil {
		return zero(c.Type())
	}
	t := c.Type().Underlying()
	if b, ok := t.(*types.Basic); ok {
		switch {
		case b.Info()&types.IsBoolean != 0:
			return vBool(constant.BoolVal(c.Value))
		case b.Info()&types.IsInteger != 0:
			w, signed, _ := basicInfo(b)
			if signed {
				return vUint(norm(uint64(c.Int64()), w, true))
			}
			return vUint(norm(c.Uint64(), w, false))
		case b.Info()&types.IsFloat != 0:
			f := c.Float64()
			if b.Kind() == types.Float32 {
				f = float64(float32(f))
			}
			return vFloat(f)
		case b.Info()&types.IsString != 0:
			if c.Value.Kind() == constant.String {
				return vStr(constant.StringVal(c.Value))
			}
			return vStr(string(rune(c.Int64())))
		case b.Info()&types.IsComplex != 0:
			return V{K: KComplex, P: c.Complex128()}
		case b.Kind() == types.UnsafePointer:
			return V{K: KPtr, P: (*V)(nil)}
		}
	}
	if _, ok := t.(*types.TypeParam); ok {
		e.unsupported("constant of type parameter type")
	}
	panic(fmt.Sprintf("constV: unexpected constant %v of type %v", c, c.Type()))
}

// ---------------------------------------------------------------------------------------------
// forking

// addPC records c as part of the path condition.
func (e *Engine) addPC(c *Term) {
	e.pc = append(e.pc, c)
	e.solver.Assert(c)
}

func (e *Engine) allVars() []*Term { return e.pathVars }

// branch decides a symbolic condition.
func (e *Engine) branch(c *Term) bool {
	switch c.Op {
	case OpTrue:
		return true
	case OpFalse:
		return false
	}
	if c.Op == OpBNot {
		return !e.branch(c.A)
	}
	if v, ok := e.known[c]; ok {
		return v
	}
	var res bool
	if e.pos < len(e.prefix) {
		d := e.prefix[e.pos]
		e.pos++
		if d.Kind != 0 {
			panic(fmt.Sprintf("replay mismatch: expected branch decision, got kind %d at %d", d.Kind, e.pos-1))
		}
		res = d.Val != 0
	} else {
		e.Stats.Forks++
		res = e.ts.Eval(c, e.model) != 0
		other := c
		if res {
			other = e.ts.BNot(c)
		}
		r, m := e.solver.CheckWith(other, e.allVars(), true)
		e.Stats.Queries++
		switch r {
		case Sat:
			pfx := make([]Decision, len(e.decisions)+1)
			copy(pfx, e.decisions)
			pfx[len(e.decisions)] = Decision{Kind: 0, Val: b2u(!res)}
			e.newItems = append(e.newItems, WorkItem{Prefix: pfx, Model: m})
		case Unknown:
			e.Stats.SolverUnknown++
			e.notes = append(e.notes, "solver unknown on branch feasibility; side not explored")
		}
	}
	e.decisions = append(e.decisions, Decision{Kind: 0, Val: b2u(res)})
	if res {
		e.addPC(c)
	} else {
		e.addPC(e.ts.BNot(c))
	}
	e.known[c] = res
	return res
}

// truth forces a boolean value to a concrete decision (forking when symbolic).
func (e *Engine) truth(v V) bool {
	switch v.K {
	case KInt:
		return v.N != 0
	case KSym:
		return e.branch(v.term())
	}
	panic(fmt.Sprintf("truth: kind %d", v.K))
}

// concretize forces a symbolic bit-vector to a concrete value, forking over all feasible values.
func (e *Engine) concretize(t *Term) uint64 {
	if t.Op == OpConst {
		return t.K
	}
	if t.W == 0 {
		return b2u(e.branch(t))
	}
	if e.pos < len(e.prefix) {
		d := e.prefix[e.pos]
		e.pos++
		if d.Kind != 1 {
			panic("replay mismatch: expected concretise decision")
		}
		e.decisions = append(e.decisions, d)
		e.addPC(e.ts.Cmp(OpEq, t, e.ts.Const(d.Val, t.W)))
		return d.Val
	}
	e.Stats.Concretisations++
	first := e.ts.Eval(t, e.model)
	excl := e.ts.BNot(e.ts.Cmp(OpEq, t, e.ts.Const(first, t.W)))
	n := 1
	for {
		r, m := e.solver.CheckWith(excl, e.allVars(), true)
		e.Stats.Queries++
		if r == Unknown {
			e.Stats.SolverUnknown++
			e.notes = append(e.notes, "solver unknown during concretisation")
			break
		}
		if r == Unsat {
			break
		}
		v := e.ts.Eval(t, m)
		n++
		if n > e.cfg.MaxFork {
			panic(abort{kind: AbortForkLimit, msg: fmt.Sprintf("more than %d feasible values for %s", e.cfg.MaxFork, t)})
		}
		pfx := make([]Decision, len(e.decisions)+1)
		copy(pfx, e.decisions)
		pfx[len(e.decisions)] = Decision{Kind: 1, Val: v}
		e.newItems = append(e.newItems, WorkItem{Prefix: pfx, Model: m})
		excl = e.ts.BAnd(excl, e.ts.BNot(e.ts.Cmp(OpEq, t, e.ts.Const(v, t.W))))
	}
	e.decisions = append(e.decisions, Decision{Kind: 1, Val: first})
	e.addPC(e.ts.Cmp(OpEq, t, e.ts.Const(first, t.W)))
	return first
}

// concInt forces an integer value to concrete.
func (e *Engine) concInt(v V) uint64 {
	switch v.K {
	case KInt:
		return v.N
	case KSym:
		t := v.term()
		return e.concretize(t)
	}
	panic(fmt.Sprintf("concInt: kind %d", v.K))
}

// concIntSigned concretises and sign-extends according to the term width.
func (e *Engine) concIntT(v V, typ types.Type) int64 {
	if v.K == KInt {
		return int64(v.N)
	}
	w, signed, _ := basicInfo(typ)
	n := e.concretize(v.term())
	return int64(norm(n, w, signed))
}

// choose draws a value in [0,n) as a fresh decision variable.
func (e *Engine) choose(n int, label string) int {
	if n <= 1 {
		return 0
	}
	v := e.freshVar(label, 32)
	e.assume(e.ts.Cmp(OpUlt, v, e.ts.Const(uint64(n), 32)))
	// an explicit enumeration requested by the harness: the fork bound does not apply
	if n > e.cfg.MaxFork && e.pos >= len(e.prefix) {
		saved := e.cfg
		cfg := *saved
		cfg.MaxFork = n + 1
		e.cfg = &cfg
		defer func() { e.cfg = saved }()
	}
	return int(e.concretize(v))
}

func (e *Engine) freshVar(label string, w uint8) *Term {
	seq := e.varSeq[label]
	e.varSeq[label] = seq + 1
	name := fmt.Sprintf("%s#%d", label, seq)
	t := e.ts.Var(name, w)
	e.pathVars = append(e.pathVars, t)
	return t
}

// assume adds c to the path condition, ending the path when it is unsatisfiable.
func (e *Engine) assume(c *Term) {
	switch c.Op {
	case OpTrue:
		return
	case OpFalse:
		panic(abort{kind: AbortInfeasible, msg: "assumption false"})
	}
	if v, ok := e.known[c]; ok {
		if v {
			return
		}
		panic(abort{kind: AbortInfeasible, msg: "assumption contradicts path"})
	}
	if e.ts.Eval(c, e.model) == 0 {
		r, m := e.solver.CheckWith(c, e.allVars(), true)
		e.Stats.Queries++
		switch r {
		case Unsat:
			panic(abort{kind: AbortInfeasible, msg: "assumption unsatisfiable"})
		case Unknown:
			e.Stats.SolverUnknown++
			panic(abort{kind: AbortSolver, msg: "solver unknown on assumption"})
		}
		e.model = m
	}
	e.addPC(c)
	e.known[c] = true
}

// check asserts c: a model of pc ∧ ¬c is a violation.
func (e *Engine) check(c *Term, msg string) {
	if c.Op == OpTrue {
		return
	}
	if v, ok := e.known[c]; ok && v {
		return
	}
	var m Model
	if e.ts.Eval(c, e.model) == 0 {
		m = e.model
	} else {
		r, m2 := e.solver.CheckWith(e.ts.BNot(c), e.allVars(), true)
		e.Stats.Queries++
		switch r {
		case Sat:
			m = m2
		case Unknown:
			e.Stats.SolverUnknown++
			panic(abort{kind: AbortSolver, msg: "solver unknown on assertion: " + msg})
		}
	}
	if m != nil {
		e.violation = &Violation{Kind: "assert", Msg: msg, Model: m}
		panic(abort{kind: AbortViolation, msg: msg})
	}
	e.addPC(c)
	e.known[c] = true
}

// ---------------------------------------------------------------------------------------------
// calls

func (e *Engine) call(caller *frame, pos token.Pos, fn V, args []V) V {
	if fn.K != KFunc {
		panic(fmt.Sprintf("call of non-function kind %d", fn.K))
	}
	switch f := fn.P.(type) {
	case nil:
		e.targetPanicStr("invalid memory address or nil pointer dereference (call of nil func)")
	case *ssa.Function:
		return e.callSSA(caller, pos, f, args, nil)
	case *Closure:
		return e.callSSA(caller, pos, f.Fn, args, f.Env)
	case *ssa.Builtin:
		return e.callBuiltin(caller, pos, f, args)
	case *HostFunc:
		return f.Fn(e, caller, args)
	}
	panic(fmt.Sprintf("cannot call %T", fn.P))
}

func (e *Engine) callSSA(caller *frame, pos token.Pos, fn *ssa.Function, args []V, env []V) V {
	info := e.info(fn)
	fr := &frame{e: e, caller: caller, fn: fn, info: info, callSite: pos}
	if len(e.overrides) > 0 && env == nil {
		if ov, ok := e.overrides[info.name]; ok {
			return e.call(caller, pos, ov, args)
		}
	}
	if info.intrinsic != nil && !e.skipIntrinsic {
		return info.intrinsic(e, fr, args)
	}
	e.skipIntrinsic = false
	if fn.Blocks == nil {
		e.unsupported("no code for function %s", fn)
	}
	if !info.checked {
		info.checked = true
		if fn.TypeParams().Len() > 0 && len(fn.TypeArgs()) == 0 {
			e.unsupported("generic function body %s not instantiated", fn)
		}
	}
	if fn.Synthetic == "package initializer" {
		if e.cfg.InitAllow != nil && !e.cfg.InitAllow(fn.Pkg.Pkg.Path()) {
			return V{}
		}
		// an initialiser that cannot be completed is recorded and abandoned
		defer func() {
			if r := recover(); r != nil {
				if a, ok := r.(abort); ok && a.kind == AbortUnsupported {
					e.InitWarnings = append(e.InitWarnings, fn.Pkg.Pkg.Path()+": "+a.msg)
					return
				}
				panic(r)
			}
		}()
	} else if denyCall(fn) && !denyExceptions(fn) {
		e.unsupported("call into non-modelled function %s", fn)
	}
	e.depth++
	if e.depth > e.cfg.MaxDepth {
		e.depth--
		panic(abort{kind: AbortDepthLimit, msg: "call depth exceeded in " + fn.String()})
	}
	prevTop := e.top
	e.top = fr
	defer func() { e.depth--; e.top = prevTop }()
	if e.cfg.Trace {
		fmt.Printf("%*s> %s\n", e.depth, "", fn)
	}
	fr.regs = make([]V, info.nregs)
	for i, p := range fn.Params {
		fr.regs[info.index[p]] = args[i]
	}
	for i, fv := range fn.FreeVars {
		fr.regs[info.index[fv]] = env[i]
	}
	for _, l := range fn.Locals {
		cell := new(V)
		fr.regs[info.index[l]] = vPtr(cell)
	}
	fr.block = fn.Blocks[0]
	for fr.block != nil {
		e.runFrame(fr)
	}
	return fr.result
}

func (e *Engine) runFrame(fr *frame) {
	defer func() {
		if fr.block == nil {
			return // normal return
		}
		r := recover()
		if a, ok := r.(abort); ok {
			panic(a) // engine aborts are not visible to the target
		}
		if hf, ok := r.(hostFailure); ok {
			panic(hf)
		}
		if _, ok := r.(targetPanic); !ok {
			// host-level failure inside the engine: surface with context
			panic(hostFailure{r, fmt.Sprintf("%s (block %d)", fr.fn, fr.block.Index)})
		}
		fr.panicking = true
		fr.panicVal = r
		fr.runDefers()
		fr.block = fr.fn.Recover
		if fr.block == nil {
			// recovered in a function without named results: return zero values
			fr.result = zero(fr.fn.Signature.Results())
			if fr.fn.Signature.Results().Len() == 0 {
				fr.result = V{}
			}
		}
	}()
	for {
		fr.executePhis()
		instrs := fr.block.Instrs
		for i := 0; i < len(instrs); i++ {
			ins := instrs[i]
			if _, ok := ins.(*ssa.Phi); ok {
				continue
			}
			e.steps++
			if e.steps > e.cfg.MaxSteps {
				panic(abort{kind: AbortStepLimit, msg: fmt.Sprintf("step limit %d exceeded in %s", e.cfg.MaxSteps, fr.fn)})
			}
			switch e.visit(fr, ins) {
			case kReturn:
				return
			case kJump:
				i = len(instrs)
			}
		}
	}
}

type hostFailure struct {
	v     any
	where string
}

func (h hostFailure) String() string { return fmt.Sprintf("engine failure in %s: %v", h.where, h.v) }

func (fr *frame) executePhis() {
	instrs := fr.block.Instrs
	if _, ok := instrs[0].(*ssa.Phi); !ok {
		return
	}
	predIndex := -1
	for i, p := range fr.block.Preds {
		if p == fr.prev {
			predIndex = i
			break
		}
	}
	fr.phitemps = fr.phitemps[:0]
	n := 0
	for _, ins := range instrs {
		phi, ok := ins.(*ssa.Phi)
		if !ok {
			break
		}
		fr.phitemps = append(fr.phitemps, fr.get(phi.Edges[predIndex]))
		n++
	}
	for i := 0; i < n; i++ {
		fr.set(instrs[i].(*ssa.Phi), fr.phitemps[i])
	}
}

func (fr *frame) runDefer(d *deferred) {
	var ok bool
	defer func() {
		if !ok {
			r := recover()
			if a, isAbort := r.(abort); isAbort {
				panic(a)
			}
			if hf, isHF := r.(hostFailure); isHF {
				panic(hf)
			}
			fr.panicking = true
			fr.panicVal = r
		}
	}()
	fr.e.call(fr, d.instr.Pos(), d.fn, d.args)
	ok = true
}

func (fr *frame) runDefers() {
	for d := fr.defers; d != nil; d = d.tail {
		fr.runDefer(d)
	}
	fr.defers = nil
	if fr.panicking {
		panic(fr.panicVal)
	}
}

func (e *Engine) doRecover(caller *frame) V {
	if caller != nil && !caller.panicking && caller.caller != nil && caller.caller.panicking {
		caller.caller.panicking = false
		p := caller.caller.panicVal
		caller.caller.panicVal = nil
		switch p := p.(type) {
		case targetPanic:
			return p.v
		default:
			panic(fmt.Sprintf("unexpected panic value %T in recover", p))
		}
	}
	return vNilIface()
}

type continuation int

const (
	kNext continuation = iota
	kReturn
	kJump
)

func (e *Engine) prepareCall(fr *frame, call *ssa.CallCommon) (fn V, args []V) {
	v := fr.get(call.Value)
	if call.Method == nil {
		fn = v
		args = make([]V, 0, len(call.Args))
	} else {
		recv := v.iface()
		if recv == nil {
			e.targetPanicStr("invalid memory address or nil pointer dereference")
		}
		if st, ok := recv.V.P.(*EnvStub); ok && recv.V.K == KOpaque {
			fn = V{K: KFunc, P: st.method(call.Method)}
			args = make([]V, 0, len(call.Args)+1)
			args = append(args, recv.V)
		} else if ho, ok := recv.V.P.(hostObject); ok && recv.V.K == KOpaque {
			hf := ho.hostMethod(e, call.Method.Name())
			inner := hf.Fn
			fn = V{K: KFunc, P: &HostFunc{Name: hf.Name, Fn: func(e *Engine, fr *frame, a []V) V { return inner(e, fr, a[1:]) }}}
			args = make([]V, 0, len(call.Args)+1)
			args = append(args, recv.V)
		} else {
			f := e.lookupMethod(recv.T, call.Method)
			if f == nil {
				panic(fmt.Sprintf("method set for dynamic type %v does not contain %s", recv.T, call.Method))
			}
			fn = V{K: KFunc, P: f}
			args = make([]V, 0, len(call.Args)+1)
			args = append(args, recv.V)
		}
	}
	for _, a := range call.Args {
		args = append(args, fr.get(a))
	}
	return
}

func (e *Engine) lookupMethod(t types.Type, m *types.Func) *ssa.Function {
	return e.prog.LookupMethod(t, m.Pkg(), m.Name())
}

func (e *Engine) loadSym(t types.Type, x V) V {
	se := x.P.(*symElem)
	return e.selectElem(se.s, se.idx, t)
}

func (e *Engine) load(t types.Type, p *V) V {
	if p == nil {
		e.targetPanicStr("invalid memory address or nil pointer dereference")
	}
	return copyVal(*p)
}

func (e *Engine) visit(fr *frame, instr ssa.Instruction) continuation {
	switch instr := instr.(type) {
	case *ssa.DebugRef:

	case *ssa.UnOp:
		fr.set(instr, e.unop(instr, fr.get(instr.X)))

	case *ssa.BinOp:
		fr.set(instr, e.binop(instr.Op, instr.X.Type(), instr.Y.Type(), fr.get(instr.X), fr.get(instr.Y)))

	case *ssa.Call:
		fn, args := e.prepareCall(fr, &instr.Call)
		fr.set(instr, e.call(fr, instr.Pos(), fn, args))

	case *ssa.ChangeInterface:
		fr.set(instr, fr.get(instr.X))

	case *ssa.ChangeType:
		fr.set(instr, fr.get(instr.X))

	case *ssa.Convert:
		fr.set(instr, e.conv(instr.Type(), instr.X.Type(), fr.get(instr.X)))

	case *ssa.MultiConvert:
		fr.set(instr, e.conv(instr.Type(), instr.X.Type(), fr.get(instr.X)))

	case *ssa.SliceToArrayPointer:
		x := fr.get(instr.X)
		n := deref(instr.Type()).Underlying().(*types.Array).Len()
		s := x.slice()
		if int64(len(s)) < n {
			e.targetPanicStr(fmt.Sprintf("cannot convert slice with length %d to array or pointer to array with length %d", len(s), n))
		}
		if s == nil {
			fr.set(instr, V{K: KPtr, P: (*V)(nil)})
		} else {
			cell := &V{K: KArray, P: s[:n:n]}
			fr.set(instr, vPtr(cell))
		}

	case *ssa.MakeInterface:
		fr.set(instr, vIface(instr.X.Type(), copyVal(fr.get(instr.X))))

	case *ssa.Extract:
		fr.set(instr, fr.get(instr.Tuple).P.([]V)[instr.Index])

	case *ssa.Slice:
		fr.set(instr, e.sliceOp(instr, fr.get(instr.X), fr.get(instr.Low), fr.get(instr.High), fr.get(instr.Max)))

	case *ssa.Return:
		switch len(instr.Results) {
		case 0:
			fr.result = V{}
		case 1:
			fr.result = fr.get(instr.Results[0])
		default:
			res := make([]V, len(instr.Results))
			for i, r := range instr.Results {
				res[i] = fr.get(r)
			}
			fr.result = V{K: KTuple, P: res}
		}
		fr.block = nil
		return kReturn

	case *ssa.RunDefers:
		fr.runDefers()

	case *ssa.Panic:
		panic(targetPanic{fr.get(instr.X)})

	case *ssa.Send:
		e.chanSend(fr, fr.get(instr.Chan), fr.get(instr.X))

	case *ssa.Store:
		p := fr.get(instr.Addr).ptr()
		if p == nil {
			e.targetPanicStr("invalid memory address or nil pointer dereference")
		}
		e.storeInto(p, fr.get(instr.Val))

	case *ssa.If:
		cv := fr.get(instr.Cond)
		if cv.K == KSym && !e.cfg.NoCoalesce {
			if e.coalescedIf(fr, instr, cv) {
				return kJump
			}
		}
		succ := 1
		if e.truth(cv) {
			succ = 0
		}
		fr.prev, fr.block = fr.block, fr.block.Succs[succ]
		return kJump

	case *ssa.Jump:
		fr.prev, fr.block = fr.block, fr.block.Succs[0]
		return kJump

	case *ssa.Defer:
		fn, args := e.prepareCall(fr, &instr.Call)
		defers := &fr.defers
		if instr.DeferStack != nil {
			if into := fr.get(instr.DeferStack); into.K == KDeferStack {
				defers = into.P.(**deferred)
			}
		}
		*defers = &deferred{fn: fn, args: args, instr: instr, tail: *defers}

	case *ssa.Go:
		fn, args := e.prepareCall(fr, &instr.Call)
		e.goStmt(fr, instr, fn, args)

	case *ssa.MakeChan:
		n := e.concInt(fr.get(instr.Size))
		c := &Chan{cap: int(n), elem: instr.Type().Underlying().(*types.Chan).Elem()}
		if e.rec != nil {
			e.recEvent(Event{Op: "makechan", Chan: e.recChan(c), Cap: int64(n)})
		}
		fr.set(instr, V{K: KChan, P: c})

	case *ssa.Alloc:
		t := deref(instr.Type())
		if instr.Heap {
			cell := new(V)
			*cell = zero(t)
			fr.set(instr, vPtr(cell))
		} else {
			p := fr.get(instr).ptr()
			*p = zero(t)
		}

	case *ssa.MakeSlice:
		ln := e.concMakeLen(fr.get(instr.Len), instr.Len.Type(), "len")
		cp := e.concMakeLen(fr.get(instr.Cap), instr.Cap.Type(), "cap")
		if ln > cp {
			e.targetPanicStr("makeslice: cap out of range")
		}
		tElt := instr.Type().Underlying().(*types.Slice).Elem()
		s := make([]V, cp)
		if cp > 0 {
			z := zero(tElt)
			for i := range s {
				s[i] = copyVal(z)
			}
		}
		fr.set(instr, V{K: KSlice, P: s[:ln]})

	case *ssa.MakeMap:
		mt := instr.Type().Underlying().(*types.Map)
		if instr.Reserve != nil {
			r := fr.get(instr.Reserve)
			if r.K == KSym {
				// the size hint has no semantic effect; negative hints are ignored by make
				_ = r
			}
		}
		fr.set(instr, V{K: KMap, P: newMap(mt.Key(), mt.Elem())})

	case *ssa.Range:
		fr.set(instr, e.rangeIter(fr.get(instr.X), instr.X.Type()))

	case *ssa.Next:
		fr.set(instr, e.iterNext(fr, fr.get(instr.Iter)))

	case *ssa.FieldAddr:
		p := fr.get(instr.X).ptr()
		if p == nil {
			e.targetPanicStr("invalid memory address or nil pointer dereference")
		}
		fr.set(instr, vPtr(&p.P.([]V)[instr.Field]))

	case *ssa.Field:
		fr.set(instr, copyVal(fr.get(instr.X).P.([]V)[instr.Field]))

	case *ssa.IndexAddr:
		x := fr.get(instr.X)
		var s []V
		switch x.K {
		case KSlice:
			s = x.slice()
		case KPtr:
			p := x.ptr()
			if p == nil {
				e.targetPanicStr("invalid memory address or nil pointer dereference")
			}
			s = p.P.([]V)
		default:
			panic(fmt.Sprintf("IndexAddr on kind %d", x.K))
		}
		idx := fr.get(instr.Index)
		if idx.K == KSym && len(s) > 1 && onlyLoaded(instr) && allScalar(s) {
			e.boundsCheck(idx.term(), len(s))
			fr.set(instr, V{K: KSymElem, P: &symElem{s: s, idx: idx.term()}})
			break
		}
		i := e.index(idx, instr.Index.Type(), len(s))
		fr.set(instr, vPtr(&s[i]))

	case *ssa.Index:
		x := fr.get(instr.X)
		switch x.K {
		case KArray:
			s := x.P.([]V)
			idx := fr.get(instr.Index)
			if idx.K == KSym && len(s) > 1 && allScalar(s) {
				e.boundsCheck(idx.term(), len(s))
				fr.set(instr, e.selectElem(s, idx.term(), instr.Type()))
				break
			}
			i := e.index(idx, instr.Index.Type(), len(s))
			fr.set(instr, copyVal(s[i]))
		case KStr, KSymStr:
			fr.set(instr, e.strIndex(x, fr.get(instr.Index), instr.Index.Type()))
		default:
			panic(fmt.Sprintf("Index on kind %d", x.K))
		}

	case *ssa.Lookup:
		fr.set(instr, e.lookup(instr, fr.get(instr.X), fr.get(instr.Index)))

	case *ssa.MapUpdate:
		m := fr.get(instr.Map).mapv()
		e.mapInsert(m, fr.get(instr.Key), fr.get(instr.Value))

	case *ssa.TypeAssert:
		fr.set(instr, e.typeAssert(instr, fr.get(instr.X)))

	case *ssa.MakeClosure:
		bindings := make([]V, len(instr.Bindings))
		for i, b := range instr.Bindings {
			bindings[i] = fr.get(b)
		}
		fr.set(instr, V{K: KFunc, P: &Closure{Fn: instr.Fn.(*ssa.Function), Env: bindings}})

	case *ssa.Select:
		fr.set(instr, e.selectOp(fr, instr))

	default:
		panic(fmt.Sprintf("unexpected instruction: %T", instr))
	}
	return kNext
}

// inspect is called before the contents of a symbolic string are examined.
func (e *Engine) inspect(ss *SymStr) {
	if false && ss.Opaque {
		e.unsupported("contents of an opaque (formatted from symbolic operands) string are inspected")
	}
}

// index bounds-checks and concretises an index.
func (e *Engine) index(idx V, t types.Type, n int) int {
	if idx.K == KInt {
		i := int64(idx.N)
		_, signed, _ := basicInfo(t)
		if !signed && idx.N > uint64(n) {
			i = -1
		}
		if i < 0 || i >= int64(n) {
			e.targetPanicStr(fmt.Sprintf("index out of range [%d] with length %d", i, n))
		}
		return int(i)
	}
	tm := idx.term()
	e.boundsCheck(tm, n)
	return int(e.concretize(tm))
}

// boundsCheck forks on 0 <= idx < n; the out-of-range side panics.
func (e *Engine) boundsCheck(tm *Term, n int) {
	if uint64(n) > mask(tm.W) {
		return // every value of this width is in range
	}
	inRange := e.ts.Cmp(OpUlt, tm, e.ts.Const(uint64(n), tm.W))
	if !e.branch(inRange) {
		e.targetPanicStr(fmt.Sprintf("index out of range [symbolic] with length %d", n))
	}
}

// symElem is the address of s[idx] for a symbolic idx; it can only be loaded from.
type symElem struct {
	s   []V
	idx *Term
}

func onlyLoaded(instr *ssa.IndexAddr) bool {
	refs := instr.Referrers()
	if refs == nil || len(*refs) == 0 {
		return false
	}
	for _, r := range *refs {
		u, ok := r.(*ssa.UnOp)
		if !ok || u.Op != token.MUL {
			if _, isDbg := r.(*ssa.DebugRef); isDbg {
				continue
			}
			return false
		}
	}
	return true
}

func allScalar(s []V) bool {
	if len(s) > 4096 {
		return false
	}
	for _, x := range s {
		if x.K != KInt && x.K != KSym {
			return false
		}
	}
	return true
}

// selectElem builds ite(idx==0, s[0], ite(idx==1, s[1], ...)) for scalar elements.
func (e *Engine) selectElem(s []V, idx *Term, elemT types.Type) V {
	w, signed, ok := basicInfo(elemT)
	if !ok {
		panic("selectElem: element type " + elemT.String())
	}
	n := len(s)
	if uint64(n-1) > mask(idx.W) {
		n = int(mask(idx.W)) + 1
	}
	// run-length grouping: consecutive indices holding the same value share one range test
	type run struct {
		hi int
		t  *Term
	}
	var runs []run
	for i := 0; i < n; i++ {
		t := e.toTermW(s[i], w)
		if len(runs) > 0 && runs[len(runs)-1].t == t {
			runs[len(runs)-1].hi = i
			continue
		}
		runs = append(runs, run{i, t})
	}
	res := runs[len(runs)-1].t
	for k := len(runs) - 2; k >= 0; k-- {
		// runs are tested in ascending order, so idx <= hi suffices
		res = e.ts.Ite(e.ts.Cmp(OpUle, idx, e.ts.Const(uint64(runs[k].hi), idx.W)), runs[k].t, res)
	}
	return e.fromTerm(res, signed)
}

const hugeAlloc = 1 << 24

func (e *Engine) concMakeLen(v V, t types.Type, what string) int {
	w, signed, _ := basicInfo(t)
	if v.K == KSym {
		tm := v.term()
		// negative or huge -> panic / huge allocation
		lim := e.ts.Const(hugeAlloc, tm.W)
		ok := e.ts.Cmp(OpUlt, tm, lim)
		if !e.branch(ok) {
			if signed && e.branch(e.ts.Cmp(OpSlt, tm, e.ts.Const(0, tm.W))) {
				e.targetPanicStr("makeslice: " + what + " out of range")
			}
			panic(abort{kind: AbortUnsupported, msg: "hugealloc: allocation with a symbolic size >= 2^24"})
		}
		return int(e.concretize(tm))
	}
	n := int64(norm(v.N, w, signed))
	if n < 0 {
		e.targetPanicStr("makeslice: " + what + " out of range")
	}
	if n > 1<<28 {
		panic(abort{kind: AbortUnsupported, msg: fmt.Sprintf("hugealloc: allocation of %d elements", n)})
	}
	return int(n)
}

// coalescedIf merges a chain of conditional branches that share one target into a single
// decision: `if c1 goto T; if c2 goto T; ... else F` becomes `if c1||c2||... goto T else F`
// (and dually for a common false target). The intermediate blocks must be pure (comparisons
// and arithmetic on already computed registers), reachable only through the chain, and the
// shared target must not distinguish the merged edges in its phi nodes. This removes forks
// that differ only in *which* alternative of a multi-value case matched.
func (e *Engine) coalescedIf(fr *frame, first *ssa.If, firstCond V) bool {
	for _, side := range [2]int{0, 1} { // side = index of the common successor
		other := 1 - side
		common := fr.block.Succs[side]
		chain := []*ssa.BasicBlock{fr.block}
		conds := []*Term{firstCond.term()}
		cur := fr.block.Succs[other]
		last := fr.block
		for {
			if cur == common || len(cur.Preds) != 1 || len(cur.Instrs) == 0 {
				break
			}
			nif, ok := cur.Instrs[len(cur.Instrs)-1].(*ssa.If)
			if !ok || cur.Succs[side] != common {
				break
			}
			if !pureBlock(cur) {
				break
			}
			// evaluate the pure instructions speculatively
			okEval := true
			func() {
				defer func() {
					if r := recover(); r != nil {
						if _, isAbort := r.(abort); isAbort {
							panic(r)
						}
						okEval = false
					}
				}()
				for _, ins := range cur.Instrs[:len(cur.Instrs)-1] {
					switch ins := ins.(type) {
					case *ssa.BinOp:
						fr.set(ins, e.binop(ins.Op, ins.X.Type(), ins.Y.Type(), fr.get(ins.X), fr.get(ins.Y)))
					case *ssa.UnOp:
						fr.set(ins, e.unop(ins, fr.get(ins.X)))
					case *ssa.Convert:
						fr.set(ins, e.conv(ins.Type(), ins.X.Type(), fr.get(ins.X)))
					}
				}
			}()
			if !okEval {
				break
			}
			c := fr.get(nif.Cond)
			var ct *Term
			switch c.K {
			case KSym:
				ct = c.term()
			case KInt:
				ct = e.ts.Bool(c.N != 0)
			default:
				okEval = false
			}
			if !okEval {
				break
			}
			chain = append(chain, cur)
			conds = append(conds, ct)
			last = cur
			cur = cur.Succs[other]
		}
		if len(chain) < 2 {
			continue
		}
		if !phisAgree(common, chain) {
			continue
		}
		// combined condition for taking the common successor
		var comb *Term
		if side == 0 {
			comb = e.ts.False
			for _, c := range conds {
				comb = e.ts.BOr(comb, c)
			}
		} else {
			comb = e.ts.False
			for _, c := range conds {
				comb = e.ts.BOr(comb, e.ts.BNot(c))
			}
		}
		e.steps += int64(len(chain))
		if e.branch(comb) {
			fr.prev, fr.block = chain[0], common
		} else {
			// none of the alternatives matched: continue after the chain. Record the individual
			// facts so that later identical conditions are decided without queries.
			for _, c := range conds {
				if side == 0 {
					e.known[c] = false
				} else {
					e.known[c] = true
				}
			}
			fr.prev, fr.block = last, cur
		}
		return true
	}
	return false
}

// pureBlock reports whether all instructions before the final If are side-effect free
// register computations that cannot panic.
func pureBlock(b *ssa.BasicBlock) bool {
	for _, ins := range b.Instrs[:len(b.Instrs)-1] {
		switch ins := ins.(type) {
		case *ssa.BinOp:
			switch ins.Op {
			case token.QUO, token.REM, token.SHL, token.SHR:
				return false // may panic (division by zero, negative shift)
			}
			if _, _, ok := basicInfo(ins.X.Type()); !ok && !isStringType(ins.X.Type()) {
				return false
			}
		case *ssa.UnOp:
			if ins.Op != token.NOT && ins.Op != token.SUB && ins.Op != token.XOR {
				return false
			}
		case *ssa.Convert:
			if _, _, ok := basicInfo(ins.X.Type()); !ok {
				return false
			}
			if _, _, ok := basicInfo(ins.Type()); !ok {
				return false
			}
		case *ssa.DebugRef:
		default:
			return false
		}
	}
	return true
}

// phisAgree reports whether every phi of target takes the same value from all chain blocks.
func phisAgree(target *ssa.BasicBlock, chain []*ssa.BasicBlock) bool {
	for _, ins := range target.Instrs {
		phi, ok := ins.(*ssa.Phi)
		if !ok {
			break
		}
		var ref ssa.Value
		have := false
		for i, p := range target.Preds {
			in := false
			for _, c := range chain {
				if c == p {
					in = true
				}
			}
			if !in {
				continue
			}
			v := phi.Edges[i]
			if !have {
				ref, have = v, true
				continue
			}
			if v == ref {
				continue
			}
			c1, ok1 := v.(*ssa.Const)
			c2, ok2 := ref.(*ssa.Const)
			if ok1 && ok2 && c1.Value != nil && c2.Value != nil && types.Identical(c1.Type(), c2.Type()) && constant.Compare(c1.Value, token.EQL, c2.Value) {
				continue
			}
			return false
		}
	}
	return true
}

// callSSANoIntrinsic interprets the body of the named function even though an intrinsic is
// registered for it (used by intrinsics that only handle symbolic operands).
func (e *Engine) callSSANoIntrinsic(fr *frame, name string, args []V) V {
	fn := e.lookupFunc(name)
	if fn == nil {
		e.unsupported("function %s not found", name)
	}
	e.skipIntrinsic = true
	return e.callSSA(fr.caller, fr.callSite, fn, args, nil)
}

// lookupFunc finds a package-level function by its full name ("pkg/path.Name").
func (e *Engine) lookupFunc(name string) *ssa.Function {
	if e.funcByName == nil {
		e.funcByName = map[string]*ssa.Function{}
	}
	if f, ok := e.funcByName[name]; ok {
		return f
	}
	i := strings.LastIndexByte(name, '.')
	f := FindFunc(e.prog, name[:i], name[i+1:])
	e.funcByName[name] = f
	return f
}

// tryConcretize forks over the feasible values of t when there are at most limit of them;
// otherwise nothing is decided and ok is false.
func (e *Engine) tryConcretize(t *Term, limit int) (val uint64, ok bool) {
	if t.Op == OpConst {
		return t.K, true
	}
	if e.pos < len(e.prefix) {
		// replaying: the recorded decision tells whether the fork happened
		if e.prefix[e.pos].Kind == 2 {
			e.decisions = append(e.decisions, e.prefix[e.pos])
			e.pos++
			return 0, false
		}
		return e.concretize(t), true
	}
	saved := e.cfg.MaxFork
	nItems := len(e.newItems)
	cfg := *e.cfg
	cfg.MaxFork = limit
	e.cfg = &cfg
	defer func() {
		cfg2 := *e.cfg
		cfg2.MaxFork = saved
		e.cfg = &cfg2
		if r := recover(); r != nil {
			if a, isAbort := r.(abort); isAbort && a.kind == AbortForkLimit {
				e.newItems = e.newItems[:nItems]
				e.decisions = append(e.decisions, Decision{Kind: 2})
				val, ok = 0, false
				return
			}
			panic(r)
		}
	}()
	return e.concretize(t), true
}
