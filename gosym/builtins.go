package gosym

import (
	"fmt"
	"go/token"
	"go/types"
	"unsafe"

	"golang.org/x/tools/go/ssa"
)

func (e *Engine) callBuiltin(caller *frame, pos token.Pos, fn *ssa.Builtin, args []V) V {
	switch fn.Name() {
	case "append":
		return e.appendOp(args[0], args[1])

	case "copy":
		dst := args[0].slice()
		var src []V
		switch args[1].K {
		case KSlice:
			src = args[1].slice()
		case KStr, KSymStr:
			if args[1].K == KSymStr {
				e.inspect(args[1].P.(*SymStr))
			}
			src = strBytes(args[1])
		}
		n := len(dst)
		if len(src) < n {
			n = len(src)
		}
		// overlapping copy semantics: memmove
		if n > 0 && len(dst) > 0 && len(src) > 0 && &dst[0] != &src[0] {
			tmp := make([]V, n)
			for i := 0; i < n; i++ {
				tmp[i] = copyVal(src[i])
			}
			for i := 0; i < n; i++ {
				e.storeInto(&dst[i], tmp[i])
			}
		}
		return vInt(int64(n))

	case "close":
		e.chanClose(args[0])
		return V{}

	case "delete":
		e.mapDelete(args[0].mapv(), args[1])
		return V{}

	case "clear":
		switch args[0].K {
		case KMap:
			e.mapClear(args[0].mapv())
		case KSlice:
			s := args[0].slice()
			if len(s) > 0 {
				elem := fn.Type().(*types.Signature).Params().At(0).Type().Underlying().(*types.Slice).Elem()
				z := zero(elem)
				for i := range s {
					e.storeInto(&s[i], z)
				}
			}
		}
		return V{}

	case "print", "println":
		return V{}

	case "len":
		switch x := args[0]; x.K {
		case KStr, KSymStr:
			if isOpaqueStr(x) {
				// the real length is unknown: an unconstrained non-negative value (over-approximation)
				v := e.freshVar("opaquelen", 64)
				e.assume(e.ts.Cmp(OpUle, v, e.ts.Const(1<<16, 64)))
				return vSym(v)
			}
			return vInt(int64(strLen(x)))
		case KArray:
			return vInt(int64(len(x.P.([]V))))
		case KPtr:
			p := x.ptr()
			if p == nil {
				// len of nil *array is the array length: take it from the type
				at := deref(fn.Type().(*types.Signature).Params().At(0).Type()).Underlying().(*types.Array)
				return vInt(at.Len())
			}
			return vInt(int64(len(p.P.([]V))))
		case KSlice:
			return vInt(int64(len(x.slice())))
		case KMap:
			return vInt(int64(x.mapv().Len()))
		case KChan:
			c, _ := x.P.(*Chan)
			if c == nil {
				return vInt(0)
			}
			return vInt(int64(len(c.buf)))
		}
		panic(fmt.Sprintf("len of kind %d", args[0].K))

	case "cap":
		switch x := args[0]; x.K {
		case KArray:
			return vInt(int64(len(x.P.([]V))))
		case KPtr:
			p := x.ptr()
			if p == nil {
				at := deref(fn.Type().(*types.Signature).Params().At(0).Type()).Underlying().(*types.Array)
				return vInt(at.Len())
			}
			return vInt(int64(len(p.P.([]V))))
		case KSlice:
			return vInt(int64(cap(x.slice())))
		case KChan:
			c, _ := x.P.(*Chan)
			if c == nil {
				return vInt(0)
			}
			return vInt(int64(c.cap))
		}
		panic(fmt.Sprintf("cap of kind %d", args[0].K))

	case "min", "max":
		sig := fn.Type().(*types.Signature)
		t := sig.Params().At(0).Type()
		res := args[0]
		for _, a := range args[1:] {
			var less V
			if fn.Name() == "min" {
				less = e.binop(token.LSS, t, t, a, res)
			} else {
				less = e.binop(token.GTR, t, t, a, res)
			}
			if less.K == KInt {
				if less.N != 0 {
					res = a
				}
			} else if res.K == KStr || res.K == KSymStr || res.K == KFloat || res.K == KSymFloat {
				if e.truth(less) {
					res = a
				}
			} else {
				w, signed, _ := basicInfo(t)
				res = e.fromTerm(e.ts.Ite(less.term(), e.toTermW(a, w), e.toTermW(res, w)), signed)
			}
		}
		return res

	case "real":
		return vFloat(real(args[0].P.(complex128)))
	case "imag":
		return vFloat(imag(args[0].P.(complex128)))
	case "complex":
		return V{K: KComplex, P: complex(args[0].float(), args[1].float())}

	case "panic":
		panic(targetPanic{args[0]})

	case "recover":
		return e.doRecover(caller)

	case "ssa:wrapnilchk":
		recv := args[0]
		if recv.K == KPtr && recv.ptr() == nil {
			recvType, _ := concStr(args[1])
			methodName, _ := concStr(args[2])
			panic(targetPanic{e.runtimeError(fmt.Sprintf("value method %s.%s called using nil *%s pointer", recvType, methodName, recvType))})
		}
		return recv

	case "ssa:deferstack":
		return V{K: KDeferStack, P: &caller.defers}

	// unsafe builtins
	case "String": // unsafe.String(ptr *byte, len IntegerType) string
		p := args[0].ptr()
		n := int(e.concInt(args[1]))
		if n == 0 {
			return vStr("")
		}
		if p == nil {
			e.targetPanicStr("unsafe.String: ptr is nil and len is not zero")
		}
		return mkStr(unsafe.Slice(p, n))
	case "StringData": // unsafe.StringData(str string) *byte
		b := strBytes(args[0])
		if len(b) == 0 {
			return V{K: KPtr, P: (*V)(nil)}
		}
		cp := make([]V, len(b))
		copy(cp, b)
		return vPtr(&cp[0])
	case "Slice": // unsafe.Slice(ptr *T, len) []T
		p := args[0].ptr()
		n := int(e.concInt(args[1]))
		if p == nil {
			if n == 0 {
				return V{K: KSlice, P: []V(nil)}
			}
			e.targetPanicStr("unsafe.Slice: ptr is nil and len is not zero")
		}
		return V{K: KSlice, P: unsafe.Slice(p, n)}
	case "SliceData":
		s := args[0].slice()
		if cap(s) == 0 {
			return V{K: KPtr, P: (*V)(nil)}
		}
		return vPtr(&s[:1][0])
	case "Add":
		e.unsupported("unsafe.Add")
	}
	panic("unknown built-in: " + fn.Name())
}

// appendOp implements append(s, t...) for slices and append([]byte, string...).
func (e *Engine) appendOp(s, t V) V {
	var add []V
	switch t.K {
	case KStr, KSymStr:
		if t.K == KSymStr {
			e.inspect(t.P.(*SymStr))
		}
		add = strBytes(t)
	case KSlice:
		add = t.slice()
	default:
		panic(fmt.Sprintf("append of kind %d", t.K))
	}
	dst := s.slice()
	if len(add) == 0 {
		return s
	}
	n := len(dst)
	if n+len(add) <= cap(dst) {
		out := dst[:n+len(add)]
		for i, x := range add {
			e.storeInto(&out[n+i], x)
		}
		return V{K: KSlice, P: out}
	}
	newcap := 2 * cap(dst)
	if newcap < n+len(add) {
		newcap = n + len(add)
	}
	if newcap < 4 {
		newcap = 4
	}
	out := make([]V, n+len(add), newcap)
	for i := 0; i < n; i++ {
		out[i] = copyVal(dst[i])
	}
	for i, x := range add {
		out[n+i] = copyVal(x)
	}
	// the spare capacity must hold zero values of the element type; they are only
	// observable after re-slicing, where a store overwrites them; leave KInvalid cells
	// replaced lazily by zeroFill.
	if newcap > len(out) && len(out) > 0 {
		z := zeroLike(out[0])
		spare := out[len(out):newcap]
		for i := range spare {
			spare[i] = copyVal(z)
		}
	}
	return V{K: KSlice, P: out}
}

// zeroLike returns a zero value with the same shape as v (used for spare slice capacity).
func zeroLike(v V) V {
	switch v.K {
	case KInt, KSym:
		return V{K: KInt}
	case KFloat, KSymFloat:
		return V{K: KFloat}
	case KStr, KSymStr:
		return vStr("")
	case KSlice:
		return V{K: KSlice, P: []V(nil)}
	case KPtr, KOpaque:
		return V{K: KPtr, P: (*V)(nil)}
	case KStruct, KArray:
		src := v.P.([]V)
		dst := make([]V, len(src))
		for i := range src {
			dst[i] = zeroLike(src[i])
		}
		return V{K: v.K, P: dst}
	case KMap:
		return V{K: KMap, P: (*Map)(nil)}
	case KIface:
		return V{K: KIface}
	case KFunc:
		return V{K: KFunc}
	case KChan:
		return V{K: KChan, P: (*Chan)(nil)}
	case KComplex:
		return V{K: KComplex, P: complex128(0)}
	}
	return V{}
}
