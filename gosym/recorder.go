package gosym

import (
	"fmt"
	"go/types"

	"golang.org/x/tools/go/ssa"
)

// Thread-modular recording mode (used by the concurrent encoder gosched): goroutine bodies
// are executed inline, channel / WaitGroup / select operations do not block and do not change
// any state; instead every *visible* operation is recorded as an event of the executing
// thread together with its nondeterministic outcome (select case, nil-ness of a received or
// returned error), the outcome being a forked decision. The per-thread event sequences of
// all paths are the thread programs from which the SMT transition system is built.

// Event is one visible operation of a thread.
type Event struct {
	Thread  int    `json:"thread"`
	Op      string `json:"op"` // makechan send recv select go wg.add wg.done wg.wait call return
	Chan    int    `json:"chan,omitempty"`
	Cap     int64  `json:"cap,omitempty"`
	Case    int    `json:"case"`             // select: chosen case (-1 default)
	Cases   []SelCase `json:"cases,omitempty"` // select: the alternatives
	Blocking bool   `json:"blocking,omitempty"`
	Name    string `json:"name,omitempty"` // call: callee label
	Phase   string `json:"phase,omitempty"` // call: begin | end
	Fail    bool   `json:"fail"`            // call end / recv / return: error result is non-nil
	Child   int    `json:"child,omitempty"` // go: thread id started
	N       int64  `json:"n,omitempty"`     // wg.add delta
	Job     int    `json:"job"`             // worker: index of the job (go event order)
}

type SelCase struct {
	Chan int  `json:"chan"`
	Send bool `json:"send"`
}

type recorder struct {
	events   []Event
	cur      int
	nthreads int
	chans    map[*Chan]int
	sharedWrites []string
	mainCells map[*V]bool
}

func (e *Engine) recChan(c *Chan) int {
	if id, ok := e.rec.chans[c]; ok {
		return id
	}
	id := len(e.rec.chans)
	e.rec.chans[c] = id
	return id
}

func (e *Engine) recEvent(ev Event) {
	ev.Thread = e.rec.cur
	e.rec.events = append(e.rec.events, ev)
}

// recGo runs the goroutine body inline as a new thread.
func (e *Engine) recGo(fr *frame, instr *ssa.Go, fn V, args []V) {
	id := e.rec.nthreads
	e.rec.nthreads++
	e.recEvent(Event{Op: "go", Child: id})
	saved := e.rec.cur
	e.rec.cur = id
	func() {
		defer func() {
			if r := recover(); r != nil {
				if tp, ok := r.(targetPanic); ok {
					e.recEvent(Event{Op: "panic", Name: panicString(tp.v)})
					e.rec.cur = saved
					return
				}
				e.rec.cur = saved
				panic(r)
			}
		}()
		e.call(nil, instr.Pos(), fn, args)
		e.recEvent(Event{Op: "return"})
	}()
	e.rec.cur = saved
}

func (e *Engine) recSend(ch V) {
	c, _ := ch.P.(*Chan)
	e.recEvent(Event{Op: "send", Chan: e.recChan(c)})
}

// recRecv records a receive; for channels of error type the nil-ness of the value is a forked outcome.
func (e *Engine) recRecv(ch V, commaOk bool, elem types.Type) V {
	c, _ := ch.P.(*Chan)
	v, fail := e.recValue(elem)
	e.recEvent(Event{Op: "recv", Chan: e.recChan(c), Fail: fail})
	if commaOk {
		return vTuple(v, vBool(true))
	}
	return v
}

// recValue produces a value received from the environment: errors are non-nil (a value sent
// on an error channel by the code under analysis is never nil here because sends are guarded);
// other types get their zero value.
func (e *Engine) recValue(t types.Type) (V, bool) {
	if it, ok := t.Underlying().(*types.Interface); ok && it.NumMethods() == 1 && it.Method(0).Name() == "Error" {
		return e.newErrorString(vStr("received error")), true
	}
	return zero(t), false
}

func (e *Engine) recSelect(fr *frame, instr *ssa.Select) V {
	var cases []SelCase
	for _, st := range instr.States {
		c, _ := fr.get(st.Chan).P.(*Chan)
		cases = append(cases, SelCase{Chan: e.recChan(c), Send: st.Dir == types.SendOnly})
	}
	n := len(instr.States)
	if !instr.Blocking {
		n++
	}
	choice := e.choose(n, "select")
	chosen := choice
	if !instr.Blocking && choice == len(instr.States) {
		chosen = -1
	}
	ev := Event{Op: "select", Case: chosen, Cases: cases, Blocking: instr.Blocking}
	var recv V
	recvOk := false
	if chosen >= 0 && instr.States[chosen].Dir == types.RecvOnly {
		elem := instr.States[chosen].Chan.Type().Underlying().(*types.Chan).Elem()
		recv, ev.Fail = e.recValue(elem)
		recvOk = true
	}
	e.recEvent(ev)
	return e.selectResult(instr, chosen, recvOk, recv)
}

// RecCall is used by harness stubs (through the intrinsic zzrt.EnvCall) to record an
// environment call with a forked failure outcome.
func (e *Engine) recCall(name string) bool {
	e.recEvent(Event{Op: "call", Name: name, Phase: "begin"})
	fail := e.truth(e.fromTerm(e.freshVar("fail_"+name, 0), false))
	e.recEvent(Event{Op: "call", Name: name, Phase: "end", Fail: fail})
	return fail
}

func init() {
	// zzrt.Record(on bool): switch the thread-modular recording mode on.
	reg("zzrt.Record", func(e *Engine, fr *frame, args []V) V {
		if args[0].N != 0 {
			e.rec = &recorder{nthreads: 1, chans: map[*Chan]int{}}
		} else {
			e.rec = nil
		}
		return V{}
	})
	// zzrt.EnvCall(name string) bool: an environment call; returns whether it fails.
	reg("zzrt.EnvCall", func(e *Engine, fr *frame, args []V) V {
		name := argStr(e, args[0], "EnvCall name")
		if e.rec == nil {
			return e.fromTerm(e.freshVar("fail_"+name, 0), false)
		}
		return vBool(e.recCall(name))
	})
	// zzrt.RecReturn(fail bool): the main thread's result.
	reg("zzrt.RecReturn", func(e *Engine, fr *frame, args []V) V {
		if e.rec != nil {
			e.recEvent(Event{Op: "return", Fail: e.truth(args[0])})
		}
		return V{}
	})
}

var _ = fmt.Sprint
