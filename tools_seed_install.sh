#!/bin/sh
# usage: tools_seed_install.sh <property-id> <scratch worktree>   -> copies <worktree>/zz_seed to seeded/<id>-<n> (next free n), prints the seed id
id=$1; wt=$2; n=2
[ -d /verif/seeded/$id ] || n=""
while [ -n "$n" ] && [ -d /verif/seeded/$id-$n ]; do n=$((n+1)); done
sid=$id${n:+-$n}
mkdir -p /verif/seeded/$sid && cp -r $wt/zz_seed/. /verif/seeded/$sid/ && echo $sid
