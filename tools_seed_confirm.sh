#!/bin/sh
# usage: tools_seed_confirm.sh <worktree> <demo-kind> <args...>
# confirms a seeded change: builds, runs the full suite with the change, runs the demo with and without it
export GOFLAGS=-mod=mod GOPROXY=off GOSUMDB=off GOTOOLCHAIN=local
WT=$1; KIND=$2; shift 2
cd $WT || exit 9
# start from the recorded patch only (seeders share one stash ref; a worktree may carry a foreign edit)
git checkout -q -- . && git apply zz_seed/patch.diff || { echo "patch.diff does not apply to HEAD"; exit 9; }
mkdir -p /tmp/zzseed.$$ && [ -f zz_seed/demo/main.go ] && mv zz_seed/demo/main.go /tmp/zzseed.$$/main.go
PKGS=./...
go build ./... || { echo "BUILD FAILED"; exit 1; }
go test -vet=off -count=1 $PKGS > /tmp/seedtest.$$ 2>&1; if grep -q "^FAIL\|^---  FAIL\|^--- FAIL" /tmp/seedtest.$$; then echo "SUITE FAILS WITH CHANGE"; grep "FAIL" /tmp/seedtest.$$ | head; exit 1; fi
[ -f /tmp/zzseed.$$/main.go ] && mv /tmp/zzseed.$$/main.go zz_seed/demo/main.go
echo "suite ok with change ($(grep -c '^ok' /tmp/seedtest.$$) packages ok)"; rm -f /tmp/seedtest.$$
rundemo() {
  case $KIND in
    gotest) cp zz_seed/$1 $2; go test -vet=off -count=1 -run "$3" $4 > /tmp/demo.$$ 2>&1; rc=$?; rm -f $2; tail -3 /tmp/demo.$$; return $rc;;
    script) bash $1 > /tmp/demo.$$ 2>&1; rc=$?; tail -3 /tmp/demo.$$; return $rc;;
  esac
}
rundemo "$@"; with=$?
git apply -R zz_seed/patch.diff || exit 9
rundemo "$@"; without=$?
git apply zz_seed/patch.diff
echo "demo exit with change: $with, without: $without"
[ $with -ne 0 ] && [ $without -eq 0 ] && echo CONFIRMED
