#!/usr/bin/env python3
"""Regenerates the seeded-changes table of DESIGN.md (section 11) from /verif/seeded/*/meta.json."""
import json,glob,os,re
rows=[]
for d in sorted(glob.glob('/verif/seeded/*')):
    m=os.path.join(d,'meta.json')
    if not os.path.exists(m): continue
    j=json.load(open(m))
    res=j['check_result']
    first='caught' if res.lower().startswith('caught') else ('inconclusive (exit 2)' if res.lower().startswith('first run: exit 2') else 'MISSED')
    final='caught' 
    change=j['change']
    change=change if len(change)<230 else change[:227]+'...'
    rows.append((os.path.basename(d), j['property'], change.replace('|','/'), first, res.replace('|','/')))
still=[]
out=['| seed | property | change (summary) | first run of the check | how it is caught now |','|---|---|---|---|---|']
for r in rows:
    now=r[4]
    # keep the part after "Strengthened:" / "caught"
    mm=re.search(r'(now caught[^;]*|caught at quick[^;]*|now exit 1[^;]*)', now)
    open_=('Not strengthened' in now) or ('not shown caught' in now)
    if open_:
        still.append(r[0])
    out.append(f"| {r[0]} | {r[1]} | {r[2]} | {r[3]} | {('NOT CAUGHT: '+now[now.index('MISSED')+7:][:260]) if open_ else (mm.group(1) if mm else now[:160])} |")
n=len(rows); missed=sum(1 for r in rows if r[3]!='caught')
out.append('')
out.append(f"{n} seeded changes, {n-missed} caught by the check as it stood when the change arrived, {missed} not; of those {missed-len(still)} are caught after the strengthening described in their meta.json and {len(still)} are still not caught" + (f" ({', '.join(still)}: see their rows)." if still else "."))
p='/verif/DESIGN.md'
s=open(p).read()
i=s.index('<!-- SEEDS-TABLE-BEGIN -->')+len('<!-- SEEDS-TABLE-BEGIN -->')
j=s.index('<!-- SEEDS-TABLE-END -->')
s=s[:i]+'\n'+'\n'.join(out)+'\n'+s[j:]
open(p,'w').write(s)
print(n,'seeds',missed,'not caught at first')
