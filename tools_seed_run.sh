#!/bin/sh
# usage: tools_seed_run.sh <prop-id> [tier]   applies /verif/seeded/<id>/patch.diff to /repo, runs the check, reverts
sid=$1; tier=${2:-quick}; id=${sid%%-*}   # seeded/C03-2 is a second seeded change for C03
cd /repo && git diff --quiet || { echo "/repo is dirty"; exit 9; }
git apply /verif/seeded/$sid/patch.diff || { echo "patch does not apply"; exit 9; }
cp /verif/evidence/$id.json /tmp/seed-evidence-$id.json 2>/dev/null   # the evidence file describes the unchanged tree: keep it
cd /verif && timeout 3000 ./check $id $tier > /tmp/seedrun-$sid.log 2>&1; rc=$?
cp /tmp/seed-evidence-$id.json /verif/evidence/$id.json 2>/dev/null
cd /repo && git checkout -- . 
echo "check $id $tier on seeded tree ($sid): exit $rc"; grep -m3 -A1 "VIOLATION\|INCONCLUSIVE" /tmp/seedrun-$sid.log | cut -c1-300
