#!/bin/sh
# usage: tools_seed_run.sh <seed-id> [tier]
# Runs the check of the seed's property against a scratch worktree of /repo that carries
# /verif/seeded/<seed-id>/patch.diff (VERIF_REPO points the check at it). /repo itself is not
# touched; the scratch worktree is removed afterwards; the evidence file of the unchanged tree
# is kept.  seeded/C03-2, C03-3 ... are further seeded changes for C03.
sid=$1; tier=${2:-quick}; id=${sid%%-*}
wt=/tmp/rs-$sid
git -C /repo worktree remove --force $wt 2>/dev/null
git -C /repo worktree add -q --detach $wt HEAD || exit 9
( cd $wt && git apply /verif/seeded/$sid/patch.diff ) || { echo "patch does not apply"; git -C /repo worktree remove --force $wt; exit 9; }
cp /verif/evidence/$id.json /tmp/seed-evidence-$sid.json 2>/dev/null
cd /verif && VERIF_REPO=$wt timeout 3000 ./check $id $tier > /tmp/seedrun-$sid.log 2>&1; rc=$?
cp /tmp/seed-evidence-$sid.json /verif/evidence/$id.json 2>/dev/null
git -C /repo worktree remove --force $wt; git -C /repo worktree prune
echo "check $id $tier on seeded tree ($sid): exit $rc"; grep -m3 -A1 "VIOLATION\|INCONCLUSIVE" /tmp/seedrun-$sid.log | cut -c1-300
