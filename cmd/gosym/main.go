// Command gosym runs one harness function symbolically (development driver).
package main

import (
	"encoding/json"
	"flag"
	"fmt"
	"os"
	"path/filepath"
	"strconv"
	"strings"
	"time"

	"verif/gosym"
)

func main() {
	dir := flag.String("dir", "/repo", "module directory to load")
	hdirs := flag.String("harness", "", "comma separated harness directories (files carry //zz:target <dir>)")
	pkg := flag.String("pkg", "", "package path of the harness function")
	fn := flag.String("func", "", "harness function name")
	argsS := flag.String("args", "", "comma separated integer arguments")
	workers := flag.Int("workers", 4, "parallel engines")
	maxSteps := flag.Int64("maxsteps", 20000000, "step bound per path")
	maxPaths := flag.Int64("maxpaths", 0, "path bound")
	solver := flag.String("solver", "z3", "z3 | z3-new | cvc5")
	trace := flag.Bool("trace", false, "trace calls")
	timeout := flag.Duration("timeout", 0, "wall clock budget")
	flag.Parse()

	overlay := map[string][]byte{}
	for _, d := range append([]string{"/verif/harness/zzrt"}, strings.Split(*hdirs, ",")...) {
		if d == "" {
			continue
		}
		if err := gosym.AddOverlayDir(overlay, *dir, d); err != nil {
			fmt.Fprintln(os.Stderr, err)
			os.Exit(2)
		}
	}
	t0 := time.Now()
	prog, err := gosym.Load(*dir, overlay, []string{*pkg}, []string{"GOFLAGS=-mod=mod", "GOPROXY=off", "GOSUMDB=off", "GOTOOLCHAIN=local"})
	if err != nil {
		fmt.Fprintln(os.Stderr, err)
		os.Exit(2)
	}
	fmt.Fprintf(os.Stderr, "loaded in %v\n", time.Since(t0))
	f := gosym.FindFunc(prog.Prog, *pkg, *fn)
	if f == nil {
		fmt.Fprintf(os.Stderr, "function %s.%s not found\n", *pkg, *fn)
		os.Exit(2)
	}
	var args []int64
	for _, a := range strings.Split(*argsS, ",") {
		if a == "" {
			continue
		}
		n, err := strconv.ParseInt(a, 10, 64)
		if err != nil {
			fmt.Fprintln(os.Stderr, err)
			os.Exit(2)
		}
		args = append(args, n)
	}
	cfg := &gosym.Config{MaxSteps: *maxSteps, MaxDepth: 5000, MaxFork: 64, SolverKind: *solver, TimeoutMs: 30000, Trace: *trace, InitAllow: gosym.DefaultInitAllow}
	t0 = time.Now()
	pool, err := gosym.NewPool(prog.Prog, cfg, prog.Pkgs, *workers)
	if err != nil {
		fmt.Fprintln(os.Stderr, err)
		os.Exit(2)
	}
	defer pool.Close()
	fmt.Fprintf(os.Stderr, "engines initialised in %v\n", time.Since(t0))
	opts := gosym.ExploreOpts{Workers: *workers, MaxPaths: *maxPaths, MaxViolations: 5}
	if *timeout > 0 {
		opts.Deadline = time.Now().Add(*timeout)
	}
	res := pool.Explore(f, args, opts)
	b, _ := json.MarshalIndent(res, "", " ")
	fmt.Println(string(b))
	_ = filepath.Join
}
