package main

func init() {
	scope := &Prop{
		ID: "C07", Label: "go-backend", HarnessDirs: []string{"c07"}, Pkg: tgPath + "generator/golang", RealMeta: true,
		Diff: []string{"D_C07_digest"},
		Harnesses: []Harness{
			{Func: "H_C07_scope", Quick: [][]int64{{0, 1, 0}, {1, 1, 0}, {2, 1, 0}, {0, 1, 1}}, Thorough: [][]int64{{0, 1, 0}, {1, 1, 0}, {2, 1, 0}, {0, 1, 1}, {1, 1, 1}, {0, 2, 0}, {1, 2, 0}, {2, 2, 0}}, Covers: []string{"end"}, NativeRetries: 40},
		},
	}
	fast := &Prop{
		ID: "C07", Label: "fastgo", HarnessDirs: []string{"c07f"}, Pkg: tgPath + "generator/fastgo",
		Diff: []string{"D_C07_fastgo"},
		Harnesses: []Harness{
			{Func: "H_C07_fastgo", Quick: [][]int64{{0, 1}}, Thorough: [][]int64{{0, 1}, {0, 2}}, Covers: []string{"end"}, NativeRetries: 40},
		},
	}
	req := &Prop{
		ID: "C07", Label: "plugin-request", HarnessDirs: []string{"c07p"}, Pkg: tgPath + "plugin",
		Harnesses: []Harness{
			{Func: "H_C07_request", Quick: modes(1), Thorough: modes(1, 2), Covers: []string{"end"}, NativeRetries: 40},
		},
	}
	patch := &Prop{
		ID: "C07", Label: "patches", HarnessDirs: []string{"c07g"}, Pkg: tgPath + "generator",
		Diff: []string{"D_C07_patches"},
		Harnesses: []Harness{
			{Func: "H_C07_patches", Quick: modes(1, 2), Thorough: modes(1, 2, 3), Covers: []string{"end"}, NativeRetries: 40},
			{Func: "H_C07_paths", Quick: modes(2, 3, 4), Thorough: modes(2, 3, 4, 5), Covers: []string{"end"}},
		},
	}
	sched := &Prop{
		ID: "C07", Label: "persist-schedules", HarnessDirs: []string{"c19"}, Pkg: tgPath + "generator",
		ExtraNative: map[string]string{"c19replay": "ZZReplayC19()"},
		Custom:      runC19, SchedMaxJ: 2,
	}
	all := []*Prop{scope, fast, req, patch, sched}
	top := &Prop{ID: "C07", Variants: all,
		Bounds: "map iteration: every map range of the executed code may iterate in a perturbed order chosen by decision variables, at most B ranges per path (quick B=1; thorough B=2 for the small programs): a perturbed range of <=3 entries takes any other permutation, a larger one an adjacent transposition, the reversal or a rotation; programs: 3 designed programs for the Go backend's scope/naming/import/constant/descriptor computation (with and without with_reflection), one three-file program for the whole fastgo generation (no_fmt), one three-file program for the plugin request bytes (with and without include compression), one patch history; 2..4 (thorough 5) colliding submissions split over Feed calls in every way must leave pairwise distinct paths; schedules: every interleaving of asyncPostProcess.OnFinished for <=2 jobs (the C19 machinery)",
		Functions: []string{"golang.BuildScope (scope.init, resolver, namespace, importManager.init)", "(*Scope).ResolveImports", "(*Scope).MarshalDescriptor", "thrift_reflection.GetFileDescriptor", "meta.Marshal", "CodeUtils.BuildFuncMap: ServiceThrows", "CodeUtils.GenFieldTags",
			"fastgo.(*FastGoBackend).GenerateOne (genBLength, genFastWrite, genFastRead, codewriter.Imports, bitset)", "plugin.MarshalRequest + compressThriftInclude", "generator.(*FileManager).Feed/BuildResponse", "generator.(*insertionPointReplacer).Replace (strings.NewReplacer interpreted)", "generator.(*asyncPostProcess).OnFinished (gosched)"},
		Assumptions: []string{"text/template rendering (which iterates maps in key order by contract) and go/format are outside the encoding: the Go backend is checked up to the data the templates are given; whole-process runs, GOMAXPROCS and the output directory are outside",
			"the budget B bounds how many map ranges deviate from insertion order on one path; a dependence that needs more simultaneously perturbed ranges is outside the bound",
			"the order the Go runtime picks natively cannot be imposed on a replay: a counterexample is confirmed by repeating the native run (up to 40 times) until the runtime's own order shows the difference"}}
	register(top)
}
