package main

func init() {
	scope := &Prop{
		ID: "C07", Label: "go-backend", Dir: "/repo", HarnessDirs: []string{"c07"}, Pkg: tgPath + "generator/golang", RealMeta: true,
		Diff: []string{"D_C07_digest"},
		Harnesses: []Harness{
			{Func: "H_C07_scope", Quick: [][]int64{{0, 1, 0}, {1, 1, 0}, {2, 1, 0}, {0, 1, 1}}, Thorough: [][]int64{{0, 1, 0}, {1, 1, 0}, {2, 1, 0}, {0, 1, 1}, {1, 1, 1}, {0, 2, 0}, {1, 2, 0}, {2, 2, 0}}, Covers: []string{"end"}, NativeRetries: 40},
		},
	}
	register(&Prop{ID: "C07", Variants: []*Prop{scope}})
}
