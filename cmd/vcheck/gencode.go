package main

import (
	"fmt"
	"strings"
	"unicode"
)

// genOpts describes how the generator under test was configured (only what changes the Go
// representation of values matters here).
type genOpts struct {
	ValueTypeInContainer bool
	EnumAsInt32          bool
}

type harnessGen struct {
	p    *MProgram
	f    *MFile
	opts genOpts
	sb   strings.Builder
}

func goName(s string) string {
	// thriftgo naming style for the simple identifiers of the corpus: capitalise the first letter
	// of each '_' separated word
	parts := strings.Split(s, "_")
	for i, p := range parts {
		if p == "" {
			continue
		}
		r := []rune(p)
		r[0] = unicode.ToUpper(r[0])
		parts[i] = string(r)
	}
	return strings.Join(parts, "")
}

func (g *harnessGen) isScalar(t *TRef) bool {
	_, rt := g.p.resolve(g.f, t)
	switch rt.Kind {
	case "bool", "byte", "i16", "i32", "i64", "double", "string", "enum":
		return true
	}
	return false
}

// goType is the Go type thriftgo uses for a value of type t (inside a container when inC).
func (g *harnessGen) goType(t *TRef) string {
	df, rt := g.p.resolve(g.f, t)
	switch rt.Kind {
	case "bool":
		return "bool"
	case "byte":
		return "int8"
	case "i16":
		return "int16"
	case "i32":
		return "int32"
	case "i64":
		return "int64"
	case "double":
		return "float64"
	case "string":
		return "string"
	case "binary":
		return "[]byte"
	case "list", "set":
		return "[]" + g.withFile(df, rt.Elem)
	case "map":
		return "map[" + g.withFile(df, rt.Key) + "]" + g.withFile(df, rt.Elem)
	case "enum":
		return g.qual(df) + goName(rt.Name)
	case "struct":
		if g.opts.ValueTypeInContainer {
			return g.qual(df) + goName(rt.Name) // caller adds '*' outside containers
		}
		return "*" + g.qual(df) + goName(rt.Name)
	}
	panic("goType: " + rt.Kind)
}

func (g *harnessGen) withFile(df *MFile, t *TRef) string {
	saved := g.f
	g.f = df
	defer func() { g.f = saved }()
	s := g.goType(t)
	return s
}

func (g *harnessGen) qual(df *MFile) string {
	if df == g.f || df.Namespace == g.f.Namespace {
		return ""
	}
	parts := strings.Split(df.Namespace, ".")
	return parts[len(parts)-1] + "."
}

// typeExpr prints the schema descriptor of t.
func (g *harnessGen) typeExpr(t *TRef) string {
	df, rt := g.p.resolve(g.f, t)
	switch rt.Kind {
	case "bool":
		return "&zzType{K: zzBool}"
	case "byte":
		return "&zzType{K: zzByte}"
	case "i16":
		return "&zzType{K: zzI16}"
	case "i32":
		return "&zzType{K: zzI32}"
	case "i64":
		return "&zzType{K: zzI64}"
	case "double":
		return "&zzType{K: zzDouble}"
	case "string":
		return "&zzType{K: zzString}"
	case "binary":
		return "&zzType{K: zzBinary}"
	case "enum":
		return "&zzType{K: zzEnum}"
	case "list":
		return "&zzType{K: zzList, Elem: " + g.withFileExpr(df, rt.Elem) + "}"
	case "set":
		return "&zzType{K: zzSet, Elem: " + g.withFileExpr(df, rt.Elem) + "}"
	case "map":
		return "&zzType{K: zzMap, Key: " + g.withFileExpr(df, rt.Key) + ", Elem: " + g.withFileExpr(df, rt.Elem) + "}"
	case "struct":
		return "&zzType{K: zzStructK, St: zzSt_" + rt.Name + "}"
	}
	panic("typeExpr: " + rt.Kind)
}

func (g *harnessGen) withFileExpr(df *MFile, t *TRef) string {
	saved := g.f
	g.f = df
	defer func() { g.f = saved }()
	return g.typeExpr(t)
}

var symCounter int

// symExpr prints an expression that builds a symbolic value of type t (d = remaining depth expr).
func (g *harnessGen) symExpr(t *TRef, d string) string {
	df, rt := g.p.resolve(g.f, t)
	saved := g.f
	g.f = df
	defer func() { g.f = saved }()
	switch rt.Kind {
	case "bool":
		return `zzL.Bool("b")`
	case "byte":
		return `zzL.Int8("y")`
	case "i16":
		return `zzL.Int16("h")`
	case "i32":
		return `zzL.Int32("i")`
	case "i64":
		return `zzL.Int64("l")`
	case "double":
		return `zzL.Float64("d")`
	case "string":
		return `zzL.String("s", zzLen)`
	case "binary":
		return `zzL.Bytes("s", zzLen)`
	case "enum":
		return g.goType(rt) + `(zzL.Int32("e"))`
	case "list", "set":
		et := g.goType(rt.Elem)
		distinct := ""
		if rt.Kind == "set" && g.isScalar(rt.Elem) {
			distinct = "for i := range r { for j := 0; j < i; j++ { zzL.Assume(r[i] != r[j]) } }; "
		}
		if rt.Kind == "set" {
			// a set of structs is a valid value only when its elements differ: make them differ in
			// their first non-optional scalar member (a sub-domain of the valid values)
			if edf, ert := g.p.resolve(g.f, rt.Elem); ert.Kind == "struct" {
				if st := edf.structByName(ert.Name); st != nil {
					for _, f := range st.Fields {
						_, ft := g.p.resolve(edf, f.Type)
						if f.Req != "optional" && (ft.Kind == "i32" || ft.Kind == "i64" || ft.Kind == "i16" || ft.Kind == "byte") {
							distinct = fmt.Sprintf("for i := range r { for j := 0; j < i; j++ { zzL.Assume(r[i].%s != r[j].%s) } }; ", goName(f.Name), goName(f.Name))
							break
						}
					}
				}
			}
		}
		return fmt.Sprintf("func() []%s { r := make([]%s, zzCLen()); zzNest++; for i := range r { r[i] = %s }; zzNest--; %sreturn r }()", et, et, g.symExpr(rt.Elem, d), distinct)
	case "map":
		kt, vt := g.goType(rt.Key), g.goType(rt.Elem)
		return fmt.Sprintf("func() map[%s]%s { r := make(map[%s]%s); n := zzCLen(); zzNest++; for i := 0; i < n; i++ { r[%s] = %s }; zzNest--; return r }()", kt, vt, kt, vt, g.symExpr(rt.Key, d), g.symExpr(rt.Elem, d))
	case "struct":
		e := "zzSym_" + rt.Name + "(" + d + " - 1)"
		if g.opts.ValueTypeInContainer {
			return "*" + e
		}
		return e
	}
	panic("symExpr: " + rt.Kind)
}

// fromExpr prints an expression converting the Go value x of type t to *zzVal.
func (g *harnessGen) fromExpr(t *TRef, x string) string {
	df, rt := g.p.resolve(g.f, t)
	saved := g.f
	g.f = df
	defer func() { g.f = saved }()
	switch rt.Kind {
	case "bool":
		return "&zzVal{I: zzB2I(" + x + ")}"
	case "byte", "i16", "i32", "i64", "enum":
		return "&zzVal{I: int64(" + x + ")}"
	case "double":
		return "&zzVal{F: zzBits(" + x + ")}"
	case "string":
		return "&zzVal{S: " + x + "}"
	case "binary":
		return "&zzVal{S: string(" + x + ")}"
	case "list", "set":
		return fmt.Sprintf("func() *zzVal { v := &zzVal{}; for _, e := range %s { v.L = append(v.L, %s) }; return v }()", x, g.fromExpr(rt.Elem, "e"))
	case "map":
		return fmt.Sprintf("func() *zzVal { v := &zzVal{}; for k, e := range %s { v.K = append(v.K, %s); v.L = append(v.L, %s) }; return v }()", x, g.fromExpr(rt.Key, "k"), g.fromExpr(rt.Elem, "e"))
	case "struct":
		if g.opts.ValueTypeInContainer {
			return "zzFrom_" + rt.Name + "(&" + x + ")"
		}
		return "zzFrom_" + rt.Name + "(" + x + ")"
	}
	panic("fromExpr: " + rt.Kind)
}

// fieldGoType: Go type of a struct field (pointer for optional scalars without default and structs).
func (g *harnessGen) fieldIsPointerScalar(f *MField) bool {
	_, rt := g.p.resolve(g.f, f.Type)
	switch rt.Kind {
	case "bool", "byte", "i16", "i32", "i64", "double", "string", "enum":
		return f.Req == "optional" && f.Default == ""
	}
	return false
}

func (g *harnessGen) defaultGo(f *MField) string {
	_, rt := g.p.resolve(g.f, f.Type)
	d := f.Default
	switch rt.Kind {
	case "bool":
		if d == "true" || d == "1" {
			return "true"
		}
		return "false"
	case "string":
		return d // IDL literal with double quotes is a Go literal for the corpus
	case "enum":
		return g.goType(rt) + "(" + d + ")"
	case "double":
		return "float64(" + d + ")"
	}
	return d
}

func (g *harnessGen) emitStruct(s *MStruct) {
	w := func(format string, a ...any) { fmt.Fprintf(&g.sb, format, a...) }
	gn := goName(s.Name)
	// schema
	w("var zzSt_%s = &zzStruct{Name: %q, Union: %v}\n\n", s.Name, s.Name, s.Kind == "union")
	w("func init() {\n\tzzSt_%s.Fields = []zzField{\n", s.Name)
	for _, f := range s.Fields {
		req := 0
		switch f.Req {
		case "required":
			req = 1
		case "optional":
			req = 2
		}
		if s.Kind == "union" {
			req = 2
		}
		w("\t\t{ID: %d, Name: %q, Req: %d, T: %s},\n", f.ID, f.Name, req, g.typeExpr(f.Type))
	}
	w("\t}\n}\n\n")
	w("var zzT_%s = &zzType{K: zzStructK, St: zzSt_%s}\n\n", s.Name, s.Name)

	// symbolic builder
	w("// zzSym_%s builds a %s whose leaves are symbolic (d = remaining nesting depth).\n", s.Name, gn)
	w("func zzSym_%s(d int) *%s {\n\tp := &%s{}\n", s.Name, gn, gn)
	if s.Kind == "union" {
		w("\tswitch zzL.Choose(\"arm\", %d) {\n", len(s.Fields))
		for i, f := range s.Fields {
			w("\tcase %d:\n", i)
			g.emitSet(&f, true, s)
		}
		w("\t}\n")
	} else {
		for _, f := range s.Fields {
			fl := f
			g.emitSet(&fl, false, s)
		}
	}
	w("\treturn p\n}\n\n")

	// conversion to the generic tree
	w("// zzFrom_%s converts to the generic value tree: which fields are PRESENT follows the IDL model.\n", s.Name)
	w("func zzFrom_%s(p *%s) *zzVal {\n\tv := &zzVal{}\n", s.Name, gn)
	for _, f := range s.Fields {
		fl := f
		g.emitFrom(&fl, s)
	}
	w("\treturn v\n}\n\n")
}

func (g *harnessGen) emitSet(f *MField, unionArm bool, s *MStruct) {
	w := func(format string, a ...any) { fmt.Fprintf(&g.sb, format, a...) }
	_, rt := g.p.resolve(g.f, f.Type)
	fn := goName(f.Name)
	opt := f.Req == "optional" || unionArm
	indent := "\t"
	if unionArm {
		indent = "\t\t"
	}
	switch {
	case rt.Kind == "struct":
		rec := rt.Name == s.Name
		cond := ""
		if opt && !unionArm {
			cond = `zzL.Bool("set")`
		}
		if rec {
			if cond != "" {
				cond = "d > 0 && " + cond
			} else {
				cond = "d > 0"
			}
		}
		val := "zzSym_" + rt.Name + "(d - 1)"
		if cond != "" {
			w("%sif %s {\n%s\tp.%s = %s\n%s}\n", indent, cond, indent, fn, val, indent)
		} else {
			w("%sp.%s = %s\n", indent, fn, val)
		}
	case g.fieldIsPointerScalar(f) || (unionArm && g.isScalar(f.Type)):
		if unionArm {
			w("%s{\n%s\tx := %s\n%s\tp.%s = &x\n%s}\n", indent, indent, g.symExpr(f.Type, "d"), indent, fn, indent)
		} else {
			w("%sif zzL.Bool(\"set\") {\n%s\tx := %s\n%s\tp.%s = &x\n%s}\n", indent, indent, g.symExpr(f.Type, "d"), indent, fn, indent)
		}
	case opt && !unionArm && !g.isScalar(f.Type):
		// optional container / binary: nil when unset
		cond := `zzL.Bool("set")`
		if g.mentions(f.Type, s.Name) {
			cond = "d > 0 && " + cond
		}
		w("%sif %s {\n%s\tp.%s = %s\n%s}\n", indent, cond, indent, fn, g.symExpr(f.Type, "d"), indent)
	default:
		if g.mentions(f.Type, s.Name) {
			w("%sif d > 0 {\n%s\tp.%s = %s\n%s}\n", indent, indent, fn, g.symExpr(f.Type, "d"), indent)
		} else {
			w("%sp.%s = %s\n", indent, fn, g.symExpr(f.Type, "d"))
		}
	}
}

// mentions reports whether t contains struct `name` (recursion through containers).
func (g *harnessGen) mentions(t *TRef, name string) bool {
	_, rt := g.p.resolve(g.f, t)
	switch rt.Kind {
	case "struct":
		return rt.Name == name
	case "list", "set":
		return g.mentions(rt.Elem, name)
	case "map":
		return g.mentions(rt.Key, name) || g.mentions(rt.Elem, name)
	}
	return false
}

func (g *harnessGen) emitFrom(f *MField, s *MStruct) {
	w := func(format string, a ...any) { fmt.Fprintf(&g.sb, format, a...) }
	_, rt := g.p.resolve(g.f, f.Type)
	fn := goName(f.Name)
	opt := f.Req == "optional" || s.Kind == "union"
	x := "p." + fn
	add := func(cond, expr string) {
		if cond == "" {
			w("\tv.Fs = append(v.Fs, zzFV{ID: %d, V: %s})\n", f.ID, expr)
		} else {
			w("\tif %s {\n\t\tv.Fs = append(v.Fs, zzFV{ID: %d, V: %s})\n\t}\n", cond, f.ID, expr)
		}
	}
	switch {
	case rt.Kind == "struct":
		if opt {
			add(x+" != nil", "zzFrom_"+rt.Name+"("+x+")")
		} else {
			// required/default struct fields are non-nil in the value domain
			add(x+" != nil", "zzFrom_"+rt.Name+"("+x+")")
		}
	case g.fieldIsPointerScalar(f) || (s.Kind == "union" && g.isScalar(f.Type)):
		add(x+" != nil", g.fromExpr(f.Type, "*"+x))
	case opt && g.isScalar(f.Type):
		// optional scalar with a default: present iff different from the default
		add(x+" != "+g.defaultGo(f), g.fromExpr(f.Type, x))
	case opt:
		add(x+" != nil", g.fromExpr(f.Type, x))
	default:
		add("", g.fromExpr(f.Type, x))
	}
}

// emitFile prints the generated harness support file for one IDL file.
func (g *harnessGen) emitFile(pkgName string) string {
	g.sb.Reset()
	fmt.Fprintf(&g.sb, "package %s\n\nimport (\n\tzzrt \"zzgen/internal/zzverifrt\"\n)\n\nvar _ = zzrt.Bool\n\n", pkgName)
	for i := range g.f.Structs {
		g.emitStruct(&g.f.Structs[i])
	}
	return g.sb.String()
}
