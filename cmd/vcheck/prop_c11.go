package main

import (
	"fmt"
	"go/types"
	"os"
)

const tgPath = "github.com/cloudwego/thriftgo/"

// prepareC11 generates builders/comparators for plugin.Request, plugin.Response and every
// AST node type reachable from them, from the struct types of the current source.
func prepareC11(r *runner) error {
	pk, err := loadTypes(r.dir, tgPath+"plugin")
	if err != nil {
		return err
	}
	pl := pk[tgPath+"plugin"]
	if pl == nil {
		return fmt.Errorf("package plugin not loaded")
	}
	var roots []*types.Named
	for _, n := range []string{"Request", "Response"} {
		o := pl.Scope().Lookup(n)
		if o == nil {
			return fmt.Errorf("plugin.%s not found", n)
		}
		roots = append(roots, o.Type().(*types.Named))
	}
	src, ntypes := genStructHarness(tgPath+"plugin", "plugin", "plugin", roots)
	// one H_C11_node case per node type found in the source
	var nodeQ, nodeT [][]int64
	for ti := int64(0); ti < int64(ntypes); ti++ {
		nodeQ = append(nodeQ, []int64{ti, 1}, []int64{ti, 2}, []int64{ti, 4})
		nodeT = append(nodeT, []int64{ti, 0}, []int64{ti, 1}, []int64{ti, 2}, []int64{ti, 3}, []int64{ti, 4})
	}
	for i := range r.spec.Harnesses {
		if r.spec.Harnesses[i].Func == "H_C11_node" {
			r.spec.Harnesses[i].Quick, r.spec.Harnesses[i].Thorough = nodeQ, nodeT
		}
	}
	// safe-Go model of gopkg's pointer-walking Skip, as a virtual package of /repo
	sk, err := os.ReadFile("/verif/harness/gencommon/zzskip/zzskip.go")
	if err != nil {
		return err
	}
	if err := r.addGenerated("internal/zzskip", "zzskip.go", string(sk)); err != nil {
		return err
	}
	return r.addGenerated("plugin", "structs.go", src)
}

func modes(ms ...int64) [][]int64 {
	var r [][]int64
	for _, m := range ms {
		r = append(r, []int64{m})
	}
	return r
}

func init() {
	codec := &Prop{
		ID: "C11", Label: "codec", HarnessDirs: []string{"c11"}, Pkg: tgPath + "plugin",
		Prepare: prepareC11,
		Diff:    []string{"D_C11_corpus"},
		Harnesses: []Harness{
			{Func: "H_C11_node", Covers: []string{"end"}},
			{Func: "H_C11_request", Quick: modes(0, 1, 2), Thorough: modes(0, 1, 2, 3), Covers: []string{"end"}},
			{Func: "H_C11_response", Quick: modes(0, 1, 2, 3, 4), Covers: []string{"end"}},
			{Func: "H_C11_truncated", Quick: modes(1, 2), Thorough: modes(0, 1, 2, 3), Covers: []string{"end"}},
			{Func: "H_C11_garbled", Quick: modes(0, 1, 2, 3, 4, 6), Thorough: modes(0, 1, 2, 3, 4, 6, 8, 10), Covers: []string{"end"}, AllowInconclusive: []string{"hugealloc", "more than 64 feasible values"}},
			{Func: "H_C11_parsed", Quick: [][]int64{{0, 0}, {0, 1}, {1, 0}, {1, 1}, {2, 0}, {2, 1}}, Covers: []string{"end"}},
			{Func: "H_C11_compact", Quick: modes(0, 1, 2, 3, 4), Thorough: modes(0, 1, 2, 3, 4, 5, 6), Covers: []string{"end"}},
			{Func: "H_C11_version", Quick: modes(0, 1, 2, 3, 4, 5, 6), Covers: []string{"end"}},
			{Func: "H_C11_trailer", Quick: modes(0, 1, 3, 25), Covers: []string{"end"}},
		},
		Functions: []string{"plugin.MarshalRequest", "plugin.UnmarshalRequest", "plugin.MarshalResponse", "plugin.UnmarshalResponse",
			"(*plugin.Request).FastAppend/FastRead/BLength", "(*plugin.Response).FastAppend/FastRead/BLength", "(*plugin.Generated).*",
			"parser k-AST.go: FastAppend/FastRead/BLength of every AST node type", "plugin.compressThriftInclude", "plugin.decompressThriftInclude",
			"plugin.collectThriftInclude", "plugin.appendDataTrailer", "plugin.hasDataTrailerFeature", "plugin.supportDataTrailer",
			"plugin.ParseCompactArguments", "plugin.Pack", "parser.ParseBatchString", "semantic.Checker.CheckAll", "semantic.ResolveSymbols"},
		Bounds: "node types alone at recursion depth 2 with symbolic presence bits / lengths 0..1 at the root (mode 4) and fixed patterns below; whole requests with include depth 2, containers of 0..2 elements, strings of 0..2 symbolic bytes; 3 compiled programs (diamond and 3-route include graphs) with and without include compression; truncation at every byte offset; garbled responses up to 6 (quick) / 10 (thorough) arbitrary bytes; option strings up to 4 (quick) / 6 (thorough) arbitrary bytes; versions v<d>.<d>.<d[d]> with arbitrary digits",
		Assumptions: []string{"builders and comparators are generated from the Go struct types of the current source (thrift tag 'optional' decides whether nil is a legal value)",
			"launching the plugin process, its exit status, the time limit/kill and stderr forwarding (external.Execute, os/exec, context) are outside the encoding and not claimed",
			"string lengths and container lengths below the root node are concrete per mode; their contents are symbolic"},
	}
	gen := &Prop{
		ID: "C11", Label: "generate", HarnessDirs: []string{"c11g"}, Pkg: tgPath + "generator",
		Harnesses: []Harness{
			{Func: "H_C11_generate", Quick: modes(0, 1, 2), Thorough: modes(0, 1, 2, 3), Covers: []string{"ok", "error"}},
			{Func: "H_C11_unanchored", Covers: []string{"end"}},
		},
		Functions: []string{"(*generator.Generator).Generate", "(*generator.Generator).preparePlugins", "(*generator.FileManager).Feed", "(*generator.FileManager).BuildResponse",
			"generator.newInsertionPointReplacer", "(*generator.insertionPointReplacer).Add/Replace", "(*generator.Generator).Persist (error response only)", "plugin.Pack", "plugin.InsertionPoint"},
		Bounds:      "up to 2 plugins (thorough also 3 plugins with one item each and all-or-no options), each answering with 0..2 items chosen by decision variables from 6 shapes (duplicate of the backend's file, same name with other content, new file, patch addressed by name, patch addressed by position, a name of the form the renamer produces), at most one failing plugin; option values are symbolic bytes",
		Assumptions: []string{"the backend and the plugins are stubs behind the real Backend / Plugin interfaces; file contents are concrete tokens", "regexp (insertion point scan) is a concrete call-out to the host regexp package"},
	}
	register(&Prop{ID: "C11", Variants: []*Prop{codec, gen},
		Bounds: codec.Bounds + " || " + gen.Bounds, Functions: append(append([]string{}, codec.Functions...), gen.Functions...),
		Assumptions: append(append([]string{}, codec.Assumptions...), gen.Assumptions...)})
}
