package main

import (
	"bufio"
	"encoding/json"
	"fmt"
	"os"
	"os/exec"
	"path/filepath"
	"strings"
	"sync"
	"time"

	"verif/gosym"
)

// gosched: SMT bounded model checking of the interleavings of a small concurrent function.
// The thread programs (tries of visible events with their outcomes) are extracted from the
// SSA of the current tree by gosym's thread-modular recording mode; this file builds the
// product transition system in SMT-LIB (schedule = solver variables) and discharges the
// properties P1..P6 of DESIGN.md section 3.

type trieEdge struct {
	ev   gosym.Event
	to   int
	id   int // global edge id
	from int
	thr  int
}

type trie struct {
	thread  int
	edges   map[int][]*trieEdge // node -> outgoing
	nnodes  int
	term    map[int]bool // terminal nodes (after return / panic)
	retFail map[int]bool
	depth   int
}

func evKey(ev gosym.Event) string {
	cs := ""
	for _, c := range ev.Cases {
		cs += fmt.Sprintf("%d:%v,", c.Chan, c.Send)
	}
	return fmt.Sprintf("%s|%d|%d|%s|%v|%s|%s|%v|%d|%d|%d", ev.Op, ev.Chan, ev.Case, cs, ev.Blocking, ev.Name, ev.Phase, ev.Fail, ev.Child, ev.N, ev.Cap)
}

func buildTries(traces [][]gosym.Event) map[int]*trie {
	tries := map[int]*trie{}
	for _, tr := range traces {
		perThread := map[int][]gosym.Event{}
		for _, ev := range tr {
			if ev.Op == "makechan" {
				continue
			}
			perThread[ev.Thread] = append(perThread[ev.Thread], ev)
		}
		for th, evs := range perThread {
			t := tries[th]
			if t == nil {
				t = &trie{thread: th, edges: map[int][]*trieEdge{}, nnodes: 1, term: map[int]bool{}, retFail: map[int]bool{}}
				tries[th] = t
			}
			node := 0
			for _, ev := range evs {
				k := evKey(ev)
				var next *trieEdge
				for _, e := range t.edges[node] {
					if evKey(e.ev) == k {
						next = e
					}
				}
				if next == nil {
					next = &trieEdge{ev: ev, to: t.nnodes, from: node, thr: th}
					t.nnodes++
					t.edges[node] = append(t.edges[node], next)
				}
				node = next.to
				if ev.Op == "return" || ev.Op == "panic" {
					t.term[node] = true
					if ev.Fail {
						t.retFail[node] = true
					}
				}
			}
			if len(evs) > t.depth {
				t.depth = len(evs)
			}
		}
	}
	return tries
}

type schedResult struct {
	Queries      int
	SolverS      float64
	States       int // unrolled steps * threads
	Messages     []string
	Violation    string
	Model        map[string]string
	Inconclusive string
}

// chanCaps from makechan events
func chanCaps(traces [][]gosym.Event) map[int]int64 {
	caps := map[int]int64{}
	for _, tr := range traces {
		for _, ev := range tr {
			if ev.Op == "makechan" {
				caps[ev.Chan] = ev.Cap
			}
		}
	}
	return caps
}

// blockStart reports whether an event begins an atomic block: it may block or its effect /
// outcome depends on or changes state that other threads observe. All other events (wg.Add,
// go, start of an environment call, end of the post-process call, return) are executed
// atomically together with the preceding block (Lipton reduction: they are movers).
func blockStart(ev gosym.Event) bool {
	switch ev.Op {
	case "send", "recv", "select", "wg.wait", "wg.done":
		return true
	case "call":
		return ev.Phase == "end" && strings.HasPrefix(ev.Name, "f|")
	}
	return false
}

// macroEdge is one atomic block of a thread: a path of trie edges.
type macroEdge struct {
	id   int
	thr  int
	from int
	to   int
	evs  []gosym.Event
}

func buildMacros(t *trie) ([]*macroEdge, int) {
	var out []*macroEdge
	maxBlocks := 0
	var extend func(start int, node int, evs []gosym.Event) []*macroEdge
	extend = func(start int, node int, evs []gosym.Event) []*macroEdge {
		outs := t.edges[node]
		if len(outs) == 0 || (len(evs) > 0 && blockStart(outs[0].ev)) {
			return []*macroEdge{{thr: t.thread, from: start, to: node, evs: append([]gosym.Event{}, evs...)}}
		}
		var res []*macroEdge
		for _, e := range outs {
			if len(evs) > 0 && blockStart(e.ev) {
				continue
			}
			res = append(res, extend(start, e.to, append(evs, e.ev))...)
		}
		return res
	}
	// block boundaries: node 0 and every node reached by extend
	seen := map[int]bool{}
	var depth func(node, d int)
	work := []int{0}
	depthOf := map[int]int{0: 0}
	for len(work) > 0 {
		n := work[0]
		work = work[1:]
		if seen[n] {
			continue
		}
		seen[n] = true
		if len(t.edges[n]) == 0 {
			continue
		}
		for _, m := range extend(n, n, nil) {
			out = append(out, m)
			if depthOf[n]+1 > depthOf[m.to] {
				depthOf[m.to] = depthOf[n] + 1
			}
			if depthOf[m.to] > maxBlocks {
				maxBlocks = depthOf[m.to]
			}
			work = append(work, m.to)
		}
	}
	_ = depth
	return out, maxBlocks
}

// encodeAndCheck builds the SMT script for one configuration and checks all properties.
func encodeAndCheck(traces [][]gosym.Event, J int, withPP bool, label string, scratch string) (*schedResult, error) {
	res := &schedResult{}
	tries := buildTries(traces)
	caps := chanCaps(traces)
	nthreads := 0
	for th := range tries {
		if th+1 > nthreads {
			nthreads = th + 1
		}
	}
	if tries[0] == nil {
		return nil, fmt.Errorf("no main thread events recorded")
	}
	if nthreads-1 > J {
		return nil, fmt.Errorf("%d worker threads for %d jobs", nthreads-1, J)
	}
	var edges []*macroEdge
	T := 0
	for th := 0; th < nthreads; th++ {
		if tries[th] == nil {
			return nil, fmt.Errorf("thread %d has no recorded program", th)
		}
		ms, d := buildMacros(tries[th])
		for _, m := range ms {
			m.id = len(edges)
			edges = append(edges, m)
		}
		T += d
	}
	if len(edges) > 250 {
		return nil, fmt.Errorf("too many atomic blocks (%d) for the 8-bit encoding", len(edges))
	}
	res.States = (T + 1) * nthreads
	nch := len(caps)

	// static check: every worker calls f with its own path and content
	for th := 1; th < nthreads; th++ {
		want := fmt.Sprintf("f|path%d|content%d", th-1, th-1)
		for _, es := range tries[th].edges {
			for _, e := range es {
				if e.ev.Op == "call" && strings.HasPrefix(e.ev.Name, "f|") && e.ev.Name != want {
					res.Violation = fmt.Sprintf("P2: worker of job %d writes %q instead of its own path and content %q", th-1, e.ev.Name, want)
					res.Model = map[string]string{"schedule": "static: recorded thread program of the worker"}
					return res, nil
				}
			}
		}
	}

	var sb strings.Builder
	w := func(format string, a ...any) { fmt.Fprintf(&sb, format, a...); sb.WriteByte('\n') }
	w("(set-option :produce-models true)")
	for j := 1; j < nthreads; j++ {
		w("(declare-const failpp_%d Bool)", j)
		w("(declare-const failf_%d Bool)", j)
	}
	for t := 0; t <= T; t++ {
		for th := 0; th < nthreads; th++ {
			w("(declare-const pos_%d_%d (_ BitVec 8))", th, t)
		}
		w("(declare-const wg_%d (_ BitVec 8))", t)
		for c := 0; c < nch; c++ {
			w("(declare-const ch%d_%d (_ BitVec 8))", c, t)
		}
		for j := 1; j < nthreads; j++ {
			w("(declare-const written_%d_%d (_ BitVec 8))", j, t)
			w("(declare-const inflight_%d_%d Bool)", j, t)
			w("(declare-const ppdone_%d_%d Bool)", j, t)
			w("(declare-const failed_%d_%d Bool)", j, t)
		}
		if t < T {
			w("(declare-const edge_%d (_ BitVec 8))", t)
		}
	}
	w("(assert (= pos_0_0 #x00))")
	for th := 1; th < nthreads; th++ {
		w("(assert (= pos_%d_0 #xff))", th)
	}
	w("(assert (= wg_0 #x00))")
	for c := 0; c < nch; c++ {
		w("(assert (= ch%d_0 #x00))", c)
	}
	for j := 1; j < nthreads; j++ {
		w("(assert (= written_%d_0 #x00))", j)
		w("(assert (not inflight_%d_0))", j)
		w("(assert (not ppdone_%d_0))", j)
		w("(assert (not failed_%d_0))", j)
	}

	ready := func(c gosym.SelCase, t int) string {
		if c.Send {
			return fmt.Sprintf("(bvslt ch%d_%d %s)", c.Chan, t, bv8(caps[c.Chan]))
		}
		return fmt.Sprintf("(bvsgt ch%d_%d #x00)", c.Chan, t)
	}
	// guard of a block at step t (excluding pos): state guard of its first event and the
	// outcome constraints (failure flags) of all its events
	guard := func(m *macroEdge, t int) string {
		var g []string
		for i, ev := range m.evs {
			if i == 0 {
				switch ev.Op {
				case "send":
					g = append(g, fmt.Sprintf("(bvslt ch%d_%d %s)", ev.Chan, t, bv8(caps[ev.Chan])))
				case "recv":
					g = append(g, fmt.Sprintf("(bvsgt ch%d_%d #x00)", ev.Chan, t))
				case "select":
					if ev.Case >= 0 {
						g = append(g, ready(ev.Cases[ev.Case], t))
					} else {
						for _, c := range ev.Cases {
							g = append(g, "(not "+ready(c, t)+")")
						}
					}
				case "wg.wait":
					g = append(g, fmt.Sprintf("(= wg_%d #x00)", t))
				}
			}
			if ev.Op == "call" && ev.Phase == "end" {
				v := "failf"
				if strings.HasPrefix(ev.Name, "pp|") {
					v = "failpp"
				}
				if ev.Fail {
					g = append(g, fmt.Sprintf("%s_%d", v, m.thr))
				} else {
					g = append(g, fmt.Sprintf("(not %s_%d)", v, m.thr))
				}
			}
		}
		if len(g) == 0 {
			return "true"
		}
		return "(and " + strings.Join(g, " ") + ")"
	}
	enabled := func(m *macroEdge, t int) string {
		return fmt.Sprintf("(and (= pos_%d_%d %s) %s)", m.thr, t, bv8(int64(m.from)), guard(m, t))
	}
	for t := 0; t < T; t++ {
		var anyEnabled []string
		for _, e := range edges {
			anyEnabled = append(anyEnabled, enabled(e, t))
		}
		w("(define-fun anyen_%d () Bool (or false %s))", t, strings.Join(anyEnabled, " "))
		w("(assert (or (= edge_%d #xff) (bvult edge_%d %s)))", t, t, bv8(int64(len(edges))))
		w("(assert (= (= edge_%d #xff) (not anyen_%d)))", t, t)
		var st []string
		for th := 0; th < nthreads; th++ {
			st = append(st, fmt.Sprintf("(= pos_%d_%d pos_%d_%d)", th, t+1, th, t))
		}
		st = append(st, fmt.Sprintf("(= wg_%d wg_%d)", t+1, t))
		for c := 0; c < nch; c++ {
			st = append(st, fmt.Sprintf("(= ch%d_%d ch%d_%d)", c, t+1, c, t))
		}
		for j := 1; j < nthreads; j++ {
			st = append(st, fmt.Sprintf("(= written_%d_%d written_%d_%d)", j, t+1, j, t), fmt.Sprintf("(= inflight_%d_%d inflight_%d_%d)", j, t+1, j, t),
				fmt.Sprintf("(= ppdone_%d_%d ppdone_%d_%d)", j, t+1, j, t), fmt.Sprintf("(= failed_%d_%d failed_%d_%d)", j, t+1, j, t))
		}
		w("(assert (=> (= edge_%d #xff) (and %s)))", t, strings.Join(st, " "))
		for _, m := range edges {
			var eff []string
			started := map[int]bool{}
			wgDelta := int64(0)
			delta := map[int]int{}
			nWritten := 0
			inflight, ppdone, failed := "", false, false
			for _, ev := range m.evs {
				switch ev.Op {
				case "go":
					started[ev.Child] = true
				case "wg.add":
					wgDelta += ev.N
				case "wg.done":
					wgDelta--
				case "send":
					delta[ev.Chan]++
				case "recv":
					delta[ev.Chan]--
				case "select":
					if ev.Case >= 0 {
						if ev.Cases[ev.Case].Send {
							delta[ev.Cases[ev.Case].Chan]++
						} else {
							delta[ev.Cases[ev.Case].Chan]--
						}
					}
				case "call":
					isF := strings.HasPrefix(ev.Name, "f|")
					if isF && ev.Phase == "begin" {
						inflight = "true"
					}
					if isF && ev.Phase == "end" {
						inflight = "false"
						if !ev.Fail {
							nWritten++
						}
					}
					if !isF && ev.Phase == "end" && !ev.Fail {
						ppdone = true
					}
					if ev.Phase == "end" && ev.Fail {
						failed = true
					}
				}
			}
			for th := 0; th < nthreads; th++ {
				switch {
				case th == m.thr:
					eff = append(eff, fmt.Sprintf("(= pos_%d_%d %s)", th, t+1, bv8(int64(m.to))))
				case started[th]:
					eff = append(eff, fmt.Sprintf("(= pos_%d_%d #x00)", th, t+1))
				default:
					eff = append(eff, fmt.Sprintf("(= pos_%d_%d pos_%d_%d)", th, t+1, th, t))
				}
			}
			eff = append(eff, fmt.Sprintf("(= wg_%d (bvadd wg_%d %s))", t+1, t, bv8(wgDelta)))
			for c := 0; c < nch; c++ {
				eff = append(eff, fmt.Sprintf("(= ch%d_%d (bvadd ch%d_%d %s))", c, t+1, c, t, bv8(int64(delta[c]))))
			}
			for j := 1; j < nthreads; j++ {
				if j != m.thr {
					eff = append(eff, fmt.Sprintf("(= written_%d_%d written_%d_%d)", j, t+1, j, t), fmt.Sprintf("(= inflight_%d_%d inflight_%d_%d)", j, t+1, j, t),
						fmt.Sprintf("(= ppdone_%d_%d ppdone_%d_%d)", j, t+1, j, t), fmt.Sprintf("(= failed_%d_%d failed_%d_%d)", j, t+1, j, t))
					continue
				}
				eff = append(eff, fmt.Sprintf("(= written_%d_%d (bvadd written_%d_%d %s))", j, t+1, j, t, bv8(int64(nWritten))))
				switch inflight {
				case "true":
					eff = append(eff, fmt.Sprintf("inflight_%d_%d", j, t+1))
				case "false":
					eff = append(eff, fmt.Sprintf("(not inflight_%d_%d)", j, t+1))
				default:
					eff = append(eff, fmt.Sprintf("(= inflight_%d_%d inflight_%d_%d)", j, t+1, j, t))
				}
				if ppdone {
					eff = append(eff, fmt.Sprintf("ppdone_%d_%d", j, t+1))
				} else {
					eff = append(eff, fmt.Sprintf("(= ppdone_%d_%d ppdone_%d_%d)", j, t+1, j, t))
				}
				if failed {
					eff = append(eff, fmt.Sprintf("failed_%d_%d", j, t+1))
				} else {
					eff = append(eff, fmt.Sprintf("(= failed_%d_%d failed_%d_%d)", j, t+1, j, t))
				}
			}
			w("(assert (=> (= edge_%d %s) (and %s %s)))", t, bv8(int64(m.id)), enabled(m, t), strings.Join(eff, " "))
		}
	}
	mainTerm := func(t int, wantFail int) string {
		var alts []string
		for n := range tries[0].term {
			if wantFail == 0 && tries[0].retFail[n] {
				continue
			}
			if wantFail == 1 && !tries[0].retFail[n] {
				continue
			}
			alts = append(alts, fmt.Sprintf("(= pos_0_%d %s)", t, bv8(int64(n))))
		}
		return "(or false " + strings.Join(alts, " ") + ")"
	}
	threadTerm := func(th, t int) string {
		var alts []string
		for n := range tries[th].term {
			alts = append(alts, fmt.Sprintf("(= pos_%d_%d %s)", th, t, bv8(int64(n))))
		}
		return "(or false " + strings.Join(alts, " ") + ")"
	}

	type query struct {
		name   string
		body   string
		expect string
	}
	var qs []query
	exists := func(f func(t int) string) string {
		var alts []string
		for t := 0; t <= T; t++ {
			alts = append(alts, f(t))
		}
		return "(or false " + strings.Join(alts, " ") + ")"
	}
	var anyT []string
	for _, e := range edges {
		anyT = append(anyT, enabled(e, T))
	}
	qs = append(qs, query{"U: unwinding assertion (something still enabled after T steps)", "(or false " + strings.Join(anyT, " ") + ")", "unsat"})
	qs = append(qs, query{"P1: deadlock (main has not returned and no thread can move)", exists(func(t int) string {
		if t == T {
			return fmt.Sprintf("(and (not %s) (not (or false %s)))", mainTerm(T, -1), strings.Join(anyT, " "))
		}
		return fmt.Sprintf("(and (not %s) (not anyen_%d))", mainTerm(t, -1), t)
	}), "unsat"})
	qs = append(qs, query{"P2: success returned although some file was not post-processed and written exactly once", exists(func(t int) string {
		var bad []string
		for j := 1; j <= J; j++ {
			if j >= nthreads {
				bad = append(bad, "true")
				continue
			}
			b := fmt.Sprintf("(not (= written_%d_%d #x01))", j, t)
			if withPP {
				b = fmt.Sprintf("(or %s (not ppdone_%d_%d))", b, j, t)
			}
			bad = append(bad, b)
		}
		return fmt.Sprintf("(and %s (or false %s))", mainTerm(t, 0), strings.Join(bad, " "))
	}), "unsat"})
	qs = append(qs, query{"P3: a post-process or write step failed but success was returned", exists(func(t int) string {
		var f []string
		for j := 1; j < nthreads; j++ {
			f = append(f, fmt.Sprintf("failed_%d_%d", j, t))
		}
		return fmt.Sprintf("(and %s (or false %s))", mainTerm(t, 0), strings.Join(f, " "))
	}), "unsat"})
	qs = append(qs, query{"P4: returned while a write of this call is still in flight or yet to come", exists(func(t int) string {
		var f []string
		for j := 1; j < nthreads; j++ {
			f = append(f, fmt.Sprintf("inflight_%d_%d", j, t))
			f = append(f, fmt.Sprintf("(and (not (= pos_%d_%d #xff)) (not %s) (= written_%d_%d #x00) (not failed_%d_%d))", j, t, threadTerm(j, t), j, t, j, t))
		}
		return fmt.Sprintf("(and %s (or false %s))", mainTerm(t, -1), strings.Join(f, " "))
	}), "unsat"})
	qs = append(qs, query{"P5a: a file is written twice", exists(func(t int) string {
		var f []string
		for j := 1; j < nthreads; j++ {
			f = append(f, fmt.Sprintf("(bvsgt written_%d_%d #x01)", j, t))
		}
		return "(or false " + strings.Join(f, " ") + ")"
	}), "unsat"})
	qs = append(qs, query{"P5b: WaitGroup counter negative", exists(func(t int) string { return fmt.Sprintf("(bvslt wg_%d #x00)", t) }), "unsat"})
	var sendBlocks []string
	for _, m := range edges {
		if m.thr > 0 && len(m.evs) > 0 && m.evs[0].Op == "send" {
			m := m
			sendBlocks = append(sendBlocks, exists(func(t int) string {
				return fmt.Sprintf("(and (= pos_%d_%d %s) (not %s))", m.thr, t, bv8(int64(m.from)), guard(m, t))
			}))
		}
	}
	qs = append(qs, query{"P5c: a worker blocks sending its error", "(or false " + strings.Join(sendBlocks, " ") + ")", "unsat"})
	qs = append(qs, query{"P6a: complete success is reachable", exists(func(t int) string {
		var f []string
		for j := 1; j <= J; j++ {
			if j >= nthreads {
				f = append(f, "false")
			} else {
				f = append(f, fmt.Sprintf("(= written_%d_%d #x01)", j, t))
			}
		}
		return fmt.Sprintf("(and %s %s)", mainTerm(t, 0), "(and true "+strings.Join(f, " ")+")")
	}), "sat"})
	if J >= 1 {
		qs = append(qs, query{"P6b: an error return is reachable", exists(func(t int) string { return mainTerm(t, 1) }), "sat"})
	}

	base := sb.String()
	start := time.Now()
	type qres struct {
		verdict string
		lines   []string
	}
	results := make([]qres, len(qs))
	var wgq sync.WaitGroup
	sem := make(chan struct{}, 12)
	for qi, q := range qs {
		wgq.Add(1)
		go func(qi int, q query) {
			defer wgq.Done()
			sem <- struct{}{}
			defer func() { <-sem }()
			var s strings.Builder
			s.WriteString(base)
			fmt.Fprintf(&s, "(assert %s)\n(check-sat)\n", q.body)
			if q.expect == "unsat" {
				s.WriteString("(get-value (")
				for t := 0; t < T; t++ {
					fmt.Fprintf(&s, "edge_%d ", t)
				}
				for j := 1; j < nthreads; j++ {
					fmt.Fprintf(&s, "failpp_%d failf_%d ", j, j)
				}
				s.WriteString("))\n")
			}
			script := filepath.Join(scratch, fmt.Sprintf("gosched-%s-q%d.smt2", label, qi))
			os.WriteFile(script, []byte(s.String()), 0o644)
			out, _ := exec.Command("z3-new", "-T:900", script).CombinedOutput()
			os.Remove(script)
			lines := strings.Split(strings.TrimSpace(string(out)), "\n")
			results[qi] = qres{verdict: strings.TrimSpace(lines[0]), lines: lines}
		}(qi, q)
	}
	wgq.Wait()
	for qi, q := range qs {
		res.Queries++
		verdict, lines := results[qi].verdict, results[qi].lines
		switch {
		case verdict == q.expect:
			res.Messages = append(res.Messages, fmt.Sprintf("%s: %s (as required)", q.name, verdict))
		case verdict == "sat" && q.expect == "unsat":
			res.Violation = q.name
			res.Model = map[string]string{}
			for _, l := range lines[1:] {
				l = strings.Trim(strings.TrimSpace(l), "()")
				parts := strings.Fields(l)
				if len(parts) >= 2 {
					res.Model[parts[0]] = strings.Join(parts[1:], " ")
				}
			}
			var sched []string
			for t := 0; t < T; t++ {
				v := strings.TrimSpace(res.Model[fmt.Sprintf("edge_%d", t)])
				var id int
				if _, err := fmt.Sscanf(v, "#x%x", &id); err == nil && id < len(edges) {
					m := edges[id]
					var evs []string
					for _, ev := range m.evs {
						evs = append(evs, describeEvent(ev))
					}
					sched = append(sched, fmt.Sprintf("T%d:[%s]", m.thr, strings.Join(evs, ",")))
				} else {
					sched = append(sched, "stutter")
				}
			}
			res.Model["schedule"] = strings.Join(sched, " ; ")
		case verdict == "unsat" && q.expect == "sat":
			res.Inconclusive = "VACUOUS: " + q.name + " is not reachable in the model"
		default:
			res.Inconclusive = fmt.Sprintf("%s: solver answered %q", q.name, verdict)
		}
		if res.Violation != "" || res.Inconclusive != "" {
			break
		}
	}
	res.SolverS += time.Since(start).Seconds()
	return res, nil
}

func bv8(n int64) string { return fmt.Sprintf("#x%02x", uint8(n)) }

func describeEvent(ev gosym.Event) string {
	switch ev.Op {
	case "select":
		return fmt.Sprintf("select(case %d)", ev.Case)
	case "call":
		return fmt.Sprintf("%s.%s(fail=%v)", strings.SplitN(ev.Name, "|", 2)[0], ev.Phase, ev.Fail)
	case "send", "recv":
		return fmt.Sprintf("%s(ch%d)", ev.Op, ev.Chan)
	case "go":
		return fmt.Sprintf("go(T%d)", ev.Child)
	case "return":
		return fmt.Sprintf("return(fail=%v)", ev.Fail)
	}
	return ev.Op
}

var _ = bufio.NewReader
var _ = json.Marshal
