package main

import (
	"fmt"
	"os"
	"path/filepath"
	"strings"
	"time"
)

const thriftImport = "\t\"github.com/apache/thrift/lib/go/thrift\"\n"

// entryC02 emits the write/read harnesses for every struct-like of the file.
func entryC02(g *harnessGen, pkg string) string {
	var sb strings.Builder
	fmt.Fprintf(&sb, "package %s\n\nimport (\n%s\tzzrt \"zzgen/internal/zzverifrt\"\n)\n\n", pkg, thriftImport)
	sb.WriteString(`func zzWriteBytes(w interface{ Write(thrift.TProtocol) error }) ([]byte, error) {
	buf := thrift.NewTMemoryBuffer()
	err := w.Write(thrift.NewTBinaryProtocol(buf, true, true))
	return buf.Bytes(), err
}

func zzProtoOver(b []byte) thrift.TProtocol {
	buf := thrift.NewTMemoryBuffer()
	buf.Write(b)
	return thrift.NewTBinaryProtocol(buf, true, true)
}

`)
	// translator validation: fixed pseudo random values written and read back, natively and in the engine
	sb.WriteString("func D_GEN_roundtrip() string {\n\tout := \"\"\n\tsaved := zzL\n\tdefer func() { zzL = saved }()\n\tfor seed := uint64(1); seed <= 3; seed++ {\n\t\tzzL = &zzFixedLeaves{s: seed}\n\t\tzzLen = int(seed) % 2\n")
	for _, s := range g.f.Structs {
		fmt.Fprintf(&sb, "\t\t{\n\t\t\tv := zzSym_%[1]s(1)\n\t\t\tb, err := zzWriteBytes(v)\n\t\t\tout += \"%[1]s:\" + zzHex(b)\n\t\t\tif err != nil {\n\t\t\t\tout += \" werr\"\n\t\t\t}\n\t\t\tp := New%[2]s()\n\t\t\tif err := p.Read(zzProtoOver(b)); err != nil {\n\t\t\t\tout += \" rerr\"\n\t\t\t}\n\t\t\tb2, _ := zzWriteBytes(p)\n\t\t\tif zzHex(b2) != zzHex(b) && len(b2) != len(b) {\n\t\t\t\tout += \" DIFF\"\n\t\t\t}\n\t\t\tout += \";\"\n\t\t}\n", s.Name, goName(s.Name))
	}
	sb.WriteString("\t}\n\treturn out\n}\n\n")
	for _, s := range g.f.Structs {
		n, gn := s.Name, goName(s.Name)
		fmt.Fprintf(&sb, `// H_C02_write_%[1]s: the bytes of the generated Write decode, under the reference decoder, to the value.
func H_C02_write_%[1]s(n int) {
	zzLen = n
	v := zzSym_%[1]s(zzDepth)
	want := zzFrom_%[1]s(v)
	b, err := zzWriteBytes(v)
	zzrt.Assert(err == nil, "Write succeeds on a valid value")
	r := &zzReader{b: b}
	got := zzDec(r, zzT_%[1]s)
	zzrt.Assert(!r.bad, "Write produces a well formed encoding of the declared schema (declared ids and wire types only, no field twice)")
	zzrt.Assert(len(r.b) == 0, "nothing follows the struct in the stream")
	zzAssertEq(zzT_%[1]s, got, want, "Write")
	zzAssertEq(zzT_%[1]s, zzFrom_%[1]s(v), want, "Write leaves the value unchanged")
	zzrt.Cover("end")
}

// H_C02_read_%[1]s: the generated Read applied to the reference encoding yields the value.
func H_C02_read_%[1]s(n int) {
	zzLen = n
	v := zzSym_%[1]s(zzDepth)
	want := zzFrom_%[1]s(v)
	b := zzEnc(nil, zzT_%[1]s, want)
	p := New%[2]s()
	// two sentinel bytes follow the struct on the stream: Read must stop exactly at its end
	buf := thrift.NewTMemoryBuffer()
	buf.Write(append(append([]byte{}, b...), 0xAB, 0xCD))
	err := p.Read(thrift.NewTBinaryProtocol(buf, true, true))
	zzrt.Assert(err == nil, "Read accepts the reference encoding")
	zzrt.Assert(buf.Len() == 2, "Read consumes exactly the bytes of the struct (what follows on the connection stays)")
	zzAssertEq(zzT_%[1]s, zzFrom_%[1]s(p), want, "Read")
	zzrt.Cover("end")
}

// H_C02_unknown_%[1]s: an undeclared field of any wire type, inserted at any position, is skipped.
func H_C02_unknown_%[1]s() {
	zzLen = 1
	var v *%[2]s
	zzWithPresenceBudget(2, func() { v = zzSym_%[1]s(zzDepth) })
	want := zzFrom_%[1]s(v)
	id := zzrt.Int16("uid")
	zzrt.Assume(!zzT_%[1]s.hasField(id))
	wt := zzWireTypes[zzrt.Choose("wt", len(zzWireTypes))]
	at := zzrt.Choose("at", len(zzSt_%[1]s.Fields)+1)
	b := zzEncMod(zzT_%[1]s, want, zzMod{Insert: true, InsertAt: at, Extra: zzFieldBytes(wt, id)})
	p := New%[2]s()
	err := p.Read(zzProtoOver(b))
	zzrt.Assert(err == nil, "Read skips an unknown field")
	zzAssertEq(zzT_%[1]s, zzFrom_%[1]s(p), want, "Read with unknown field")
	zzrt.Cover("end")
}

// H_C02_retag_%[1]s: declared field number i arrives with a different wire type: it is skipped,
// other fields are undisturbed; if it was required, Read fails.
func H_C02_retag_%[1]s(i int) {
	if i >= len(zzSt_%[1]s.Fields) {
		return
	}
	zzLen = 1
	f := zzSt_%[1]s.Fields[i]
	var v *%[2]s
	zzWithPresenceBudget(zzPresenceBudget, func() { v = zzSym_%[1]s(zzDepth) })
	want := zzFrom_%[1]s(v)
	if want.field(f.ID) == nil {
		return
	}
	wt := zzWireTypes[zzrt.Choose("wt", len(zzWireTypes))]
	zzrt.Assume(wt != zzWire(f.T))
	b := zzEncMod(zzT_%[1]s, want, zzMod{Retag: true, RetagID: f.ID, RetagBytes: zzFieldBytes(wt, f.ID)})
	p := New%[2]s()
	err := p.Read(zzProtoOver(b))
	if f.Req == 1 {
		zzrt.Assert(err != nil, "a required field that only arrives with a foreign wire type counts as absent")
		zzrt.Cover("end")
		return
	}
	zzrt.Assert(err == nil, "Read skips a field whose wire type differs from the schema")
	zzAssertEqExcept(zzT_%[1]s, zzFrom_%[1]s(p), want, f.ID, "Read with retagged field")
	zzrt.Cover("end")
}

// H_C02_missing_%[1]s: declared field number i is left out: Read fails iff it is required.
func H_C02_missing_%[1]s(i int) {
	if i >= len(zzSt_%[1]s.Fields) {
		return
	}
	zzLen = 1
	f := zzSt_%[1]s.Fields[i]
	var v *%[2]s
	zzWithPresenceBudget(zzPresenceBudget, func() { v = zzSym_%[1]s(zzDepth) })
	want := zzFrom_%[1]s(v)
	if want.field(f.ID) == nil {
		return
	}
	b := zzEncMod(zzT_%[1]s, want, zzMod{Skip: true, SkipID: f.ID})
	p := New%[2]s()
	err := p.Read(zzProtoOver(b))
	if f.Req == 1 {
		zzrt.Assert(err != nil, "Read fails when a required field is absent")
	} else {
		zzrt.Assert(err == nil, "Read accepts the absence of a non-required field")
		zzAssertEqExcept(zzT_%[1]s, zzFrom_%[1]s(p), want, f.ID, "Read with absent field")
	}
	zzrt.Cover("end")
}

`, n, gn)
		if s.Kind == "union" {
			fmt.Fprintf(&sb, `// H_C02_unionbad_%[1]s: Write refuses a union that does not have exactly one member set.
func H_C02_unionbad_%[1]s() {
	zzLen = 1
	v := zzSym_%[1]s(zzDepth)
	w := zzSym_%[1]s(zzDepth)
	if zzrt.Bool("none") {
		*v = %[2]s{}
		_, err := zzWriteBytes(v)
		zzrt.Assert(err != nil, "Write refuses a union with no member set")
		zzrt.Cover("none")
		return
	}
	// merge the arms of w into v: two members set unless both chose the same arm
`, n, gn)
			for _, f := range s.Fields {
				fmt.Fprintf(&sb, `	if w.%[1]s != nil && v.%[1]s == nil {
		v.%[1]s = w.%[1]s
		zzrt.Cover("two")
		_, err := zzWriteBytes(v)
		zzrt.Assert(err != nil, "Write refuses a union with two members set")
		return
	}
`, goName(f.Name))
			}
			sb.WriteString("}\n\n")
		}
	}
	return sb.String()
}

func structHarnesses(prog *MProgram, prefix string, quick, thorough [][]int64) []Harness {
	var hs []Harness
	for _, f := range prog.Files {
		for _, s := range f.Structs {
			th := thorough
			// a struct with many container members: every container of length 2 with symbolic elements
			// does not finish within the thorough budget (measured: > 30 min for one harness), so
			// its thorough bound is the quick one
			if containerHeavy(&s) {
				th = quick
			}
			hs = append(hs, Harness{Func: prefix + s.Name, Quick: quick, Thorough: th, Covers: []string{"end"}})
		}
	}
	return hs
}

func containerHeavy(s *MStruct) bool {
	nc := 0
	for _, fl := range s.Fields {
		if fl.Type.Kind == "list" || fl.Type.Kind == "set" || fl.Type.Kind == "map" {
			nc++
		}
	}
	return nc >= 8
}

func genVariant(label, options string, opts genOpts, pkg string, entry func(g *harnessGen, pkg string) string, hs func(prog *MProgram) []Harness) *Prop {
	return genVariantCorpus(label, options, opts, pkg, entry, hs, corpusMain)
}

func genVariantCorpus(label, options string, opts genOpts, pkg string, entry func(g *harnessGen, pkg string) string, hs func(prog *MProgram) []Harness, corpus func() *MProgram) *Prop {
	return &Prop{
		Label:     label,
		Pkg:       pkg,
		NoOverlay: true,
		Diff:      []string{"D_GEN_roundtrip"},
		Prepare: func(r *runner) error {
			prog := corpus()
			r.spec.Harnesses = hs(prog)
			return prepareGenerated(r, prog, genConfig{Options: options, Opts: opts}, entry)
		},
	}
}

func c02WriteRead(prog *MProgram) []Harness {
	return append(structHarnesses(prog, "H_C02_write_", rng(0, 1), rng(0, 2)), structHarnesses(prog, "H_C02_read_", rng(0, 1), rng(0, 2))...)
}

// c02KeepUnknown: under keep_unknown_fields the unknown field is not skipped but stored by the
// unknown-fields runtime (generator/golang/extension/unknown): the write/read harnesses plus the
// unknown-field harness of every struct-like but the container-heavy one.
func c02KeepUnknown(prog *MProgram) []Harness {
	hs := c02WriteRead(prog)
	for _, h := range structHarnesses(prog, "H_C02_unknown_", nil, nil) {
		if h.Func != "H_C02_unknown_Containers" {
			hs = append(hs, h)
		}
	}
	return hs
}

func init() {
	register(&Prop{
		ID: "C02", QuickBudget: 25 * time.Minute, ThoroughBudget: 90 * time.Minute,
		Functions: []string{"generated (*T).Write / Read / ReadFieldN / writeFieldN / IsSetX / CountSetFields for every struct-like of the corpus", "apache thrift v0.13.0 TBinaryProtocol + TMemoryBuffer (interpreted)", "reference codec zzEnc/zzDec (harness)"},
		Bounds:    "corpus a.thrift (7 struct-likes: all base types x requiredness, defaults, enums, typedefs, negative and >255 field ids, containers nested 2 deep, recursive struct, union, exception); every scalar leaf symbolic (full width), optional presence symbolic (in the perturbation harnesses the first 2 (unknown field) or 4 (retag/missing) presence decisions of a value are symbolic, the rest alternate), strings/binaries and every container of length n (quick n in 0..1, thorough 0..2), recursion depth 1; struct elements with defaulted optional members inside lists, sets and maps; a second corpus (ext-shapes: defaults of the remaining base types, enums inside containers, containers nested 4 deep, map of maps of lists of structs, field ids 32767 and -32768) for the write/read harnesses; unknown field: free i16 id, 11 wire types, every insertion position; retag / deletion of every declared field; union with 0 and 2 members; generator configurations: default, presentation-only options, naming_style golint/apache, keep_unknown_fields, enum_as_int_32",
		Assumptions: []string{"the programs dimension is the designed corpus (sampled), only values and perturbations are solver-decided", "value domain: required/default struct fields non-nil, union has exactly one arm (except in the refusal harness), set elements pairwise different",
			"the Go identifier of an IDL name is its capitalised form (corpus naming)", "compact/JSON protocols are outside"},
		Variants: []*Prop{
			genVariant("default", "", genOpts{}, "zzgen/a", entryC02, c02Harnesses),
			genVariant("presentation", "reorder_fields,nil_safe,gen_setter,frugal_tag,gen_db_tag,json_enum_as_text,typed_enum_string,compatible_names,reserve_comments,gen_deep_equal,json_stringer", genOpts{}, "zzgen/a", entryC02, c02WriteRead),
			genVariant("golint", "naming_style=golint", genOpts{}, "zzgen/a", entryC02, c02WriteRead),
			genVariant("apache", "naming_style=apache", genOpts{}, "zzgen/a", entryC02, c02WriteRead),
			genVariant("keep_unknown_fields", "keep_unknown_fields", genOpts{}, "zzgen/a", entryC02, c02KeepUnknown),
			genVariantCorpus("ext-shapes", "", genOpts{}, "zzgen/a", entryC02, c02WriteRead, corpusExt),
			genVariant("enum_as_int_32", "enum_as_int_32", genOpts{EnumAsInt32: true}, "zzgen/a", entryC02, c02WriteRead),
		},
	})
}

func c02Harnesses(prog *MProgram) []Harness {
	hs := append(structHarnesses(prog, "H_C02_write_", rng(0, 1), rng(0, 2)), structHarnesses(prog, "H_C02_read_", rng(0, 1), rng(0, 2))...)
	hs = append(hs, structHarnesses(prog, "H_C02_unknown_", nil, nil)...)
	for _, f := range prog.Files {
		for _, s := range f.Structs {
			n := int64(len(s.Fields)) - 1
			hs = append(hs, Harness{Func: "H_C02_retag_" + s.Name, Quick: rng(0, n), Covers: []string{"end"}})
			hs = append(hs, Harness{Func: "H_C02_missing_" + s.Name, Quick: rng(0, n), Covers: []string{"end"}})
			if s.Kind == "union" {
				hs = append(hs, Harness{Func: "H_C02_unionbad_" + s.Name, Covers: []string{"none", "two"}})
			}
		}
	}
	return hs
}

// entryC18 emits the DeepEqual harnesses.
func entryC18(g *harnessGen, pkg string) string {
	base := entryC02(g, pkg) // also provides zzWriteBytes and the differential
	var sb strings.Builder
	sb.WriteString(base)
	for _, s := range g.f.Structs {
		n, gn := s.Name, goName(s.Name)
		fmt.Fprintf(&sb, `// H_C18_deepequal_%[1]s: DeepEqual is structural equality of two arbitrary values.
// mode 0: x and y are built independently; mode 1: y has the presence structure of x except
// for one freely chosen optional member / union arm (all scalar leaves independent).
func H_C18_deepequal_%[1]s(mode, n int) {
	zzLen = n
	var x, y *%[2]s
	if mode == 0 {
		x = zzSym_%[1]s(zzDepth)
		y = zzSym_%[1]s(zzDepth)
	} else {
		rec := &zzRecLeaves{}
		zzL = rec
		x = zzSym_%[1]s(zzDepth)
		zzL = &zzMirrorLeaves{rec: rec, flip: zzrt.Choose("flip", len(rec.bools)+len(rec.chooses)+1)}
		y = zzSym_%[1]s(zzDepth)
		zzL = zzSymLeaves{}
	}
	vx, vy := zzFrom_%[1]s(x), zzFrom_%[1]s(y)
	zzrt.Assume(!zzHasNaN(zzT_%[1]s, vx) && !zzHasNaN(zzT_%[1]s, vy))
	got := x.DeepEqual(y)
	want := zzSameValue(zzT_%[1]s, vx, vy)
	zzrt.Assert(got == want, "DeepEqual is true exactly when both hold the same value")
	zzrt.Assert(y.DeepEqual(x) == got, "DeepEqual is symmetric")
	zzrt.Assert(x.DeepEqual(x), "DeepEqual is reflexive")
	if want {
		zzrt.Cover("equal")
	} else {
		zzrt.Cover("different")
	}
}

// H_C18_nested_%[1]s: as mode 1 with outer containers of length 2 whose inner containers have
// length 0, 1, 0, 1 ... by position (an inner container that is empty on both sides, followed by
// elements with independent leaves).
func H_C18_nested_%[1]s() {
	zzLen = 2
	zzInnerAlt = true
	rec := &zzRecLeaves{}
	zzL = rec
	zzAlt = 0
	x := zzSym_%[1]s(zzDepth)
	zzL = &zzMirrorLeaves{rec: rec, flip: zzrt.Choose("flip", len(rec.bools)+len(rec.chooses)+1)}
	zzAlt = 0
	y := zzSym_%[1]s(zzDepth)
	zzL = zzSymLeaves{}
	zzInnerAlt = false
	vx, vy := zzFrom_%[1]s(x), zzFrom_%[1]s(y)
	zzrt.Assume(!zzHasNaN(zzT_%[1]s, vx) && !zzHasNaN(zzT_%[1]s, vy))
	got := x.DeepEqual(y)
	want := zzSameValue(zzT_%[1]s, vx, vy)
	zzrt.Assert(got == want, "DeepEqual is true exactly when both hold the same value (containers in containers)")
	zzrt.Assert(y.DeepEqual(x) == got, "DeepEqual is symmetric")
	if want {
		zzrt.Cover("equal")
	} else {
		zzrt.Cover("different")
	}
}

// H_C18_nil_%[1]s: nil receivers and arguments never panic.
func H_C18_nil_%[1]s() {
	zzLen = 1
	x := zzSym_%[1]s(zzDepth)
	var nilp *%[2]s
	zzrt.Assert(!x.DeepEqual(nil), "a value differs from nil")
	zzrt.Assert(!nilp.DeepEqual(x), "nil differs from a value")
	zzrt.Assert(nilp.DeepEqual(nil), "nil equals nil")
	zzrt.Assert((&%[2]s{}).DeepEqual(&%[2]s{}), "zero values are equal")
	zzrt.Cover("end")
}

`, n, gn)
		hasSet := false
		for _, f := range s.Fields {
			if _, rt := g.p.resolve(g.f, f.Type); rt.Kind == "set" {
				hasSet = true
			}
		}
		if hasSet {
			fmt.Fprintf(&sb, `// H_C18_setdup_%[1]s: Write rejects exactly the sets that contain two equal elements.
func H_C18_setdup_%[1]s(n int) {
	zzLen = n
	zzL = &zzSymLeavesFree{k: -1}
	x := zzSym_%[1]s(zzDepth)
	zzL = zzSymLeaves{}
	vx := zzFrom_%[1]s(x)
	zzrt.Assume(!zzHasNaN(zzT_%[1]s, vx))
	dup := zzSetDup(zzT_%[1]s, vx)
	_, err := zzWriteBytes(x)
	zzrt.Assert((err != nil) == dup, "Write fails exactly when a set holds two equal elements")
	if dup {
		zzrt.Cover("dup")
	} else {
		zzrt.Cover("nodup")
	}
}

`, n)
		}
	}
	return sb.String()
}

func c18Harnesses(prog *MProgram) []Harness {
	var hs []Harness
	for _, f := range prog.Files {
		for _, s := range f.Structs {
			// thorough adds independent pairs (mode 0) to the quick bound; length-2 containers and
			// three-element sets were tried and did not finish within 50 minutes (section 10.4)
			th := tuples(seq(0, 1), seq(0, 1))
			if containerHeavy(&s) {
				// measured: independent x, y with every container of length 2 does not finish in the thorough budget
				th = tuples(seq(0, 1), seq(0, 1)) // (mirrored pairs of length 2 did not finish in 45 min either)
			}
			hs = append(hs, Harness{Func: "H_C18_deepequal_" + s.Name, Quick: tuples([]int64{1}, seq(0, 1)), Thorough: th, Covers: []string{"equal", "different"}})
			hs = append(hs, Harness{Func: "H_C18_nil_" + s.Name, Covers: []string{"end"}})
			if s.Name == "Nest" {
				hs = append(hs, Harness{Func: "H_C18_nested_" + s.Name, Covers: []string{"equal", "different"}})
			}
			for _, fl := range s.Fields {
				if fl.Type.Kind == "set" {
					hs = append(hs, Harness{Func: "H_C18_setdup_" + s.Name, Quick: rng(2, 2), Thorough: rng(2, 2), Covers: []string{"dup", "nodup"}})
					break
				}
			}
		}
	}
	return hs
}

func init() {
	register(&Prop{
		ID: "C18", QuickBudget: 25 * time.Minute, ThoroughBudget: 90 * time.Minute,
		Functions:   []string{"generated (*T).DeepEqual and FieldNDeepEqual for every struct-like of the corpus", "generated Write (set uniqueness validation)", "strings.Compare / bytes.Compare"},
		Bounds:      "two independent symbolic values x, y of every struct-like of the corpus (all leaves full-width symbolic, optional presence symbolic, map keys symbolic so key sets may differ), containers/strings of length n in 0..1; quick: y mirrors the presence structure of x except one free member, thorough: also fully independent pairs; set validation with 2 free elements per set",
		Assumptions: []string{"doubles are not NaN (the statement does not say)", "struct-typed map values and list elements are non-nil", "struct-typed map keys are outside the corpus", "the programs dimension is the designed corpus"},
		Variants: []*Prop{
			genVariantCorpus("gen_deep_equal", "gen_deep_equal", genOpts{}, "zzgen/a", entryC18, c18Harnesses, corpusNoStructSet),
		},
	})
}

// entryC10 emits the fastgo codec harnesses.
func entryC10(g *harnessGen, pkg string) string {
	var sb strings.Builder
	sb.WriteString(entryC02(g, pkg))
	for _, s := range g.f.Structs {
		n, gn := s.Name, goName(s.Name)
		fmt.Fprintf(&sb, `// H_C10_append_%[1]s: FastAppend writes a reference encoding of the value and BLength is its length.
func H_C10_append_%[1]s(n int) {
	zzLen = n
	v := zzSym_%[1]s(zzDepth)
	want := zzFrom_%[1]s(v)
	b := v.FastAppend(nil)
	zzrt.Assert(len(b) == v.BLength(), "BLength equals the number of bytes FastAppend writes")
	buf := make([]byte, v.BLength())
	zzrt.Assert(v.FastWrite(buf) == len(b), "FastWrite reports the same length")
	r := &zzReader{b: b}
	got := zzDec(r, zzT_%[1]s)
	zzrt.Assert(!r.bad && len(r.b) == 0, "FastAppend produces a well formed encoding of the declared schema")
	zzAssertEq(zzT_%[1]s, got, want, "FastAppend")
	r2 := &zzReader{b: buf}
	zzAssertEq(zzT_%[1]s, zzDec(r2, zzT_%[1]s), want, "FastWrite")
	zzrt.Cover("end")
}

// H_C10_fastread_%[1]s: FastRead of the reference encoding (what the standard Write produces) yields the value.
func H_C10_fastread_%[1]s(n int) {
	zzLen = n
	v := zzSym_%[1]s(zzDepth)
	want := zzFrom_%[1]s(v)
	b := zzEnc(nil, zzT_%[1]s, want)
	p := New%[2]s()
	off, err := p.FastRead(b)
	zzrt.Assert(err == nil, "FastRead accepts the reference encoding")
	zzrt.Assert(off == len(b), "FastRead consumes the whole struct")
	zzAssertEq(zzT_%[1]s, zzFrom_%[1]s(p), want, "FastRead")
	zzrt.Cover("end")
}

// H_C10_agree_%[1]s: on perturbed encodings (unknown field / retagged field / deleted field)
// FastRead and the standard Read agree on failure and on the object.
func H_C10_agree_%[1]s(kind, i int) {
	if i >= len(zzSt_%[1]s.Fields) {
		return
	}
	zzLen = 1
	f := zzSt_%[1]s.Fields[i]
	var v *%[2]s
	zzWithPresenceBudget(zzPresenceBudget, func() { v = zzSym_%[1]s(zzDepth) })
	want := zzFrom_%[1]s(v)
	var m zzMod
	switch kind {
	case 0:
		id := zzrt.Int16("uid")
		zzrt.Assume(!zzT_%[1]s.hasField(id))
		wt := zzWireTypes[zzrt.Choose("wt", len(zzWireTypes))]
		m = zzMod{Insert: true, InsertAt: i, Extra: zzFieldBytes(wt, id)}
	case 1:
		if want.field(f.ID) == nil {
			return
		}
		wt := zzWireTypes[zzrt.Choose("wt", len(zzWireTypes))]
		zzrt.Assume(wt != zzWire(f.T))
		m = zzMod{Retag: true, RetagID: f.ID, RetagBytes: zzFieldBytes(wt, f.ID)}
	default:
		if want.field(f.ID) == nil {
			return
		}
		m = zzMod{Skip: true, SkipID: f.ID}
	}
	b := zzEncMod(zzT_%[1]s, want, m)
	ps, pf := New%[2]s(), New%[2]s()
	errS := ps.Read(zzProtoOver(b))
	_, errF := pf.FastRead(b)
	zzrt.Assert((errS == nil) == (errF == nil), "FastRead fails exactly when the standard Read fails")
	if errS == nil {
		zzAssertEq(zzT_%[1]s, zzFrom_%[1]s(pf), zzFrom_%[1]s(ps), "FastRead vs Read")
	}
	zzrt.Cover("end")
}

// H_C10_subset_%[1]s: ANY subset of the required fields may be missing (the required-field check
// of FastRead works on a bitset, word by word): FastRead fails exactly when the standard Read
// fails, i.e. exactly when the subset is not empty.
func H_C10_subset_%[1]s() {
	zzLen = 0
	var v *%[2]s
	zzWithPresenceBudget(0, func() { v = zzSym_%[1]s(zzDepth) })
	want := zzFrom_%[1]s(v)
	skip := map[int16]bool{}
	for _, f := range zzSt_%[1]s.Fields {
		if f.Req == 1 && zzrt.Bool("missing") {
			skip[f.ID] = true
		}
	}
	b := zzEncMod(zzT_%[1]s, want, zzMod{SkipSet: skip})
	ps, pf := New%[2]s(), New%[2]s()
	errS := ps.Read(zzProtoOver(b))
	_, errF := pf.FastRead(b)
	zzrt.Assert((errS != nil) == (len(skip) > 0), "the standard Read fails exactly when a required field is missing")
	zzrt.Assert((errF != nil) == (len(skip) > 0), "FastRead fails exactly when a required field is missing")
	zzrt.Cover("end")
}

// H_C10_trunc_%[1]s: every proper prefix of a valid encoding makes FastRead return an error (no panic).
func H_C10_trunc_%[1]s(seed, n int) {
	zzLen = n
	zzL = &zzFixedLeaves{s: uint64(seed)} // the value is fixed: only the cut position is free
	v := zzSym_%[1]s(zzDepth)
	zzL = zzSymLeaves{}
	b := zzEnc(nil, zzT_%[1]s, zzFrom_%[1]s(v))
	cut := zzrt.Choose("cut", len(b))
	p := New%[2]s()
	_, err := p.FastRead(b[:cut:cut])
	zzrt.Assert(err != nil, "FastRead reports truncated input")
	zzrt.Cover("end")
}

// H_C10_corrupt_%[1]s: one type byte of a valid encoding is replaced by a free byte: FastRead returns (no panic).
func H_C10_corrupt_%[1]s(seed, n int) {
	zzLen = n
	zzL = &zzFixedLeaves{s: uint64(seed)} // the value is fixed: position and replacement byte are free
	v := zzSym_%[1]s(zzDepth)
	zzL = zzSymLeaves{}
	want := zzFrom_%[1]s(v)
	b := zzEnc(nil, zzT_%[1]s, want)
	var offs []int
	zzTypeOffsets(zzT_%[1]s, want, 0, &offs)
	k := offs[zzrt.Choose("pos", len(offs))]
	b[k] = zzrt.Byte("t")
	p := New%[2]s()
	_, _ = p.FastRead(b)
	zzrt.Cover("end")
}

`, n, gn)
	}
	return sb.String()
}

func c10Harnesses(prog *MProgram) []Harness {
	var hs []Harness
	for _, f := range prog.Files {
		for _, s := range f.Structs {
			nf := int64(len(s.Fields)) - 1
			th := rng(0, 2)
			if containerHeavy(&s) {
				th = rng(0, 1) // measured: length 2 in every container of such a struct does not finish in 80 min
			}
			hs = append(hs,
				Harness{Func: "H_C10_append_" + s.Name, Quick: rng(0, 1), Thorough: th, Covers: []string{"end"}},
				Harness{Func: "H_C10_fastread_" + s.Name, Quick: rng(0, 1), Thorough: th, Covers: []string{"end"}},
				Harness{Func: "H_C10_agree_" + s.Name, Quick: tuples(seq(0, 2), seq(0, nf)), Covers: []string{"end"}},
				Harness{Func: "H_C10_subset_" + s.Name, Covers: []string{"end"}},
				Harness{Func: "H_C10_trunc_" + s.Name, Quick: tuples(seq(1, 3), seq(1, 1)), Thorough: tuples(seq(1, 8), seq(0, 2)), Covers: []string{"end"}},
				Harness{Func: "H_C10_corrupt_" + s.Name, Quick: tuples(seq(1, 3), seq(1, 1)), Thorough: tuples(seq(1, 8), seq(1, 2)), Covers: []string{"end"}, AllowInconclusive: []string{"hugealloc"}},
			)
		}
	}
	return hs
}

func init() {
	register(&Prop{
		ID: "C10", QuickBudget: 25 * time.Minute, ThoroughBudget: 90 * time.Minute,
		Functions:   []string{"generated BLength / FastAppend / FastWrite / FastWriteNocopy / FastRead (k-*.go) and the standard Read/Write of the fastgo backend", "cloudwego/gopkg v0.2.0 protocol/thrift BinaryProtocol (interpreted; Skip replaced by a safe-Go model with the same contract)", "reference codec (harness)"},
		Bounds:      "corpus a.thrift under -g fastgo (plus the ext-shapes corpus: defaults of the remaining base types, enums inside containers, containers nested 4 deep, map of maps of lists of structs, field ids 32767 and -32768; round trips and truncation only); values as in C02 (n<=1 quick, <=2 thorough); robustness on 3 (thorough 8) fixed pseudo-random values per struct-like: every truncation point of the reference encoding; every type byte (field header, STOP, list/set element type, map key/value type) replaced by a FREE byte; unknown / retagged / deleted field agreement with the standard Read (first 4 presence decisions symbolic); ANY subset of the required fields missing (all 2^14 subsets of the 14 required fields of Many, 2^9 of Nine)",
		Assumptions: []string{"gopkg's BinaryProtocol.Skip (raw pointer walk) is replaced by the safe-Go model /verif/harness/gencommon/zzskip (a defect inside Skip itself would be invisible, its over-run behaviour is mirrored)", "an allocation with a symbolic size >= 2^24 ends the path (reported as tolerated 'hugealloc', only in the corruption harness)", "the programs dimension is the designed corpus"},
		Variants: []*Prop{
			{Label: "fastgo", Pkg: "zzgen/a", NoOverlay: true, Diff: []string{"D_GEN_roundtrip"}, Prepare: func(r *runner) error {
				prog := corpusMain()
				r.spec.Harnesses = c10Harnesses(prog)
				return prepareGenerated(r, prog, genConfig{Backend: "fastgo"}, entryC10)
			}},
			{Label: "ext-shapes", Pkg: "zzgen/a", NoOverlay: true, Diff: []string{"D_GEN_roundtrip"}, Prepare: func(r *runner) error {
				prog := corpusExt()
				var hs []Harness
				for _, h := range c10Harnesses(prog) {
					if strings.HasPrefix(h.Func, "H_C10_append_") || strings.HasPrefix(h.Func, "H_C10_fastread_") || strings.HasPrefix(h.Func, "H_C10_trunc_") {
						hs = append(hs, h)
					}
				}
				r.spec.Harnesses = hs
				return prepareGenerated(r, prog, genConfig{Backend: "fastgo"}, entryC10)
			}},
		},
	})
}

func c06Variant(label, options string) *Prop {
	return &Prop{Label: label, Pkg: "zzgen/c06/cm", NoOverlay: true, Diff: []string{"D_C06_1"},
		Harnesses: []Harness{
			{Func: "H_C06_consts", Covers: []string{"end"}},
			{Func: "H_C06_new", Covers: []string{"end"}},
			{Func: "H_C06_isset", Covers: []string{"end", "oi-set", "oi-unset"}},
		},
		Prepare: func(r *runner) error {
			return prepareStatic(r, "c06gen", []string{"main.thrift", "inc.thrift", "inc2.thrift"}, "go", options, "c06/cm")
		}}
}

func init() {
	register(&Prop{
		ID:          "C06",
		Functions:   []string{"generated package init (constants and variables), NewX, InitDefault, GetX, IsSetX for main.thrift/inc.thrift of harness/c06gen", "generator/golang/resolver.go (exercised through its output)"},
		Bounds:      "38 constants covering every way of writing a value (literal, identifier, qualified identifier, enum by name/number/bare member, int for double, 0/1 for bool, both quote kinds, nested list/set/map literals, struct literals incl. partial and across includes) and a struct with 25 fields (defaults of every category incl. constant references and included enums); IsSet/getter semantics for EVERY value of each optional field with a default (full-width symbolic); configurations: default, enum_as_int_32, naming styles",
		Assumptions: []string{"constant initialisers contain no free variable: that part is a degenerate (one path) encoding", "expected values are written by hand from the IDL's rules (docs/string-literals-in-the-IDL.md)", "the programs dimension is this one designed program"},
		Variants: []*Prop{
			c06Variant("default", ""),
			c06Variant("enum_as_int_32", "enum_as_int_32"),
			c06Variant("golint", "naming_style=golint"),
			c06Variant("apache", "naming_style=apache"),
		},
	})
}

func init() {
	hs := []Harness{
		{Func: "H_C09_new_to_old", Covers: []string{"end"}},
		{Func: "H_C09_old_to_new", Covers: []string{"end"}},
		{Func: "H_C09_chain", Covers: []string{"end"}},
	}
	register(&Prop{
		ID:          "C09",
		Functions:   []string{"generated Read/Write of two schema versions (harness/c09gen old.thrift, new.thrift)", "default branch of the Read switch (Skip)", "apache thrift TBinaryProtocol.Skip (interpreted)"},
		Bounds:      "one designed pair (old, new): new adds an optional scalar, a default struct field, a map of lists, an optional double with default, an optional struct at the root; an optional string and a list inside a nested struct (also reached through list elements and map values); a union arm; an enum member; optional bool, byte, i16, enum, binary, set and memberless-struct fields at the end of the root and a bool at the end of a nested struct (each possibly the last unknown field); unknown maps preceded by an unknown string of 0..9 (thorough 20) bytes and an optional list (the unknown-field store is a geometrically growing byte buffer). All scalar leaves of the newer value symbolic (full width), presence of every added/optional member symbolic, containers of length 1 (plus unknown lists of 3, 63, 64, 65 and 130 elements at top level, inside an unknown struct and inside an unknown map under keep_unknown_fields: the codec's nesting budget is 64); chains new->old, old->new, new->old->new->old",
		Assumptions: []string{"the (old,new) pairs dimension is this one designed pair", "keep_unknown_fields round trip is checked in variant 'keep' when the reflective protocol adapter can be executed"},
		Variants: []*Prop{
			{Label: "default", Pkg: "zzgen/c09/all", NoOverlay: true, Diff: []string{"D_C09_1"}, Harnesses: hs, Prepare: func(r *runner) error {
				return prepareStatic(r, "c09gen", []string{"all.thrift", "old.thrift", "new.thrift"}, "go", "", "c09/all")
			}},
			{Label: "keep", Pkg: "zzgen/c09/all", NoOverlay: true, Diff: []string{"D_C09_1"},
				Harnesses: append(append([]Harness{}, hs...), Harness{Func: "H_C09_keep", Covers: []string{"end"}}, Harness{Func: "H_C09_keep_none", Covers: []string{"end"}}, Harness{Func: "H_C09_keep_kinds", Covers: []string{"end"}}, Harness{Func: "H_C09_keep_fill", Quick: rng(0, 9), Thorough: rng(0, 20), Covers: []string{"end"}}, Harness{Func: "H_C09_keep_long", Quick: [][]int64{{3}, {63}, {64}, {65}, {130}}, Covers: []string{"end"}}),
				Prepare: func(r *runner) error {
					if err := prepareStatic(r, "c09gen", []string{"all.thrift", "old.thrift", "new.thrift"}, "go", "keep_unknown_fields", "c09/all"); err != nil {
						return err
					}
					b, err := os.ReadFile("/verif/harness/c09keep/hk.go")
					if err != nil {
						return err
					}
					return os.WriteFile(filepath.Join(r.dir, "c09/all/zz_hk.go"), b, 0o644)
				}},
		},
	})
}

func init() {
	register(&Prop{
		ID:          "C08",
		Functions:   []string{"generated CalcClient methods, CalcProcessor.Process, calcProcessorX.Process, *Args/*Result codecs (harness/c08gen svc.thrift extends base.thrift)", "apache thrift v0.13.0 TStandardClient.Call/Send/Recv, TBinaryProtocol message framing, TApplicationException (interpreted)", "loopback transport (harness)"},
		Bounds:      "one designed service (value method with two declared exceptions at ids 1 and 4 and arguments at ids 1 and 3, void method with an exception, oneway, no-argument method, method/parameter named like Go keywords, a method inherited across an include); all argument/result/exception members symbolic (strings of 1-2 bytes, list of 1), handler behaviour a free choice among {result, each declared exception, foreign error}; a sequence of 5 calls on one connection; unknown method names of 0..5 FREE bytes with a free sequence id",
		Assumptions: []string{"client and processor meet through a synchronous loopback transport (no sockets, no concurrency)", "the programs dimension is this one designed service"},
		Variants: []*Prop{
			{Label: "default", Pkg: "zzgen/c08/svc", NoOverlay: true, Diff: []string{"D_C08_1"},
				Harnesses: []Harness{
					{Func: "H_C08_compute", Covers: []string{"result", "bad", "worse", "foreign"}},
					{Func: "H_C08_sequence", Covers: []string{"end"}},
					{Func: "H_C08_unknown_method", Quick: rng(0, 5), Covers: []string{"end"}},
				},
				Prepare: func(r *runner) error {
					return prepareStatic(r, "c08gen", []string{"svc.thrift", "base.thrift"}, "go", "", "c08/svc")
				}},
		},
	})
}
