package main

// The designed corpus of IDL shapes (the sampled "programs" dimension of the generated-code
// properties). Names are chosen so that the Go identifier is the capitalised IDL name under
// every naming style (no initialisms, no underscores).

func fld(id int, name, req string, t *TRef, def ...string) MField {
	f := MField{ID: id, Name: name, Req: req, Type: t}
	if len(def) > 0 {
		f.Default = def[0]
	}
	return f
}

// corpusMain is the full corpus; corpusNoStructSet leaves out set<Inner> (DeepEqual over sets of
// structs multiplies the paths of C18 beyond its budget).
func corpusMain() *MProgram { return corpusBuild(true, true) }

// corpusNoStructSet: without set<Inner> and without the defaulted optional member of Inner (both
// multiply the paths of the pairwise DeepEqual exploration of C18 beyond its budget; neither
// matters for structural equality).
func corpusNoStructSet() *MProgram { return corpusBuild(false, false) }

func corpusBuild(structSet, elemDefault bool) *MProgram {
	f := &MFile{Path: "a.thrift", Namespace: "a"}
	f.Enums = []MEnum{{Name: "Color", Values: []struct {
		Name string
		Val  int
	}{{"Red", 1}, {"Green", 5}, {"Blue", -2}}}}
	f.Typedefs = []MTypedef{
		{Name: "Ident", Type: tBase("i64")},
		{Name: "Names", Type: tList(tBase("string"))},
		{Name: "Shade", Type: tEnum("Color")},
		{Name: "Leaf", Type: tStruct("Inner")},
	}
	f.Structs = []MStruct{
		{Kind: "struct", Name: "Inner", Fields: []MField{
			fld(1, "xx", "required", tBase("i32")),
			fld(2, "ss", "optional", tBase("string")),
			fld(3, "dv", "optional", tBase("i32"), "9"), // elements of containers must get their defaults too
		}},
		{Kind: "struct", Name: "Scalars", Fields: []MField{
			fld(1, "rr", "required", tBase("i32")),
			fld(2, "dd", "", tBase("i64"), "7"),
			fld(3, "oo", "optional", tBase("i16")),
			fld(4, "od", "optional", tBase("i32"), "5"),
			fld(5, "st", "", tBase("string")),
			fld(6, "bb", "", tBase("binary")),
			fld(7, "ff", "", tBase("double")),
			fld(8, "tt", "", tBase("bool")),
			fld(9, "yy", "", tBase("byte")),
			fld(10, "ee", "", tEnum("Color")),
			fld(11, "oe", "optional", tEnum("Color")),
			fld(12, "ob", "optional", tBase("bool"), "true"),
			fld(13, "os", "optional", tBase("string"), "\"dflt\""),
			fld(14, "of", "optional", tBase("double")),
			fld(-1, "ng", "optional", tBase("byte")),
			fld(300, "hi", "required", tBase("i64")),
		}},
		{Kind: "struct", Name: "Containers", Fields: []MField{
			fld(1, "li", "", tList(tBase("i32"))),
			fld(2, "ss", "", tSet(tBase("string"))),
			fld(3, "mm", "", tMap(tBase("string"), tStruct("Inner"))),
			fld(4, "ls", "", tList(tStruct("Inner"))),
			fld(5, "ol", "optional", tList(tBase("i64"))),
			fld(6, "ml", "", tMap(tBase("i32"), tList(tBase("string")))),
			fld(7, "ll", "required", tList(tList(tBase("i16")))),
			fld(8, "me", "", tMap(tEnum("Color"), tBase("binary"))),
			fld(9, "sb", "optional", tSet(tBase("byte"))),
			fld(10, "lb", "", tList(tBase("bool"))),
			fld(11, "ld", "", tList(tBase("double"))),
			fld(12, "mi", "", tMap(tBase("string"), tBase("i64"))),
			fld(13, "mb", "optional", tMap(tBase("i16"), tBase("bool"))),
		}},
		{Kind: "struct", Name: "Nested", Fields: []MField{
			fld(1, "in", "", tStruct("Inner")),
			fld(2, "oi", "optional", tStruct("Inner")),
			fld(3, "ri", "required", tStruct("Inner")),
			fld(4, "idn", "", tTypedef("Ident")),
			fld(5, "nm", "optional", tTypedef("Names")),
			fld(6, "sh", "", tTypedef("Shade")),
			fld(7, "lf", "optional", tTypedef("Leaf")),
			fld(8, "uu", "optional", tStruct("Choice")),
		}},
		{Kind: "struct", Name: "Tree", Fields: []MField{
			fld(1, "vv", "required", tBase("i32")),
			fld(2, "kid", "optional", tStruct("Tree")),
			fld(3, "kids", "optional", tList(tStruct("Tree"))),
		}},
		{Kind: "union", Name: "Choice", Fields: []MField{
			fld(1, "aa", "", tBase("i32")),
			fld(2, "bb", "", tBase("string")),
			fld(3, "cc", "", tStruct("Inner")),
			fld(4, "dd", "", tList(tBase("i32"))),
		}},
		{Kind: "struct", Name: "Many", Fields: manyRequired(14)},
		{Kind: "exception", Name: "Oops", Fields: []MField{
			fld(1, "msg", "", tBase("string")),
			fld(2, "code", "optional", tBase("i32")),
		}},
	}
	if !elemDefault {
		for i := range f.Structs {
			if f.Structs[i].Name == "Inner" {
				f.Structs[i].Fields = f.Structs[i].Fields[:2]
			}
		}
	}
	if !structSet {
		// C18 only: containers inside containers (an inner container that is empty on both sides
		// followed by elements that differ)
		f.Structs = append(f.Structs, MStruct{Kind: "struct", Name: "Nest", Fields: []MField{
			fld(1, "ll", "", tList(tList(tBase("i32")))),
			fld(2, "lm", "", tList(tMap(tBase("i32"), tBase("string")))),
			fld(3, "ml", "optional", tMap(tBase("i32"), tList(tBase("i64")))),
		}})
	}
	if structSet {
		// a second width of the required-field bitset of the fastgo reader (9 = one word + 1)
		f.Structs = append(f.Structs, MStruct{Kind: "struct", Name: "Nine", Fields: manyRequired(9)})
		for i := range f.Structs {
			if f.Structs[i].Name == "Containers" {
				f.Structs[i].Fields = append(f.Structs[i].Fields, fld(14, "si", "", tSet(tStruct("Inner"))))
			}
		}
	}
	return &MProgram{Files: []*MFile{f}}
}

// manyRequired: n required scalar fields (more than one word of the fastgo required-field bitset).
func manyRequired(n int) []MField {
	var fs []MField
	for i := 1; i <= n; i++ {
		t := tBase("i32")
		if i%5 == 0 {
			t = tBase("string")
		}
		fs = append(fs, fld(i, "q"+string(rune('a'+i-1)), "required", t))
	}
	return fs
}

// corpusExt: shapes the quantifiers of C02/C10 name that the main corpus does not hold (optional
// members with defaults of the remaining base types, enums inside containers, containers nested
// four deep, a map of maps of lists of structs). Kept in a corpus of its own so that its cost
// adds to, instead of multiplying, the cost of the main corpus.
func corpusExt() *MProgram {
	f := &MFile{Path: "a.thrift", Namespace: "a"}
	f.Enums = []MEnum{{Name: "Color", Values: []struct {
		Name string
		Val  int
	}{{"Red", 1}, {"Green", 5}}}}
	f.Typedefs = []MTypedef{{Name: "Deep", Type: tList(tList(tList(tList(tBase("i32")))))}}
	f.Structs = []MStruct{
		{Kind: "struct", Name: "Leaf", Fields: []MField{
			fld(1, "vv", "", tBase("i64")),
			fld(2, "ow", "optional", tBase("i16"), "3"),
		}},
		{Kind: "struct", Name: "Ext", Fields: []MField{
			fld(1, "oa", "optional", tBase("i16"), "3"),
			fld(2, "ob", "optional", tBase("i64"), "-4"),
			fld(3, "oc", "optional", tBase("double"), "2.5"),
			fld(4, "od", "optional", tBase("byte"), "7"),
			fld(5, "oe", "optional", tEnum("Color"), "5"),
			fld(6, "db", "", tBase("bool"), "true"),
			fld(7, "le", "", tList(tEnum("Color"))),
			fld(8, "se", "optional", tSet(tEnum("Color"))),
			fld(9, "dp", "", tTypedef("Deep")),
			fld(10, "mm", "", tMap(tBase("string"), tMap(tBase("i32"), tList(tStruct("Leaf"))))),
			fld(32767, "mx", "optional", tBase("i32")),
			fld(-32768, "mn", "optional", tBase("i32")),
		}},
	}
	return &MProgram{Files: []*MFile{f}}
}
