package main

import (
	"fmt"
	"os"
	"path/filepath"
	"regexp"
	"strings"
)

var readmeRow = regexp.MustCompile("^\\| `([a-z_0-9]+)` \\| ([^|]*) \\|")

// prepareC20 parses the option table of README.md (name, documented default) and adds it to
// the overlay as a Go table.
func prepareC20(r *runner) error {
	b, err := os.ReadFile(filepath.Join(r.dir, "README.md"))
	if err != nil {
		return err
	}
	var sb strings.Builder
	sb.WriteString("//zz:target generator/golang\npackage golang\n\ntype zzReadmeOpt struct {\n\tname string\n\tdef  bool\n}\n\nvar zzReadmeOptions = []zzReadmeOpt{\n")
	n := 0
	for _, line := range strings.Split(string(b), "\n") {
		m := readmeRow.FindStringSubmatch(line)
		if m == nil {
			continue
		}
		def := strings.TrimSpace(m[2])
		switch def {
		case "false":
			fmt.Fprintf(&sb, "\t{%q, false},\n", m[1])
			n++
		case "**true**", "true":
			fmt.Fprintf(&sb, "\t{%q, true},\n", m[1])
			n++
		}
	}
	sb.WriteString("}\n")
	if n < 10 {
		return fmt.Errorf("README.md option table not found (%d rows)", n)
	}
	return r.addGenerated("generator/golang", "readme_options.go", sb.String())
}
