package main

func rng(lo, hi int64) [][]int64 {
	var r [][]int64
	for i := lo; i <= hi; i++ {
		r = append(r, []int64{i})
	}
	return r
}

// cross builds all tuples (a, b) for a in as, b in lo..hi.
func cross(as []int64, lo, hi int64) [][]int64 {
	var r [][]int64
	for _, a := range as {
		for b := lo; b <= hi; b++ {
			r = append(r, []int64{a, b})
		}
	}
	return r
}

// tuples builds the cartesian product as × bs.
func tuples(as, bs []int64) [][]int64 {
	var r [][]int64
	for _, a := range as {
		for _, b := range bs {
			r = append(r, []int64{a, b})
		}
	}
	return r
}

func seq(lo, hi int64) []int64 {
	var r []int64
	for i := lo; i <= hi; i++ {
		r = append(r, i)
	}
	return r
}

func init() {
	register(&Prop{
		ID:          "C14",
		HarnessDirs: []string{"c14"},
		Pkg:         "github.com/cloudwego/thriftgo/fieldmask",
		Diff:        []string{"D_C14_1", "D_C14_2", "D_C14_3", "D_C14_4"},
		Functions: []string{"fieldmask.NewFieldMask", "fieldmask.(*FieldMask).addPath", "fieldmask.(*pathIterator).Next/lit/str", "fieldmask.newPathToken",
			"fieldmask.(*FieldMask).Field/Int/Str/All/GetPath/PathInMask", "fieldmask.fieldMap/intMap/strMap", "thrift_reflection.RegisterAST + lookups", "strconv.Atoi/Unquote"},
		Bounds: "path = fixed context prefix (11 contexts) + N free bytes (quick N<=3, thorough N<=4)",
		Assumptions: []string{"fieldmask.newPathValueStr/pathValue.Str (string header smuggled through unsafe.Pointer) are modelled at function level",
			"math/rand.Read is a stub returning a fixed pattern", "JSON (un)marshalling is outside (encoding/json is not encodable)"},
		Harnesses: []Harness{
			{Func: "H_C14_total", Quick: cross(seq(0, 10), 0, 2), Thorough: cross(seq(0, 10), 0, 4), Covers: []string{"accepted", "rejected"}},
			{Func: "H_C14_digits", Quick: digitTuples(), Covers: []string{"accepted", "rejected"}},
		},
	})
}

// digitTuples: (context, fixed leading digits, free digits): 1..10 free digits, and 19/20-digit
// numbers around MaxInt64 with the last 3 digits free (a 64-bit multiply chain over 19 free
// digits does not finish in any back end: measured 250-310 s per instance).
func digitTuples() [][]int64 {
	var r [][]int64
	for ctx := int64(0); ctx < 4; ctx++ {
		for _, t := range [][2]int64{{0, 1}, {0, 2}, {0, 10}, {16, 3}, {17, 3}} {
			r = append(r, []int64{ctx, t[0], t[1]})
		}
	}
	return r
}
