package main

import "time"

func rng(lo, hi int64) [][]int64 {
	var r [][]int64
	for i := lo; i <= hi; i++ {
		r = append(r, []int64{i})
	}
	return r
}

// cross builds all tuples (a, b) for a in as, b in lo..hi.
func cross(as []int64, lo, hi int64) [][]int64 {
	var r [][]int64
	for _, a := range as {
		for b := lo; b <= hi; b++ {
			r = append(r, []int64{a, b})
		}
	}
	return r
}

// tuples builds the cartesian product as × bs.
func tuples(as, bs []int64) [][]int64 {
	var r [][]int64
	for _, a := range as {
		for _, b := range bs {
			r = append(r, []int64{a, b})
		}
	}
	return r
}

func tuples3(as, bs, cs []int64) [][]int64 {
	var r [][]int64
	for _, a := range as {
		for _, b := range bs {
			for _, c := range cs {
				r = append(r, []int64{a, b, c})
			}
		}
	}
	return r
}

func seq(lo, hi int64) []int64 {
	var r []int64
	for i := lo; i <= hi; i++ {
		r = append(r, i)
	}
	return r
}

func everyOther(lo, hi int64) [][]int64 {
	var r [][]int64
	for i := lo; i <= hi; i += 2 {
		r = append(r, []int64{i})
	}
	return r
}

func init() {
	register(&Prop{
		ID:          "C03",
		HarnessDirs: []string{"astsig", "c03"},
		Pkg:         "github.com/cloudwego/thriftgo/parser",
		Diff:        []string{"D_C03_canonical", "D_C03_misc", "D_C03_unicode"},
		Functions: []string{"parser.ParseString", "parser.(*ThriftIDL).Init/Parse (PEG rule closures of thrift.peg.go)", "parser.(*parser).parse and the tree walk (parseHeader..parseThrows)",
			"parser.(*parser).pegText", "parser.(*Annotations).Append", "strconv.ParseInt/ParseFloat"},
		Bounds:      "totality: 34 syntactic contexts x N free ASCII bytes (quick N<=2, thorough N<=3) and one free byte >=0x80; ids/enum values: 3 members x 8 spellings with free digits; literals: 5 positions x 2 quotes x body of <=3 (thorough 4) free bytes; layout: every token boundary of a 190-token document with 1-2 free whitespace bytes, 3 comment styles with <=1 free byte, every list separator position",
		Assumptions: []string{"input bytes outside the free region are the fixed context", "the 64 KiB quantifier of the property is far outside the bound", "decimal spellings with a leading zero are not generated (their meaning is not fixed by the statement)"},
		Harnesses: []Harness{
			{Func: "H_C03_total", Quick: cross(seq(0, 33), 0, 2), Thorough: cross(seq(0, 33), 0, 3), Covers: []string{"accepted", "rejected"}, StepLimitIsViolation: true},
			{Func: "H_C03_total8", Quick: cross(seq(0, 33), 1, 2), Covers: []string{"end"}, StepLimitIsViolation: true},
			{Func: "H_C03_ids", Quick: idTuples(5, true), Thorough: idTuples(5, false), Covers: []string{"end"}},
			{Func: "H_C03_enum", Quick: enumTuples(true), Thorough: enumTuples(false), Covers: []string{"end"}},
			{Func: "H_C03_literal", Quick: litTuples(3), Thorough: litTuples(4), Covers: []string{"compared", "rejected"}},
			{Func: "H_C03_annotations", Covers: []string{"end"}},
			{Func: "H_C03_double", Quick: rng(0, 7), Covers: []string{"end"}},
			{Func: "H_C03_layout_ws", Quick: cross(seq(1, 195), 1, 1), Thorough: cross(seq(1, 195), 1, 2), Covers: []string{"end"}},
			{Func: "H_C03_layout_comment", Quick: commentTuples(1), Thorough: commentTuples(2), Covers: []string{"end"}},
			{Func: "H_C03_layout_sep", Quick: rng(0, 20), Covers: []string{"end"}},
		},
	})
	semFuncs := []string{"semantic.ResolveSymbols", "semantic.(*resolver).RegisterNames/ResolveType/ResolveConstValue/ResolveTypedefs/ResolveBaseService", "semantic.getEnum", "semantic.Deref",
		"semantic.SplitType/SplitValue/IDLPrefix", "semantic.(*checker).CheckAll (CheckGlobals, CheckEnums, CheckStructLikes, CheckUnions, CheckFunctions)", "parser.CircleDetect", "parser.(*Thrift).DepthFirstSearch (goroutine + channel)"}
	register(&Prop{
		ID:          "C05",
		HarnessDirs: []string{"astsig", "sem"},
		Pkg:         "github.com/cloudwego/thriftgo/semantic",
		Diff:        []string{"D_SEM_rich", "D_SEM_errors"},
		Functions:   semFuncs,
		Bounds:      "three-file include diamond (a -> x,y; x -> y) with same local names in x and y and typedef chains crossing files; one reference at a time is a FREE byte string of length n (type references n<=4 quick / 5 thorough at 7 positions; constant identifiers n<=5 / 6 at 4 positions; base service n<=3 / 4); definition order: 3 permutations per file",
		Assumptions: []string{"the reference resolver in the harness interprets a hand-written model of the three files", "definition names are fixed single letters; longer names are outside"},
		Harnesses: []Harness{
			{Func: "H_SEM_typeref", Quick: tuples3([]int64{0}, seq(0, 6), seq(1, 4)), Thorough: tuples3([]int64{0}, seq(0, 6), seq(1, 5)), Covers: []string{"bound", "unbound"}},
			{Func: "H_SEM_valref", Quick: tuples3([]int64{0}, seq(0, 3), seq(1, 5)), Thorough: tuples3([]int64{0}, seq(0, 3), seq(1, 6)), Covers: []string{"bound", "unbound"}},
			{Func: "H_SEM_extends", Quick: tuples([]int64{0}, seq(1, 3)), Thorough: tuples([]int64{0}, seq(1, 4)), Covers: []string{"bound", "unbound"}},
			{Func: "H_SEM_order", Covers: []string{"end"}},
		},
	})
	c04exit := &Prop{
		ID: "C04", Label: "exit-status", HarnessDirs: []string{"c04main"}, Pkg: "github.com/cloudwego/thriftgo",
		Harnesses: []Harness{{Func: "H_C04_exit", Covers: []string{"ok", "error", "panic"}, Confirm: confirmExit}},
	}
	c04pipe := &Prop{
		ID:          "C04",
		Label:       "pipeline",
		HarnessDirs: []string{"astsig", "sem"},
		Pkg:         "github.com/cloudwego/thriftgo/semantic",
		Diff:        []string{"D_SEM_rich", "D_SEM_errors"},
		Functions:   semFuncs,
		Bounds:      "in-process diagnosis pipeline CircleDetect -> CheckAll -> ResolveSymbols (as in sdk/invoke.go) on the three-file model: free reference strings as in C05 (error direction), duplicate globals of every kind pair with free 2-byte names in every file of the include graph, duplicate fields (free i32 ids, free names) in struct/union/exception/args/throws, enum with free names and free i64 numbers, function flags, union defaults (3 members), typedef targets (3 typedefs x 6 targets, with and without an enum-value constant), include matrices of 1..3 files",
		Assumptions: []string{"'no file written', message text and hangs of the real process are outside: the file system and os/exec are not encodable (the exit status is covered by the exit-status variant up to the stubbed compiler call)", "syntax errors are the error branch of C03", "constant/default type checking in the Go backend (resolver.go) is outside this check"},
		Harnesses: []Harness{
			{Func: "H_SEM_typeref", Quick: tuples3([]int64{1}, seq(0, 6), seq(1, 4)), Thorough: tuples3([]int64{1}, seq(0, 6), seq(1, 5)), Covers: []string{"bound", "unbound"}},
			{Func: "H_SEM_valref", Quick: tuples3([]int64{1}, seq(0, 3), seq(1, 5)), Thorough: tuples3([]int64{1}, seq(0, 3), seq(1, 6)), Covers: []string{"bound", "unbound"}},
			{Func: "H_SEM_extends", Quick: tuples([]int64{1}, seq(1, 3)), Thorough: tuples([]int64{1}, seq(1, 4)), Covers: []string{"bound", "unbound"}},
			{Func: "H_C04_dup_global", Quick: tuples3(seq(0, 6), seq(0, 6), []int64{0, 2}), Thorough: tuples3(seq(0, 6), seq(0, 6), seq(0, 2)), Covers: []string{"dup", "distinct"}},
			{Func: "H_C04_dup_field", Quick: rng(0, 4), Covers: []string{"dup", "distinct"}},
			{Func: "H_C04_enum", Covers: []string{"bad", "good"}},
			{Func: "H_C04_function", Covers: []string{"bad", "good"}},
			{Func: "H_C04_union_default", Covers: []string{"two", "one"}},
			{Func: "H_C04_typedef_cycle", Quick: rng(0, 1), Covers: []string{"cycle", "acyclic"}, StepLimitIsViolation: true, MaxSteps: 3000000},
			{Func: "H_C04_ambiguous", Quick: rng(0, 1), Covers: []string{"ambiguous", "one", "none"}},
			{Func: "H_C04_include_cycle", Quick: rng(1, 3), Covers: []string{"cycle", "dag"}, StepLimitIsViolation: true, MaxSteps: 3000000},
		},
	}
	c04kind := &Prop{
		ID: "C04", Label: "value-kinds", HarnessDirs: []string{"c04k"}, Pkg: "github.com/cloudwego/thriftgo/generator/golang",
		Harnesses: []Harness{{Func: "H_C04_constkind", Quick: rng(0, 3), Covers: []string{"bad", "other"}}},
	}
	register(&Prop{ID: "C04", Variants: []*Prop{c04pipe, c04exit, c04kind},
		Functions:   append(append([]string{}, semFuncs...), "main.main", "main.handlePanic"),
		Bounds:      c04pipe.Bounds + " || exit status: main.main with sdk.InvokeThriftgo replaced by an environment stub that ends in each of 6 ways (success, error, wrapped error, panic with an error, panic with a string, runtime error), os.Exit caught by the engine",
		Assumptions: append(append([]string{}, c04pipe.Assumptions...), "exit-status variant: InvokeThriftgo is a stub with forked outcomes (the pipeline itself is the other variant); a violation is confirmed by building the real main package with sdk/invoke.go overlaid by the same stub and observing the exit status of the process"),
	})
	register(&Prop{
		ID:          "C12",
		HarnessDirs: []string{"c12"},
		Pkg:         "github.com/cloudwego/thriftgo/generator",
		Diff:        []string{"D_C12_1"},
		Functions:   []string{"generator.(*FileManager).Feed", "generator.(*FileManager).BuildResponse", "generator.insertionPointReplacer (newInsertionPointReplacer/Add/Replace)", "plugin.InsertionPoint", "strings.NewReplacer(...).Replace (generic replacer, interpreted)"},
		Bounds:      "histories of 3 submissions (every combination of named file / named patch / unnamed patch) in one Feed call or split into two at every position; names are free choices among {a.go, b.go, c}; a separate harness feeds 2..3 (thorough 4) plain files named from {a.go, a_1.go, a_2.go}, contents among 3 texts with 0/1/3 markers, points among {p,q,r (absent)}; patch texts contain a FREE byte",
		Assumptions: []string{"the marker scan is a regexp call-out executed by the host on concrete file contents (contents are choices, not free bytes)", "persisting the response to disk is C19's subject"},
		Harnesses: []Harness{
			{Func: "H_C12_assemble", Quick: c12Tuples(true), Thorough: c12Tuples(false), Covers: []string{"assembled", "error"}},
			{Func: "H_C12_collision", Quick: rng(2, 3), Thorough: rng(2, 4), Covers: []string{"end"}},
			{Func: "H_C12_dup_patches", Covers: []string{"end"}},
		},
	})
	register(&Prop{
		ID:          "C17",
		HarnessDirs: []string{"astsig", "c17"},
		Pkg:         "github.com/cloudwego/thriftgo/tool/trimmer/dump",
		Diff:        []string{"D_C17_1"},
		Functions:   []string{"dump.DumpIDL (printStruct, printAnnotation, printConstTypedValue, typeName, stringBuilder.writeString)", "html.UnescapeString (interpreted)", "strings.Replace/ReplaceAll", "parser.ParseString", "semantic.CheckAll/ResolveSymbols"},
		Bounds:      "documents with free bytes in ONE literal at a time: 12 positions (const, default, annotation on field/struct/enum value/function/service/namespace/type, list and map constant elements, cpp_include) x both quote kinds x body of <=3 free ASCII bytes (thorough 4); placeholder prefixes (##34, #OUTQUOTE, &am, &#3, a\\) + <=2 free bytes; integer/double/id spellings with 2 free digits; service shapes: 0..2 arguments x 0..3 throws x oneway/void/extends/requiredness",
		Assumptions: []string{"source documents that the parser or checker rejects are skipped (precondition of the property)", "the deprecated template based DumpIDL_V1 is outside (html/template not encodable)"},
		Harnesses: []Harness{
			{Func: "H_C17_literal", Quick: tuples3(seq(0, 11), seq(0, 1), seq(0, 3)), Thorough: tuples3(seq(0, 11), seq(0, 1), seq(0, 4)), Covers: []string{"roundtrip", "rejected"},
				// with 4 free bytes the body can close the literal and open a NUMBER whose digits are free; the
				// dumper formats it (opaque text in the engine) and searches that text: those paths are not decided
				AllowInconclusive: []string{"strings.Index on an opaque string"}},
			{Func: "H_C17_literal_pre", Quick: tuples3(seq(0, 8), seq(0, 1), seq(1, 3)), Thorough: tuples3(seq(0, 8), seq(0, 1), seq(1, 4)), Covers: []string{"roundtrip"}},
			{Func: "H_C17_numbers", Quick: rng(0, 5), Covers: []string{"end"}},
			{Func: "H_C17_structure", Covers: []string{"end"}},
		},
	})
	register(&Prop{
		ID: "C20", ThoroughBudget: 75 * time.Minute,
		HarnessDirs: []string{"c20"},
		Pkg:         "github.com/cloudwego/thriftgo/generator/golang",
		Diff:        []string{"D_C20_1"},
		Prepare:     prepareC20,
		Functions:   []string{"golang.(*CodeUtils).HandleOptions", "golang.checkBool", "golang.(*CodeUtils).validateOptions", "golang.Features.params (reflection, via the engine's reflect model)", "golang.(*param).match", "golang.(*CodeUtils).UseTemplate/SetNamingStyle/UsePackage", "styles.NewNamingStyle"},
		Bounds:      "every documented boolean option x value string of 0..5 FREE bytes (and the bare form); ordered pairs (quick: all pairs involving names that are prefixes of one another plus a 1/5 sample, thorough: all pairs) x {bare,=true,=false}^2; each option at a free position among two freely chosen other options with free values; naming_style/template/use_package with a free value of 0..8 bytes",
		Assumptions: []string{"the documented defaults are parsed from /repo/README.md at check time", "which Features field an option switches is a table in the harness written from the README descriptions", "reflect.TypeOf/ValueOf/Field/Tag/IsZero/Elem/SetBool are modelled by the engine", "thriftgo -h text and flag parsing are outside"},
		Harnesses: []Harness{
			{Func: "H_C20_documented", Covers: []string{"end"}},
			{Func: "H_C20_value", Quick: c20ValueTuples(3), Thorough: c20ValueTuples(5), Covers: []string{"accepted", "rejected", "invalid"}},
			{Func: "H_C20_pair", Quick: c20PairTuples(true), Thorough: c20PairTuples(false), Covers: []string{"accepted", "invalid"}},
			{Func: "H_C20_triple", Quick: [][]int64{{8}, {27}, {28}}, Thorough: everyOther(0, 48), Covers: []string{"accepted"}}, // measured: 76 s per first option on 16 cores
			{Func: "H_C20_keyed", Quick: tuples(seq(0, 2), seq(0, 8)), Thorough: tuples(seq(0, 2), seq(0, 10)), Covers: []string{"accepted", "rejected"}},
		},
	})
	register(&Prop{
		ID:          "C16",
		HarnessDirs: []string{"astsig", "c16"},
		Pkg:         "github.com/cloudwego/thriftgo/tool/trimmer/trim",
		Diff:        []string{"D_C16_1", "D_C16_2"},
		Functions:   []string{"trim.doTrimAST", "trim.(*Trimmer).markAST/markService/markFunction/markType/markStructLike/markTypeDef/markInclude/markKeptPart/traceExtendMethod/checkPreserve", "trim.(*Trimmer).preProcess", "trim.(*Trimmer).traversal", "semantic re-check and re-resolve after trimming", "regexp / regexp2 call-outs on concrete comments and method names"},
		Bounds:      "three-file program (a includes base and t; 15 struct-likes, typedefs, enum, constant, base service across an include); the field type of one struct and the result and argument types of one method are choices among 10 spellings (quick: 3 x 4 x 10 of the 1000 combinations, thorough: all; local, include-qualified, through typedefs, inside list/set/map), presence of a throws clause, @preserve comment, preserve on/off, extends, and the method filter (none, qualified exact name, unqualified name) are free",
		Assumptions: []string{"all dimensions are finite choice spaces enumerated through the solver (regexp2/regexp operands must be concrete)", "the yaml configuration lookup of TrimAST is bypassed (doTrimAST is the entry)", "'generates compiling code with the same wire behaviour' is outside this check"},
		Harnesses: []Harness{
			{Func: "H_C16_trim", Quick: tuples3(seq(0, 5), []int64{0, 3, 9}, []int64{0, 2, 4, 8}), Thorough: tuples3(seq(0, 5), seq(0, 9), seq(0, 9)), Covers: []string{"end"}},
			{Func: "H_C16_prefix", Quick: rng(0, 6), Covers: []string{"end"}},
		},
	})
	register(&Prop{
		ID:          "C14",
		HarnessDirs: []string{"c14"},
		Pkg:         "github.com/cloudwego/thriftgo/fieldmask",
		Diff:        []string{"D_C14_1", "D_C14_2", "D_C14_3", "D_C14_4", "D_C14_5", "D_C14_6"},
		Functions: []string{"fieldmask.NewFieldMask", "fieldmask.(*FieldMask).addPath", "fieldmask.(*pathIterator).Next/lit/str", "fieldmask.newPathToken",
			"fieldmask.(*FieldMask).Field/Int/Str/All/GetPath/PathInMask", "fieldmask.fieldMap/intMap/strMap", "thrift_reflection.RegisterAST + lookups", "strconv.Atoi/Unquote",
			"fieldmask.(*FieldMask).MarshalJSON/marshalBegin/marshalRec", "fieldmask.(*FieldMask).TransferFrom/checkAll/setFieldID/setInt/setStr", "fieldmask.FieldMaskType.MarshalText/UnmarshalText"},
		Bounds: "JSON: mask -> MarshalJSON -> TransferFrom round trip on 9 path lists x 6 query routes (free ids, indices, keys) x white/black; TransferFrom on symbolic decoded documents (6 root types, <=2 children, one grandchild, free node types, path segments of 1 or 3 (thorough 0..5) free bytes) followed by queries of every kind; totality: fixed context prefix (11 contexts) + N free bytes (quick N<=2, thorough N<=4), digit strings up to 20 digits; semantics: masks of two field paths over 15 declared ids (incl. 62..65 around the head/tail storage split, 300) with a FREE int16 query id, white and black list; list indices / int keys written with free digits and a string key with a free byte, in three orders/groupings, queried with a FREE index / key",
		Assumptions: []string{"fieldmask.newPathValueStr/pathValue.Str (string header smuggled through unsafe.Pointer) are modelled at function level",
			"math/rand.Read is a stub returning a fixed pattern", "encoding/json is replaced by two harness models: json.Unmarshal of one path segment into *fieldID/*int/*string (JSON integers and escape-free ASCII strings; white space, escapes and non-ASCII bytes assumed away) and the outer decode of a text that follows MarshalJSON's schema; both are validated by the concrete differential (D_C14_5/6) and replaced by the real encoding/json in every native replay", "the Marshal/Unmarshal caches (sync.Map) are outside"},
		Harnesses: []Harness{
			{Func: "H_C14_total", Quick: cross(seq(0, 10), 0, 2), Thorough: cross(seq(0, 10), 0, 4), Covers: []string{"accepted", "rejected"}},
			{Func: "H_C14_digits", Quick: digitTuples(), Covers: []string{"accepted", "rejected"}},
			{Func: "H_C14_field", Quick: rng(0, 1), Covers: []string{"in", "out"}},
			{Func: "H_C14_index", Quick: rng(0, 1), Covers: []string{"end", "key"}},
			{Func: "H_C14_query", Quick: tuples3(seq(0, 5), seq(0, 5), seq(0, 1)), Covers: []string{"end"}},
			{Func: "H_C14_json", Quick: tuples3(seq(0, 8), seq(0, 5), seq(0, 1)), Covers: []string{"end"}},
			{Func: "H_C14_transfer", Quick: tuples([]int64{1, 3}, seq(0, 5)), Thorough: tuples(seq(0, 5), seq(0, 5)), Covers: []string{"accepted", "rejected"}},
		},
	})
}

// digitTuples: (context, fixed leading digits, free digits): 1..10 free digits, and 19/20-digit
// numbers around MaxInt64 with the last 3 digits free (a 64-bit multiply chain over 19 free
// digits does not finish in any back end: measured 250-310 s per instance).
func digitTuples() [][]int64 {
	var r [][]int64
	for ctx := int64(0); ctx < 4; ctx++ {
		for _, t := range [][2]int64{{0, 1}, {0, 2}, {0, 10}, {16, 3}, {17, 3}} {
			r = append(r, []int64{ctx, t[0], t[1]})
		}
	}
	return r
}

func idTuples(holders int64, quick bool) [][]int64 {
	var r [][]int64
	kinds := []int64{0, 1, 2, 3, 5, 6, 7}
	for h := int64(0); h < holders; h++ {
		for _, a := range kinds {
			for _, b := range kinds {
				for _, c := range kinds {
					if quick && !(h == 0 || (a+b+c)%5 == h) {
						continue
					}
					r = append(r, []int64{h, a, b, c})
				}
			}
		}
	}
	return r
}

func enumTuples(quick bool) [][]int64 {
	var r [][]int64
	kinds := []int64{0, 1, 2, 3, 4, 5, 6, 7}
	for _, a := range kinds {
		for _, b := range kinds {
			for _, c := range kinds {
				if quick && (a*3+b*5+c)%3 != 0 {
					continue
				}
				r = append(r, []int64{a, b, c})
			}
		}
	}
	return r
}

func litTuples(maxN int64) [][]int64 {
	var r [][]int64
	for pos := int64(0); pos < 5; pos++ {
		for q := int64(0); q < 2; q++ {
			for n := int64(0); n <= maxN; n++ {
				r = append(r, []int64{pos, q, n})
			}
		}
	}
	return r
}

func commentTuples(maxN int64) [][]int64 {
	var r [][]int64
	for hole := int64(1); hole <= 195; hole++ {
		for style := int64(0); style < 3; style++ {
			r = append(r, []int64{hole, style, maxN})
		}
	}
	return r
}

func c12Tuples(quick bool) [][]int64 {
	var r [][]int64
	for k0 := int64(0); k0 < 3; k0++ {
		for k1 := int64(0); k1 < 3; k1++ {
			for k2 := int64(0); k2 < 3; k2++ {
				for split := int64(1); split <= 3; split++ {
					if quick && split == 1 && k0 != 0 {
						continue
					}
					r = append(r, []int64{k0, k1, k2, split})
				}
			}
		}
	}
	return r
}

const c20NOpts = 49

func c20ValueTuples(maxN int64) [][]int64 {
	var r [][]int64
	for i := int64(0); i < c20NOpts; i++ {
		for n := int64(-1); n <= maxN; n++ {
			r = append(r, []int64{i, n})
		}
	}
	return r
}

func c20PairTuples(quick bool) [][]int64 {
	var r [][]int64
	for i := int64(0); i < c20NOpts; i++ {
		for j := int64(0); j < c20NOpts; j++ {
			if quick && (i*7+j)%5 != 0 && !(i >= 22 && i <= 32 && j >= 22 && j <= 32) {
				continue
			}
			r = append(r, []int64{i, j})
		}
	}
	return r
}
