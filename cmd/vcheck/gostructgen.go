package main

import (
	"fmt"
	"go/types"
	"reflect"
	"sort"
	"strings"

	"golang.org/x/tools/go/packages"
)

// gostructgen derives, from the Go struct types of the real packages (go/types), harness code
// that builds an arbitrary (symbolic) value of each type and compares two values node for
// node. The checks that use it therefore stay in step with the source: a field added to a
// struct is built and compared without touching /verif.
//
//	func zzSym_<T>(c *zzC, d int, path string) *pkg.T     build a value; d bounds recursion
//	func zzEq_<T>(a, b *pkg.T, path string)                assert structural equality
//
// Optionality is read from the `thrift:"...,optional"` struct tag: pointers and containers
// that are not optional are always built non-nil (the compiler's AST never holds nil there,
// and the binary codec cannot express nil for them).

type structGen struct {
	out     strings.Builder
	local   string // package the generated code lives in
	imports map[string]string
	done    map[string]bool
	pkgOf   map[string]*types.Package
	queue   []*types.Named
}

func loadTypes(dir string, pkgs ...string) (map[string]*types.Package, error) {
	cfg := &packages.Config{Mode: packages.NeedTypes | packages.NeedName | packages.NeedImports | packages.NeedDeps, Dir: dir}
	ps, err := packages.Load(cfg, pkgs...)
	if err != nil {
		return nil, err
	}
	res := map[string]*types.Package{}
	for _, p := range ps {
		if len(p.Errors) > 0 {
			return nil, fmt.Errorf("load %s: %v", p.PkgPath, p.Errors[0])
		}
		res[p.PkgPath] = p.Types
	}
	return res, nil
}

func (g *structGen) qual(p *types.Package) string {
	if p.Path() == g.local {
		return ""
	}
	g.imports[p.Path()] = p.Name()
	return p.Name() + "."
}

func (g *structGen) tname(t types.Type) string {
	return types.TypeString(t, func(p *types.Package) string {
		if p.Path() == g.local {
			return ""
		}
		g.imports[p.Path()] = p.Name()
		return p.Name()
	})
}

func fn(n *types.Named) string { return n.Obj().Name() }

func (g *structGen) need(n *types.Named) {
	if !g.done[fn(n)] {
		g.done[fn(n)] = true
		g.pkgOf[fn(n)] = n.Obj().Pkg()
		g.queue = append(g.queue, n)
	}
}

func namedStruct(t types.Type) *types.Named {
	if p, ok := t.(*types.Pointer); ok {
		t = p.Elem()
	}
	if n, ok := t.(*types.Named); ok {
		if _, ok := n.Underlying().(*types.Struct); ok {
			return n
		}
	}
	return nil
}

// symExpr returns an expression building a value of type t.
func (g *structGen) symExpr(t types.Type, path string, d string) string {
	switch u := t.(type) {
	case *types.Pointer:
		if n := namedStruct(u); n != nil {
			g.need(n)
			return fmt.Sprintf("zzSym_%s(c, %s, %s)", fn(n), d, path)
		}
		return fmt.Sprintf("func() %s { v := %s; return &v }()", g.tname(t), g.symExpr(u.Elem(), path, d))
	case *types.Named:
		if n := namedStruct(u); n != nil {
			g.need(n)
			return fmt.Sprintf("*zzSym_%s(c, %s, %s)", fn(n), d, path)
		}
		if isThriftEnum(u) {
			// thrift enums are Go int64 but i32 on the wire: the valid values are 32-bit
			return fmt.Sprintf("%s(zzrt.Int32(%s))", g.tname(t), path)
		}
		return fmt.Sprintf("%s(%s)", g.tname(t), g.symExpr(u.Underlying(), path, d))
	case *types.Basic:
		switch u.Kind() {
		case types.String:
			return fmt.Sprintf("c.str(%s)", path)
		case types.Bool:
			return fmt.Sprintf("c.bool(%s)", path)
		case types.Int8:
			return fmt.Sprintf("zzrt.Int8(%s)", path)
		case types.Int16:
			return fmt.Sprintf("zzrt.Int16(%s)", path)
		case types.Int32:
			return fmt.Sprintf("zzrt.Int32(%s)", path)
		case types.Int64:
			return fmt.Sprintf("zzrt.Int64(%s)", path)
		case types.Uint8:
			return fmt.Sprintf("zzrt.Byte(%s)", path)
		case types.Float64:
			return fmt.Sprintf("zzrt.Float64(%s)", path)
		}
	case *types.Slice:
		return fmt.Sprintf("func() %s { n := c.n(%s, %s); s := make(%s, n); for i := range s { s[i] = %s }; return s }()",
			g.tname(t), path, g.recursive(u.Elem(), d), g.tname(t), g.symExpr(u.Elem(), path+`+"."+zzItoa(i)`, g.dec(u.Elem(), d)))
	case *types.Map:
		return fmt.Sprintf("func() %s { n := c.n(%s, %s); m := make(%s, n); for i := 0; i < n; i++ { m[%s] = %s }; return m }()",
			g.tname(t), path, g.recursive(u.Elem(), d), g.tname(t), g.keyExpr(u.Key(), path+`+".k"+zzItoa(i)`), g.symExpr(u.Elem(), path+`+".v"+zzItoa(i)`, g.dec(u.Elem(), d)))
	}
	panic("gostructgen: unsupported type " + t.String())
}

// keyExpr builds distinct concrete-length keys (symbolic keys that may coincide would make
// the number of map entries ambiguous).
func (g *structGen) keyExpr(t types.Type, path string) string {
	if b, ok := t.Underlying().(*types.Basic); ok && b.Kind() == types.String {
		return fmt.Sprintf("%s(\"k\" + zzItoa(i) + c.str(%s))", g.tname(t), path)
	}
	if _, ok := t.(*types.Pointer); ok && namedStruct(t) != nil {
		return g.symExpr(t, path, "d-1")
	}
	panic("gostructgen: unsupported map key " + t.String())
}

// recursive: slices of structs cost a recursion level (they are empty at depth 0).
func (g *structGen) recursive(elem types.Type, d string) string {
	if namedStruct(elem) != nil {
		return d
	}
	return "1"
}
func (g *structGen) dec(elem types.Type, d string) string {
	if namedStruct(elem) != nil {
		return d + "-1"
	}
	return d
}

func (g *structGen) eqStmt(t types.Type, a, b, path string) string {
	switch u := t.(type) {
	case *types.Pointer:
		if n := namedStruct(u); n != nil {
			g.need(n)
			return fmt.Sprintf("zzEq_%s(%s, %s, %s)", fn(n), a, b, path)
		}
		return fmt.Sprintf("zzrt.Assert((%s == nil) == (%s == nil), %s+\": presence\"); if %s != nil && %s != nil { %s }", a, b, path, a, b, g.eqStmt(u.Elem(), "(*"+a+")", "(*"+b+")", path))
	case *types.Named:
		if n := namedStruct(u); n != nil {
			g.need(n)
			return fmt.Sprintf("zzEq_%s(&%s, &%s, %s)", fn(n), a, b, path)
		}
		return g.eqStmt(u.Underlying(), a, b, path)
	case *types.Basic:
		if u.Kind() == types.Float64 {
			g.imports["math"] = "math"
			return fmt.Sprintf("zzrt.Assert(math.Float64bits(float64(%s)) == math.Float64bits(float64(%s)), %s)", a, b, path)
		}
		return fmt.Sprintf("zzrt.Assert(%s == %s, %s)", a, b, path)
	case *types.Slice:
		if bb, ok := u.Elem().(*types.Basic); ok && bb.Kind() == types.Uint8 {
			return fmt.Sprintf("zzrt.Assert(string(%s) == string(%s), %s)", a, b, path)
		}
		return fmt.Sprintf("zzrt.Assert(len(%s) == len(%s), %s+\": length\"); for i := range %s { if i < len(%s) { %s } }", a, b, path, a, b,
			g.eqStmt(u.Elem(), a+"[i]", b+"[i]", path+`+"."+zzItoa(i)`))
	case *types.Map:
		if _, ok := u.Key().(*types.Pointer); ok {
			return fmt.Sprintf("zzrt.Assert(%s, %s+\": entries (matched by content)\")", g.sameExpr(t, a, b), path)
		}
		return fmt.Sprintf("zzrt.Assert(len(%s) == len(%s), %s+\": length\"); for k, va := range %s { vb, ok := %s[k]; zzrt.Assert(ok, %s+\": key lost\"); if ok { %s } }", a, b, path, a, b, path,
			g.eqStmt(u.Elem(), "va", "vb", path+`+"[]"`))
	}
	panic("gostructgen: unsupported type " + t.String())
}

// sameExpr is eqStmt as a boolean expression (used to match the entries of pointer-keyed maps).
func (g *structGen) sameExpr(t types.Type, a, b string) string {
	switch u := t.(type) {
	case *types.Pointer:
		if n := namedStruct(u); n != nil {
			g.need(n)
			return fmt.Sprintf("zzSame_%s(%s, %s)", fn(n), a, b)
		}
		return fmt.Sprintf("((%s == nil) == (%s == nil) && (%s == nil || %s))", a, b, a, g.sameExpr(u.Elem(), "(*"+a+")", "(*"+b+")"))
	case *types.Named:
		if n := namedStruct(u); n != nil {
			g.need(n)
			return fmt.Sprintf("zzSame_%s(&%s, &%s)", fn(n), a, b)
		}
		return g.sameExpr(u.Underlying(), a, b)
	case *types.Basic:
		if u.Kind() == types.Float64 {
			g.imports["math"] = "math"
			return fmt.Sprintf("(math.Float64bits(float64(%s)) == math.Float64bits(float64(%s)))", a, b)
		}
		return fmt.Sprintf("(%s == %s)", a, b)
	case *types.Slice:
		if bb, ok := u.Elem().(*types.Basic); ok && bb.Kind() == types.Uint8 {
			return fmt.Sprintf("(string(%s) == string(%s))", a, b)
		}
		return fmt.Sprintf("func() bool { x, y := %s, %s; if len(x) != len(y) { return false }; for i := range x { if !%s { return false } }; return true }()", a, b, g.sameExpr(u.Elem(), "x[i]", "y[i]"))
	case *types.Map:
		if _, ok := u.Key().(*types.Pointer); ok {
			return fmt.Sprintf("func() bool { x, y := %s, %s; if len(x) != len(y) { return false }; for ka, va := range x { found := false; for kb, vb := range y { if %s && %s { found = true } }; if !found { return false } }; return true }()",
				a, b, g.sameExpr(u.Key(), "ka", "kb"), g.sameExpr(u.Elem(), "va", "vb"))
		}
		return fmt.Sprintf("func() bool { x, y := %s, %s; if len(x) != len(y) { return false }; for k, va := range x { vb, ok := y[k]; if !ok || !%s { return false } }; return true }()", a, b, g.sameExpr(u.Elem(), "va", "vb"))
	}
	panic("gostructgen: unsupported type " + t.String())
}

func isThriftEnum(n *types.Named) bool {
	b, ok := n.Underlying().(*types.Basic)
	if !ok || b.Kind() != types.Int64 {
		return false
	}
	for i := 0; i < n.NumMethods(); i++ {
		if n.Method(i).Name() == "String" {
			return true
		}
	}
	return false
}

func isOptional(tag string) bool {
	th := reflect.StructTag(tag).Get("thrift")
	return strings.HasSuffix(th, ",optional")
}

func (g *structGen) emit(n *types.Named) {
	st := n.Underlying().(*types.Struct)
	tn := g.tname(n)
	w := &g.out
	fmt.Fprintf(w, "func zzSym_%s(c *zzC, d int, path string) *%s {\n\tp := &%s{}\n", fn(n), tn, tn)
	for i := 0; i < st.NumFields(); i++ {
		f := st.Field(i)
		if !f.Exported() {
			continue
		}
		fp := fmt.Sprintf("path+%q", "."+f.Name())
		opt := isOptional(st.Tag(i))
		ft := f.Type()
		_, isPtr := ft.(*types.Pointer)
		_, isSlice := ft.Underlying().(*types.Slice)
		_, isMap := ft.Underlying().(*types.Map)
		rec := namedStruct(ft) != nil && isPtr
		switch {
		case isPtr && opt && rec:
			fmt.Fprintf(w, "\tif d > 0 && c.opt(%s) {\n\t\tp.%s = %s\n\t}\n", fp, f.Name(), g.symExpr(ft, fp, "d-1"))
		case isPtr && opt:
			fmt.Fprintf(w, "\tif c.opt(%s) {\n\t\tp.%s = %s\n\t}\n", fp, f.Name(), g.symExpr(ft, fp, "d"))
		case isPtr && rec:
			// never nil in the compiler's AST; recursion ends because the pointee only has optional recursive members
			fmt.Fprintf(w, "\tp.%s = %s\n", f.Name(), g.symExpr(ft, fp, "zzDec(d)"))
		case (isSlice || isMap) && opt:
			fmt.Fprintf(w, "\tif c.opt(%s) {\n\t\tp.%s = %s\n\t}\n", fp, f.Name(), g.symExpr(ft, fp, "d"))
		default:
			fmt.Fprintf(w, "\tp.%s = %s\n", f.Name(), g.symExpr(ft, fp, "d"))
		}
	}
	fmt.Fprintf(w, "\treturn p\n}\n\n")
	fmt.Fprintf(w, "func zzEq_%s(a, b *%s, path string) {\n\tzzrt.Assert((a == nil) == (b == nil), path+\": presence\")\n\tif a == nil || b == nil {\n\t\treturn\n\t}\n", fn(n), tn)
	for i := 0; i < st.NumFields(); i++ {
		f := st.Field(i)
		if !f.Exported() {
			continue
		}
		fmt.Fprintf(w, "\t%s\n", g.eqStmt(f.Type(), "a."+f.Name(), "b."+f.Name(), fmt.Sprintf("path+%q", "."+f.Name())))
	}
	fmt.Fprintf(w, "}\n\n")
	fmt.Fprintf(w, "func zzSame_%s(a, b *%s) bool {\n\tif a == nil || b == nil {\n\t\treturn a == nil && b == nil\n\t}\n", fn(n), tn)
	for i := 0; i < st.NumFields(); i++ {
		f := st.Field(i)
		if !f.Exported() {
			continue
		}
		fmt.Fprintf(w, "\tif !%s {\n\t\treturn false\n\t}\n", g.sameExpr(f.Type(), "a."+f.Name(), "b."+f.Name()))
	}
	fmt.Fprintf(w, "\treturn true\n}\n\n")
}

// genStructHarness returns Go source (package localName, at import path local) with builders
// and comparators for the root types and everything reachable from them.
func genStructHarness(local, localName, target string, roots []*types.Named) (string, int) {
	g := &structGen{local: local, imports: map[string]string{}, done: map[string]bool{}, pkgOf: map[string]*types.Package{}}
	for _, r := range roots {
		g.need(r)
	}
	for len(g.queue) > 0 {
		n := g.queue[0]
		g.queue = g.queue[1:]
		g.emit(n)
	}
	var names []string
	for n := range g.done {
		names = append(names, n)
	}
	sort.Strings(names)
	var hd strings.Builder
	fmt.Fprintf(&hd, "//zz:target %s\npackage %s\n\nimport (\n", target, localName)
	var imps []string
	for p := range g.imports {
		imps = append(imps, p)
	}
	sort.Strings(imps)
	for _, p := range imps {
		fmt.Fprintf(&hd, "\t%s %q\n", g.imports[p], p)
	}
	fmt.Fprintf(&hd, "\tzzrt \"github.com/cloudwego/thriftgo/internal/zzverifrt\"\n)\n\n")
	fmt.Fprintf(&hd, "// generated by vcheck (gostructgen) from the struct types of the current source\n\n")
	fmt.Fprintf(&hd, "var zzStructTypes = []string{")
	for _, n := range names {
		fmt.Fprintf(&hd, "%q, ", n)
	}
	fmt.Fprintf(&hd, "}\n\n")
	// one round trip per node type
	fmt.Fprintf(&hd, "func zzNodeCase(c *zzC, ti int) {\n\tswitch zzStructTypes[ti] {\n")
	for _, n := range names {
		q := g.qual(g.pkgOf[n])
		fmt.Fprintf(&hd, "\tcase %q:\n\t\ta := zzSym_%s(c, 2, \"n\")\n\t\tb := %sNew%s()\n\t\tzzRoundTrip(a, b, %q)\n\t\tzzEq_%s(a, b, \"n\")\n", n, n, q, n, n, n)
	}
	fmt.Fprintf(&hd, "\t}\n}\n\n")
	return hd.String() + g.out.String(), len(names)
}
