package main

import (
	"fmt"
	"os"
	"os/exec"
	"path/filepath"
	"strings"
)

// genConfig is one (corpus, generator options) combination prepared in a scratch module.
type genConfig struct {
	Backend string // go | fastgo
	Options string // comma separated generator options
	Opts    genOpts
}

// prepareGenerated builds thriftgo from /repo, generates code for the corpus into a scratch
// module and adds harness support files. entry(g, pkgName) returns extra harness source.
func prepareGenerated(r *runner, prog *MProgram, cfg genConfig, entry func(g *harnessGen, pkg string) string) error {
	bin := filepath.Join(r.scratch, "thriftgo")
	if _, err := os.Stat(bin); err != nil {
		cmd := exec.Command("go", "build", "-o", bin, ".")
		cmd.Dir = repoRoot()
		cmd.Env = r.env
		if out, err := cmd.CombinedOutput(); err != nil {
			return fmt.Errorf("building thriftgo from /repo failed: %v\n%s", err, out)
		}
	}
	mod := filepath.Join(r.scratch, "mod")
	idl := filepath.Join(r.scratch, "idl")
	os.MkdirAll(mod, 0o755)
	os.MkdirAll(idl, 0o755)
	for _, f := range prog.Files {
		if err := os.WriteFile(filepath.Join(idl, f.Path), []byte(f.IDL()), 0o644); err != nil {
			return err
		}
	}
	spec := cfg.Backend
	if spec == "" {
		spec = "go"
	}
	opts := "package_prefix=zzgen"
	if cfg.Options != "" {
		opts += "," + cfg.Options
	}
	cmd := exec.Command(bin, "-r", "-g", spec+":"+opts, "-o", mod, filepath.Join(idl, prog.Files[0].Path))
	cmd.Dir = idl
	cmd.Env = r.env
	out, err := cmd.CombinedOutput()
	if err != nil {
		return &violationError{msg: fmt.Sprintf("thriftgo rejected the well-formed corpus (%s:%s): %v\n%s", spec, opts, err, tail(string(out), 1500))}
	}
	gomod := "module zzgen\n\ngo 1.20\n\nrequire (\n\tgithub.com/apache/thrift v0.13.0\n\tgithub.com/cloudwego/gopkg v0.2.0\n\tgithub.com/cloudwego/thriftgo v0.0.0\n)\n\nreplace github.com/cloudwego/thriftgo => " + repoRoot() + "\n"
	if err := os.WriteFile(filepath.Join(mod, "go.mod"), []byte(gomod), 0o644); err != nil {
		return err
	}
	sum, _ := os.ReadFile(repoRoot() + "/go.sum")
	extra, _ := os.ReadFile("/verif/harness/gencommon/go.sum.extra")
	os.WriteFile(filepath.Join(mod, "go.sum"), append(sum, extra...), 0o644)
	// runtime package
	rt := filepath.Join(mod, "internal", "zzverifrt")
	os.MkdirAll(rt, 0o755)
	b, err := os.ReadFile("/verif/harness/zzrt/zzrt.go")
	if err != nil {
		return err
	}
	os.WriteFile(filepath.Join(rt, "zzrt.go"), b, 0o644)
	sk := filepath.Join(mod, "internal", "zzskip")
	os.MkdirAll(sk, 0o755)
	if b, err := os.ReadFile("/verif/harness/gencommon/zzskip/zzskip.go"); err == nil {
		os.WriteFile(filepath.Join(sk, "zzskip.go"), b, 0o644)
	}
	ref, err := os.ReadFile("/verif/harness/gencommon/zzref.go")
	if err != nil {
		return err
	}
	for _, f := range prog.Files {
		pkgDir := filepath.Join(mod, strings.ReplaceAll(f.Namespace, ".", "/"))
		parts := strings.Split(f.Namespace, ".")
		pkg := parts[len(parts)-1]
		if _, err := os.Stat(pkgDir); err != nil {
			return &violationError{msg: "generator did not create the package directory " + pkgDir}
		}
		os.WriteFile(filepath.Join(pkgDir, "zz_ref.go"), []byte(strings.Replace(string(ref), "package PKGNAME", "package "+pkg, 1)), 0o644)
		g := &harnessGen{p: prog, f: f, opts: cfg.Opts}
		os.WriteFile(filepath.Join(pkgDir, "zz_gen.go"), []byte(g.emitFile(pkg)), 0o644)
		if cfg.Backend == "fastgo" {
			os.WriteFile(filepath.Join(pkgDir, "zz_imports.go"), []byte("package "+pkg+"\n\nimport _ \"zzgen/internal/zzskip\"\n"), 0o644)
		}
		if entry != nil {
			if src := entry(g, pkg); src != "" {
				os.WriteFile(filepath.Join(pkgDir, "zz_entry.go"), []byte(src), 0o644)
			}
		}
	}
	r.dir = mod
	// make sure module resolution works offline (fills go.sum from the module cache)
	tidy := exec.Command("go", "build", "./...")
	tidy.Dir = mod
	tidy.Env = r.env
	if out, err := tidy.CombinedOutput(); err != nil {
		s := string(out)
		if strings.Contains(s, "zz_") && !strings.Contains(s, strings.ReplaceAll(prog.Files[0].Namespace, ".", "/")+"/"+strings.TrimSuffix(prog.Files[0].Path, ".thrift")+".go") {
			return fmt.Errorf("harness does not compile against the generated code (naming convention changed?):\n%s", tail(s, 3000))
		}
		return &violationError{msg: "generated code does not compile:\n" + tail(s, 3000)}
	}
	return nil
}

// prepareStatic generates code for hand-written IDL files (in /verif/harness/<dir>) and copies
// the hand-written harness file(s) *.go of that directory into the package of `pkgRel`.
func prepareStatic(r *runner, dir string, idls []string, backend, options, pkgRel string) error {
	return prepareStaticFiles(r, dir, idls, backend, options, pkgRel, nil)
}

// prepareStaticFiles: extra may add generated harness files to the package before it is built.
func prepareStaticFiles(r *runner, dir string, idls []string, backend, options, pkgRel string, extra func(pkgDir string) error) error {
	bin := filepath.Join(r.scratch, "thriftgo")
	cmd := exec.Command("go", "build", "-o", bin, ".")
	cmd.Dir = repoRoot()
	cmd.Env = r.env
	if out, err := cmd.CombinedOutput(); err != nil {
		return fmt.Errorf("building thriftgo from /repo failed: %v\n%s", err, out)
	}
	mod := filepath.Join(r.scratch, "mod")
	idl := filepath.Join(r.scratch, "idl")
	os.MkdirAll(mod, 0o755)
	os.MkdirAll(idl, 0o755)
	src := filepath.Join("/verif/harness", dir)
	for _, f := range idls {
		b, err := os.ReadFile(filepath.Join(src, f))
		if err != nil {
			return err
		}
		os.MkdirAll(filepath.Dir(filepath.Join(idl, f)), 0o755)
		os.WriteFile(filepath.Join(idl, f), b, 0o644)
	}
	if backend == "" {
		backend = "go"
	}
	opts := "package_prefix=zzgen"
	if options != "" {
		opts += "," + options
	}
	gen := exec.Command(bin, "-r", "-g", backend+":"+opts, "-o", mod, idls[0]) // relative: descriptors record the path as given
	gen.Dir = idl
	gen.Env = r.env
	if out, err := gen.CombinedOutput(); err != nil {
		return &violationError{msg: fmt.Sprintf("thriftgo rejected the well-formed corpus (%s:%s): %v\n%s", backend, opts, err, tail(string(out), 1500))}
	}
	gomod := "module zzgen\n\ngo 1.20\n\nrequire (\n\tgithub.com/apache/thrift v0.13.0\n\tgithub.com/cloudwego/gopkg v0.2.0\n\tgithub.com/cloudwego/thriftgo v0.0.0\n)\n\nreplace github.com/cloudwego/thriftgo => " + repoRoot() + "\n"
	os.WriteFile(filepath.Join(mod, "go.mod"), []byte(gomod), 0o644)
	sum, _ := os.ReadFile(repoRoot() + "/go.sum")
	os.WriteFile(filepath.Join(mod, "go.sum"), sum, 0o644)
	rt := filepath.Join(mod, "internal", "zzverifrt")
	os.MkdirAll(rt, 0o755)
	b, err := os.ReadFile("/verif/harness/zzrt/zzrt.go")
	if err != nil {
		return err
	}
	os.WriteFile(filepath.Join(rt, "zzrt.go"), b, 0o644)
	pkgDir := filepath.Join(mod, pkgRel)
	if _, err := os.Stat(pkgDir); err != nil {
		return &violationError{msg: "generator did not create the package directory " + pkgRel}
	}
	// the IDL text, for harnesses that compare against an in-process compilation
	var tb strings.Builder
	fmt.Fprintf(&tb, "package %s\n\nvar zzIDLText = map[string]string{\n", filepath.Base(pkgRel))
	for _, f := range idls {
		b, _ := os.ReadFile(filepath.Join(src, f))
		fmt.Fprintf(&tb, "\t%q: %q,\n", f, string(b))
	}
	tb.WriteString("}\n")
	os.WriteFile(filepath.Join(pkgDir, "zz_idltext.go"), []byte(tb.String()), 0o644)
	ents, _ := os.ReadDir(src)
	for _, ent := range ents {
		if strings.HasSuffix(ent.Name(), ".go") {
			b, _ := os.ReadFile(filepath.Join(src, ent.Name()))
			os.WriteFile(filepath.Join(pkgDir, "zz_"+ent.Name()), b, 0o644)
		}
	}
	if extra != nil {
		if err := extra(pkgDir); err != nil {
			return err
		}
	}
	r.dir = mod
	build := exec.Command("go", "build", "./...")
	build.Dir = mod
	build.Env = r.env
	if out, err := build.CombinedOutput(); err != nil {
		s := string(out)
		lines := strings.Split(s, "\n")
		harnessOnly := true
		for _, l := range lines {
			if strings.Contains(l, ".go:") && !strings.Contains(l, "zz_") {
				harnessOnly = false
			}
		}
		if harnessOnly {
			return fmt.Errorf("harness does not compile against the generated code:\n%s", tail(s, 3000))
		}
		return &violationError{msg: "generated code does not compile:\n" + tail(s, 3000)}
	}
	return nil
}
