package main

import (
	"fmt"
	"time"

	"verif/gosym"
)

func init() {
	register(&Prop{
		ID:          "C19",
		HarnessDirs: []string{"c19"},
		Pkg:         "github.com/cloudwego/thriftgo/generator",
		Diff:        []string{"D_C19_1"},
		ExtraNative: map[string]string{"c19replay": "ZZReplayC19()"},
		Functions:   []string{"generator.(*asyncPostProcess).OnFinished", "generator.(*asyncPostProcess).OnFinished$1 (worker)", "generator.(*asyncPostProcess).OnFinished$1$1 (deferred wg.Done / release)", "generator.(*asyncPostProcess).Add"},
		Bounds:      "J jobs (quick 0..3 with K<=2 for J=3, thorough 0..4 with K<=2 for J=4 and K<=1 for J=4 with a post-processor) x post-processor present/absent x concurrency K as returned by GOMAXPROCS in {-1,0,1,2,3} (thorough also 4); every interleaving of the dispatching loop with the workers at the granularity of visible operations (channel send/receive, select, go, WaitGroup Add/Done/Wait, start and end of the post-process and write callbacks), every select choice and every subset of failing post-process / write steps are solver variables; unrolling depth T = sum of the longest thread programs, discharged by an unwinding assertion",
		Assumptions: []string{"thread programs are extracted thread-modularly from the SSA of the current tree by gosym (goroutine bodies run inline, channel/WaitGroup operations recorded with forked outcomes): sound when threads communicate only through the channels, the WaitGroup and read-only data, which holds for OnFinished (workers receive path/content by value)",
			"invisible instructions between two visible operations are executed atomically", "the write callback and the post-processor are environment stubs that succeed or return an error (panics inside them are outside)",
			"file system effects of the real write callback and path resolution in Persist are outside this check"},
		Custom: runC19,
	})
}

func runC19(r *runner, ev *evidence, pool *gosym.Pool) int {
	cov := ev.Coverage
	fn := gosym.FindFunc(r.prog.Prog, r.spec.Pkg, "H_C19_extract")
	if fn == nil {
		fmt.Println("INCONCLUSIVE: ENCODING-FAILED: harness H_C19_extract not found")
		return 2
	}
	maxJ, ks := int64(3), []int64{-1, 0, 1, 2, 3}
	if r.tier == "thorough" {
		maxJ, ks = 4, []int64{-1, 0, 1, 2, 3}
	}
	if r.spec.SchedMaxJ > 0 && maxJ > r.spec.SchedMaxJ {
		maxJ = r.spec.SchedMaxJ
	}
	var states, queries, paths int64
	var solverS float64
	var samples []any
	var msgs []string
	for J := int64(0); J <= maxJ; J++ {
		for withPP := int64(0); withPP <= 1; withPP++ {
			for _, K := range ks {
				if J == 0 && (withPP == 1 || K != 1) {
					continue
				}
				if r.tier != "thorough" && J == 3 && K > 2 {
					continue // measured: J=3,K=3 needs >10 min of solver time; thorough only
				}
				if J >= 4 && (K > 2 || (K == 2 && withPP == 1)) {
					continue // measured: the unwinding queries of J=4,K=3 and of J=4,K=2 with a post-processor time out (z3 5.1, 10-15 min); outside the registered bound
				}
				if K > J && K > 1 && J > 0 && K != ks[len(ks)-1] {
					// capacities above the number of jobs behave alike; keep the largest only
					continue
				}
				res := pool.Explore(fn, []int64{J, withPP, K}, gosym.ExploreOpts{Workers: r.workers, Deadline: time.Now().Add(10 * time.Minute)})
				paths += res.Paths
				if len(res.Inconclusive) > 0 || res.Unexplored > 0 || res.Outcomes["ok"] != res.Paths {
					fmt.Printf("INCONCLUSIVE: ENCODING-FAILED: extraction of thread programs (J=%d pp=%d K=%d): outcomes %v %v\n", J, withPP, K, res.Outcomes, res.Inconclusive)
					for _, v := range res.Violations {
						fmt.Println("  ", v.Kind, v.Msg)
					}
					return 2
				}
				label := fmt.Sprintf("J%d-pp%d-K%d", J, withPP, K)
				sr, err := encodeAndCheck(res.Traces, int(J), withPP == 1, label, r.scratch)
				if err != nil {
					fmt.Println("INCONCLUSIVE: ENCODING-FAILED:", err)
					return 2
				}
				states += int64(sr.States)
				queries += int64(sr.Queries)
				solverS += sr.SolverS
				r.logf("%s: %d thread-program paths, %d unrolled states, %d queries, %.1fs", label, res.Paths, sr.States, sr.Queries, sr.SolverS)
				if len(samples) < 4 && len(res.Traces) > 0 {
					var evs []string
					for _, e := range res.Traces[len(res.Traces)-1] {
						evs = append(evs, fmt.Sprintf("T%d:%s", e.Thread, describeEvent(e)))
					}
					samples = append(samples, map[string]any{"config": label, "one recorded path (thread:event)": evs})
				}
				if sr.Inconclusive != "" {
					fmt.Println("INCONCLUSIVE:", label, sr.Inconclusive)
					return 2
				}
				if sr.Violation != "" {
					confirmed, how := replayC19(r, int(J), withPP == 1, int(K), sr)
					cov["states"], cov["transitions"], cov["samples"] = states, queries, samples
					if !confirmed {
						fmt.Printf("INCONCLUSIVE: ENGINE-MISMATCH: %s: model violates %q but the native replay gave: %s\n  schedule: %s\n", label, sr.Violation, how, sr.Model["schedule"])
						return 2
					}
					model := gosym.Model{}
					r.reportViolationFile(ev, "gosched-"+label, []int64{J, withPP, K}, sr.Violation+" | schedule: "+sr.Model["schedule"]+" | failing: "+failFlags(sr), model, how)
					return 1
				}
				msgs = append(msgs, label+": "+fmt.Sprint(len(sr.Messages))+" properties discharged")
			}
		}
	}
	cov["states"] = states
	cov["transitions"] = queries
	cov["thread_program_paths"] = paths
	cov["solver_time_s"] = solverS
	cov["samples"] = samples
	cov["configurations"] = msgs
	cov["exhaustive"] = false
	cov["explanation"] = "states = unrolled (step, thread) positions of the SMT transition systems; transitions = property queries discharged (P1 deadlock, P2 success implies all written once with own path/content, P3 no lost error, P4 no write in flight at return, P5 no double write / negative WaitGroup / blocking error send, P6 reachability witnesses, U unwinding assertion), each over ALL schedules, select choices and failing subsets"
	fmt.Printf("OK property=%s tier=%s configurations=%d queries=%d wall=%.0fs\n", r.spec.ID, r.tier, len(msgs), queries, time.Since(r.start).Seconds())
	return 0
}

func failFlags(sr *schedResult) string {
	s := ""
	for k, v := range sr.Model {
		if (len(k) > 6 && k[:6] == "failpp" || len(k) > 5 && k[:5] == "failf") && v == "true" {
			s += k + " "
		}
	}
	return s
}
