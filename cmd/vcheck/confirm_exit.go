package main

import (
	"encoding/json"
	"fmt"
	"os"
	"os/exec"
	"path/filepath"

	"verif/gosym"
)

const invokeStub = `package sdk

import (
	"errors"
	"fmt"
	"os"

	"github.com/cloudwego/thriftgo/plugin"
)

// build-time stand-in for sdk/invoke.go used to confirm the exit-status mapping of main
func InvokeThriftgo(SDKPlugins []plugin.SDKPlugin, args ...string) error {
	switch os.Getenv("ZZ_INVOKE_MODE") {
	case "1":
		return errors.New("main.thrift: undefined type Foo")
	case "2":
		return fmt.Errorf("generate: %w", errors.New("plugin failed"))
	case "3":
		panic(errors.New("a failure the generator reports by panicking"))
	case "4":
		panic("a failure reported by panicking with a string")
	case "5":
		var m map[string]int
		m["x"] = 1
	}
	return nil
}
`

// confirmExit builds the real main package with sdk/invoke.go overlaid by the stub and runs
// the process: the violation is confirmed when the process really exits with status 0 after a
// panic (or with a status that contradicts the recorded assertion).
func confirmExit(r *runner, args []int64, v gosym.PathOutcome) (bool, string) {
	mode := uint64(0)
	for k, x := range v.Model {
		if len(k) >= 6 && k[:6] == "invoke" {
			mode = x
		}
	}
	stub := filepath.Join(r.scratch, "invoke_stub.go")
	os.WriteFile(stub, []byte(invokeStub), 0o644)
	ov, _ := json.Marshal(map[string]any{"Replace": map[string]string{repoRoot()+"/sdk/invoke.go": stub}})
	ovf := filepath.Join(r.scratch, "exit-overlay.json")
	os.WriteFile(ovf, ov, 0o644)
	bin := filepath.Join(r.scratch, "thriftgo-exit")
	b := exec.Command("go", "build", "-overlay", ovf, "-o", bin, ".")
	b.Dir, b.Env = repoRoot(), r.env
	if out, err := b.CombinedOutput(); err != nil {
		return false, fmt.Sprintf("cannot build main with the stubbed sdk: %v %s", err, tail(string(out), 400))
	}
	c := exec.Command(bin, "-g", "go", "x.thrift")
	c.Dir = r.scratch
	c.Env = append(r.env, fmt.Sprintf("ZZ_INVOKE_MODE=%d", mode))
	out, err := c.CombinedOutput()
	code := 0
	if ee, ok := err.(*exec.ExitError); ok {
		code = ee.ExitCode()
	} else if err != nil {
		return false, "cannot run: " + err.Error()
	}
	how := fmt.Sprintf("real process (main built with sdk.InvokeThriftgo stubbed, outcome %d) exited with status %d; output: %s", mode, code, firstLine(string(out)))
	switch {
	case mode == 0:
		return code != 0, how
	default:
		return code == 0, how
	}
}
