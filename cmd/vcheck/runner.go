package main

import (
	"bufio"
	"crypto/sha1"
	"encoding/json"
	"fmt"
	"os"
	"os/exec"
	"path/filepath"
	"regexp"
	"sort"
	"strings"
	"time"

	"verif/gosym"
)

// Harness describes one harness function and the bounds it is run with.
type Harness struct {
	Func     string
	Quick    [][]int64 // argument tuples for the quick tier
	Thorough [][]int64 // argument tuples for the thorough tier (nil: same as Quick)
	Covers   []string  // labels that must be reached on some path (vacuity guard)
	// how non-ok outcomes are classified
	StepLimitIsViolation bool                                                              // the harness asserts termination within MaxSteps
	ExitIsViolation      bool                                                              // os.Exit reaching the top is a violation
	MaxSteps             int64                                                             // per path (0: default)
	Confirm              func(r *runner, args []int64, v gosym.PathOutcome) (bool, string) // property specific native confirmation (replaces the replay of the harness)
	NativeRetries        int                                                               // repeat the native replay up to n times (runtime-chosen schedules such as map order)
	AllowInconclusive    []string                                                          // substrings of inconclusive reasons that are tolerated (stated in evidence)
	Note                 string
}

// Prop is the specification of one property's check.
type Prop struct {
	ID             string
	Dir            string   // module directory that is loaded ("/repo" unless generated code)
	HarnessDirs    []string // under /verif/harness
	Pkg            string   // import path of the harness package
	ExtraPkgs      []string // further packages to load
	Harnesses      []Harness
	Diff           []string // func() string functions compared natively vs engine
	Functions      []string // functions encoded (for evidence)
	Bounds         string
	Assumptions    []string
	Prepare        func(r *runner) error                               // e.g. code generation into a scratch module
	NoOverlay      bool                                                // harness files are real files of a scratch module
	Variants       []*Prop                                             // sub-checks (e.g. generator configurations) run one after the other; results are merged
	Label          string                                              // variant label
	ExtraNative    map[string]string                                   // native test cases: case name -> Go expression of type string
	Custom         func(r *runner, ev *evidence, pool *gosym.Pool) int // property specific deciding step (replaces the harness loop)
	SchedMaxJ      int64                                               // gosched: bound on the number of jobs (0: the tier's default)
	RealMeta       bool                                                // run the real meta registry (reflection) instead of the no-op stub
	QuickBudget    time.Duration
	ThoroughBudget time.Duration
}

var props = map[string]*Prop{}

func register(p *Prop) { props[p.ID] = p }

type runner struct {
	spec    *Prop
	tier    string
	only    string
	workers int
	keep    bool
	verbose bool

	dir         string
	overlay     map[string][]byte
	ovFiles     map[string]string // virtual path -> real path (for go test -overlay)
	scratch     string
	prog        *gosym.Program
	pkgName     string
	testBin     string
	known       map[string]string // id -> what (open findings)
	replayRec   *replayRecord
	variantOnly string
	seed        int64
	start       time.Time
	env         []string
	generated   map[string]string
}

var goEnv = []string{"GOFLAGS=-mod=mod", "GOPROXY=off", "GOSUMDB=off", "GOTOOLCHAIN=local"}

type evidence struct {
	PropertyID  string         `json:"property_id"`
	Tier        string         `json:"tier"`
	Seed        int64          `json:"seed"`
	Level       string         `json:"level"`
	Coverage    map[string]any `json:"coverage"`
	Assumptions []string       `json:"assumptions"`
	WallS       float64        `json:"wall_s"`
	Violations  int            `json:"violations"`
}

func (r *runner) logf(format string, args ...any) {
	fmt.Fprintf(os.Stderr, "[%s %6.1fs] %s\n", r.spec.ID, time.Since(r.start).Seconds(), fmt.Sprintf(format, args...))
}

func (r *runner) run() int {
	r.start = time.Now()
	spec := r.spec
	if s := os.Getenv("VERIF_SEED"); s != "" {
		fmt.Sscan(s, &r.seed)
	}
	r.env = append(os.Environ(), goEnv...)
	r.dir = spec.Dir
	if r.dir == "" {
		r.dir = repoRoot()
	}
	var err error
	r.scratch, err = os.MkdirTemp("", "vcheck-"+spec.ID+"-")
	if err != nil {
		fmt.Println("INCONCLUSIVE: cannot create scratch:", err)
		return 2
	}
	if !r.keep {
		defer os.RemoveAll(r.scratch)
	}
	ev := &evidence{PropertyID: spec.ID, Tier: r.tier, Seed: r.seed, Level: "model_checking", Coverage: map[string]any{}, Assumptions: spec.Assumptions}
	var code int
	if len(spec.Variants) == 0 {
		code = r.run1(ev)
	} else {
		code = r.runVariants(ev)
	}
	ev.WallS = time.Since(r.start).Seconds()
	r.writeEvidence(ev)
	return code
}

// runVariants runs every variant with its own scratch directory and merges the evidence.
func (r *runner) runVariants(ev *evidence) int {
	spec := r.spec
	cov := ev.Coverage
	code := 0
	var states, transitions, steps, validated int64
	var solverS float64
	var reports []any
	var samples []any
	inconclusive := map[string]any{}
	var labels []string
	for _, v := range spec.Variants {
		sub := *v
		sub.ID = spec.ID
		if sub.Functions == nil {
			sub.Functions = spec.Functions
		}
		if sub.Bounds == "" {
			sub.Bounds = spec.Bounds
		}
		if sub.QuickBudget == 0 {
			sub.QuickBudget = spec.QuickBudget
		}
		if sub.ThoroughBudget == 0 {
			sub.ThoroughBudget = spec.ThoroughBudget
		}
		if r.replayRec != nil && !r.replayRec.matches(&sub) {
			continue
		}
		if r.variantOnly != "" && v.Label != r.variantOnly {
			continue
		}
		r2 := &runner{spec: &sub, tier: r.tier, only: r.only, workers: r.workers, keep: r.keep, verbose: r.verbose, seed: r.seed, start: r.start, env: r.env, replayRec: r.replayRec}
		r2.dir = sub.Dir
		if r2.dir == "" {
			r2.dir = repoRoot()
		}
		var err error
		r2.scratch, err = os.MkdirTemp(r.scratch, "v-")
		if err != nil {
			fmt.Println("INCONCLUSIVE:", err)
			return 2
		}
		ev2 := &evidence{Coverage: map[string]any{}}
		r.logf("variant %s", v.Label)
		c := r2.run1(ev2)
		if !r.keep {
			os.RemoveAll(r2.scratch)
		}
		if c > code && !(code == 1 && c == 2) {
			code = c
		}
		if c == 1 {
			code = 1
		}
		labels = append(labels, v.Label)
		c2 := ev2.Coverage
		states += toInt(c2["states"])
		transitions += toInt(c2["transitions"])
		steps += toInt(c2["ssa_steps"])
		validated += toInt(c2["traces_validated_against_impl"])
		if f, ok := c2["solver_time_s"].(float64); ok {
			solverS += f
		}
		if hs, ok := c2["harnesses"].([]harnessReport); ok {
			for _, h := range hs {
				h.Harness = "[" + v.Label + "] " + h.Harness
				reports = append(reports, h)
			}
		}
		if ss, ok := c2["samples"].([]any); ok && len(samples) < 8 {
			samples = append(samples, ss...)
		}
		if m, ok := c2["inconclusive"].(map[string]int64); ok {
			for k, n := range m {
				inconclusive["["+v.Label+"] "+k] = n
			}
		}
		if x, ok := c2["explanation"].(string); ok && c == 2 {
			inconclusive["["+v.Label+"] "+x] = 1
		}
		ev.Violations += ev2.Violations
		if code == 1 && ev.Violations >= 3 {
			break
		}
	}
	cov["functions_encoded"] = spec.Functions
	cov["bounds"] = spec.Bounds
	cov["technique"] = "symbolic execution of go/ssa built from the current /repo tree (gosym), path conditions and assertions discharged by an SMT solver (bit-vector queries over one incremental z3 5.1 pipe per worker); counterexamples replayed natively"
	cov["variants"] = labels
	cov["states"] = states
	cov["transitions"] = transitions
	cov["ssa_steps"] = steps
	cov["traces_validated_against_impl"] = validated
	cov["solver_time_s"] = solverS
	cov["harnesses"] = reports
	if len(samples) == 0 {
		samples = append(samples, "no symbolic path sample recorded")
	}
	cov["samples"] = samples
	cov["inconclusive"] = inconclusive
	cov["exhaustive"] = false
	cov["explanation"] = "states = feasible paths explored to completion within the stated bounds, summed over the variants; transitions = SMT queries discharged"
	if code == 0 && r.replayRec == nil {
		fmt.Printf("OK property=%s tier=%s variants=%d paths=%d queries=%d validated=%d wall=%.0fs\n", spec.ID, r.tier, len(labels), states, transitions, validated, time.Since(r.start).Seconds())
	}
	return code
}

func toInt(v any) int64 {
	switch x := v.(type) {
	case int64:
		return x
	case int:
		return int64(x)
	case float64:
		return int64(x)
	}
	return 0
}

func (r *runner) writeEvidence(ev *evidence) {
	if r.replayRec != nil {
		return // a replay is not a check run: the evidence of the last check run stays
	}
	cov := ev.Coverage
	// schema: model_checking needs states>=1, transitions>=1, traces_validated_against_impl, samples (>=1)
	if _, ok := cov["states"]; !ok {
		cov["states"] = 0
	}
	if _, ok := cov["transitions"]; !ok {
		cov["transitions"] = 0
	}
	if _, ok := cov["traces_validated_against_impl"]; !ok {
		cov["traces_validated_against_impl"] = 0
	}
	if _, ok := cov["samples"]; !ok {
		cov["samples"] = []string{}
	}
	os.MkdirAll("/verif/evidence", 0o755)
	b, _ := json.MarshalIndent(ev, "", " ")
	os.WriteFile("/verif/evidence/"+r.spec.ID+".json", append(b, '\n'), 0o644)
}

// addGenerated registers a generated harness file (written to scratch) for the overlay.
func (r *runner) addGenerated(target, name, content string) error {
	real := filepath.Join(r.scratch, "gen_"+name)
	if err := os.WriteFile(real, []byte(content), 0o644); err != nil {
		return err
	}
	if r.generated == nil {
		r.generated = map[string]string{}
	}
	r.generated[filepath.Join(r.dir, target, "zz_verif_"+name)] = real
	return nil
}

func (r *runner) buildOverlay() error {
	r.overlay = map[string][]byte{}
	r.ovFiles = map[string]string{}
	for virt, real := range r.generated {
		b, err := os.ReadFile(real)
		if err != nil {
			return err
		}
		r.overlay[virt] = b
		r.ovFiles[virt] = real
	}
	dirs := append([]string{"zzrt"}, r.spec.HarnessDirs...)
	for _, d := range dirs {
		real := "/verif/harness/" + d
		ents, err := os.ReadDir(real)
		if err != nil {
			return err
		}
		for _, ent := range ents {
			if ent.IsDir() || !strings.HasSuffix(ent.Name(), ".go") {
				continue
			}
			b, err := os.ReadFile(real + "/" + ent.Name())
			if err != nil {
				return err
			}
			target := ""
			for _, line := range strings.SplitN(string(b), "\n", 30) {
				if strings.HasPrefix(line, "//zz:target ") {
					target = strings.TrimSpace(strings.TrimPrefix(line, "//zz:target "))
					break
				}
			}
			if target == "" {
				return fmt.Errorf("%s/%s: missing //zz:target", real, ent.Name())
			}
			virt := filepath.Join(r.dir, target, "zz_verif_"+ent.Name())
			r.overlay[virt] = b
			r.ovFiles[virt] = real + "/" + ent.Name()
		}
	}
	return nil
}

type harnessReport struct {
	Harness      string           `json:"harness"`
	Args         []int64          `json:"args"`
	Paths        int64            `json:"paths"`
	Steps        int64            `json:"ssa_steps"`
	Queries      int64            `json:"solver_queries"`
	Outcomes     map[string]int64 `json:"outcomes"`
	Covers       map[string]int64 `json:"covers"`
	Inconclusive map[string]int64 `json:"inconclusive,omitempty"`
	Unexplored   int64            `json:"unexplored"`
	WallS        float64          `json:"wall_s"`
	SolverS      float64          `json:"solver_s"`
	MaxDecisions int              `json:"max_decisions"`
}

func (r *runner) run1(ev *evidence) int {
	spec := r.spec
	cov := ev.Coverage
	cov["functions_encoded"] = spec.Functions
	cov["bounds"] = spec.Bounds
	cov["technique"] = "symbolic execution of go/ssa built from the current /repo tree (gosym), path conditions and assertions discharged by an SMT solver (bit-vector queries over one incremental z3 5.1 pipe per worker); counterexamples replayed natively with go test -overlay"
	r.loadKnown()

	if spec.Prepare != nil {
		if err := spec.Prepare(r); err != nil {
			if v, ok := err.(*violationError); ok {
				return r.reportViolationFile(ev, "prepare", nil, v.msg, nil, "")
			}
			fmt.Println("INCONCLUSIVE: prepare failed:", err)
			cov["explanation"] = "prepare failed: " + err.Error()
			return 2
		}
	}
	if spec.NoOverlay {
		r.overlay = map[string][]byte{}
		r.ovFiles = map[string]string{}
	} else if err := r.buildOverlay(); err != nil {
		fmt.Println("INCONCLUSIVE:", err)
		return 2
	}
	t0 := time.Now()
	patterns := append([]string{spec.Pkg}, spec.ExtraPkgs...)
	prog, err := gosym.Load(r.dir, r.overlay, patterns, goEnv)
	if err != nil {
		fmt.Println("INCONCLUSIVE: ENCODING-FAILED: cannot load/type-check the code under analysis with the harness:", err)
		cov["explanation"] = "load failed: " + err.Error()
		return 2
	}
	r.prog = prog
	for _, p := range prog.Types {
		if p.PkgPath == spec.Pkg {
			r.pkgName = p.Name
		}
	}
	r.logf("loaded %s and built SSA in %.1fs", spec.Pkg, time.Since(t0).Seconds())
	if r.replayRec != nil {
		return r.doReplay()
	}

	cfg := &gosym.Config{MaxSteps: 20000000, MaxDepth: 4000, MaxFork: 64, SolverKind: "z3-new", TimeoutMs: 20000, InitAllow: gosym.DefaultInitAllow}
	if r.spec.RealMeta {
		cfg.RealMeta, cfg.InitAllow = true, gosym.MetaInitAllow
	}
	if s := os.Getenv("VERIF_SOLVER"); s != "" {
		cfg.SolverKind = s
	}
	pool, err := gosym.NewPool(prog.Prog, cfg, prog.Pkgs, r.workers)
	if err != nil {
		fmt.Println("INCONCLUSIVE: engine initialisation failed:", err)
		cov["explanation"] = "engine init failed: " + err.Error()
		return 2
	}
	defer pool.Close()
	cov["solver"] = cfg.SolverKind
	if w := pool.Engines[0].InitWarnings; len(w) > 0 {
		cov["init_warnings"] = w
	}

	validated := 0
	var diffErr error
	// translator validation: concrete differential
	if len(spec.Diff) > 0 {
		n, err := r.differential(pool)
		if err != nil {
			// The translator validation failed (or the native build hangs / crashes on the concrete
			// inputs). Nothing below can end in "held": exploration continues only so that a
			// violation the engine can demonstrate and confirm is still reported as such.
			diffErr = err
			fmt.Println("INCONCLUSIVE: ENGINE-MISMATCH:", firstLine(err.Error()))
		} else {
			validated += n
			r.logf("concrete differential: %d functions agree natively and in the engine", n)
		}
	}

	if spec.Custom != nil {
		cov["traces_validated_against_impl"] = validated
		c := spec.Custom(r, ev, pool)
		if diffErr != nil && c != 1 {
			// a failed translator validation cannot end in "held"; a violation the custom step
			// demonstrated and confirmed natively is still reported
			cov["explanation"] = "differential failed: " + diffErr.Error()
			return 2
		}
		return c
	}
	budget := spec.QuickBudget
	if r.tier == "thorough" {
		budget = spec.ThoroughBudget
	}
	if budget == 0 {
		budget = 10 * time.Minute
		if r.tier == "thorough" {
			budget = 40 * time.Minute
		}
	}
	deadline := r.start.Add(budget)

	var reports []harnessReport
	var totalPaths, totalQueries, totalSteps int64
	var solverTime time.Duration
	var samples []any
	inconclusive := map[string]int64{}
	knownPrinted := map[string]bool{}
	nviol := 0
	exit := 0
	if diffErr != nil {
		exit = 2
		inconclusive["ENGINE-MISMATCH: concrete differential: "+tail(diffErr.Error(), 600)] = 1
	}
	vacuous := []string{}

	for _, h := range spec.Harnesses {
		if r.only != "" && !strings.Contains(h.Func, r.only) {
			continue
		}
		fn := gosym.FindFunc(prog.Prog, spec.Pkg, h.Func)
		if fn == nil {
			fmt.Printf("INCONCLUSIVE: ENCODING-FAILED: harness function %s.%s not found\n", spec.Pkg, h.Func)
			return 2
		}
		tuples := h.Quick
		if r.tier == "thorough" && h.Thorough != nil {
			tuples = h.Thorough
		}
		if len(tuples) == 0 {
			tuples = [][]int64{nil}
		}
		covered := map[string]bool{}
		for _, args := range tuples {
			if h.MaxSteps > 0 {
				pool.SetMaxSteps(h.MaxSteps)
			} else {
				pool.SetMaxSteps(cfg.MaxSteps)
			}
			res := pool.Explore(fn, args, gosym.ExploreOpts{Workers: r.workers, Deadline: deadline, MaxViolations: 3})
			rep := harnessReport{Harness: h.Func, Args: args, Paths: res.Paths, Steps: res.Steps, Queries: res.Queries, Outcomes: res.Outcomes,
				Covers: res.Covers, Inconclusive: res.Inconclusive, Unexplored: res.Unexplored, WallS: res.Wall.Seconds(), SolverS: res.SolverTime.Seconds(), MaxDecisions: res.MaxDecisions}
			reports = append(reports, rep)
			totalPaths += res.Paths
			totalQueries += res.Queries
			totalSteps += res.Steps
			solverTime += res.SolverTime
			r.logf("%s%v: %d paths, %d queries, outcomes %v, %.1fs", h.Func, args, res.Paths, res.Queries, res.Outcomes, res.Wall.Seconds())
			for c := range res.Covers {
				covered[c] = true
			}
			if len(samples) < 6 {
				for _, s := range res.Samples {
					samples = append(samples, map[string]any{"harness": h.Func, "args": args, "path": s})
					break
				}
			}
			for k, n := range res.Inconclusive {
				tolerated := false
				for _, a := range h.AllowInconclusive {
					if strings.Contains(k, a) {
						tolerated = true
					}
				}
				if tolerated {
					inconclusive["tolerated: "+h.Func+": "+k] += n
				} else {
					inconclusive[h.Func+": "+k] += n
					exit = max(exit, 2)
				}
			}
			if res.Unexplored > 0 {
				inconclusive[fmt.Sprintf("%s%v: %d work items unexplored (budget)", h.Func, args, res.Unexplored)]++
				exit = max(exit, 2)
			}
			if len(res.SolverErrors) > 0 {
				inconclusive[h.Func+": solver errors: "+strings.Join(res.SolverErrors, "; ")]++
				exit = max(exit, 2)
			}
			// known findings
			ids := make([]string, 0, len(res.KnownHits))
			for id := range res.KnownHits {
				ids = append(ids, id)
			}
			sort.Strings(ids)
			for _, id := range ids {
				if what, listed := r.known[id]; listed {
					if !knownPrinted[id] {
						knownPrinted[id] = true
						fmt.Printf("KNOWN-FINDING: property=%s %s %s\n", spec.ID, id, what)
					}
				} else {
					nviol++
					exit = max(exit, 1)
					r.reportViolationFile(ev, h.Func, args, "finding "+id+" is not listed in known_findings: "+res.KnownHits[id], nil, "unlisted-known")
				}
			}
			// violations
			for _, v := range res.Violations {
				kind := v.Kind
				if kind == "exit" && !h.ExitIsViolation {
					continue
				}
				if kind == "steplimit" && !h.StepLimitIsViolation {
					inconclusive[h.Func+": "+v.Msg]++
					exit = max(exit, 2)
					continue
				}
				var confirmed bool
				var how string
				if h.Confirm != nil {
					confirmed, how = h.Confirm(r, args, v)
				} else {
					confirmed, how = r.replay(h, args, v)
				}
				// schedules the Go runtime picks itself (map iteration order): the model's order cannot
				// be imposed on the native run, so the native run is repeated until the runtime picks one
				// that shows the difference
				for try := 1; !confirmed && try < h.NativeRetries; try++ {
					confirmed, how = r.replay(h, args, v)
					if confirmed {
						how += fmt.Sprintf(" (native run %d of up to %d; the Go runtime picks the map order)", try+1, h.NativeRetries)
					}
				}
				validated++
				if confirmed {
					nviol++
					exit = max(exit, 1)
					r.reportViolationFile(ev, h.Func, args, v.Msg, v.Model, how)
				} else {
					inconclusive[fmt.Sprintf("ENGINE-MISMATCH: %s%v: engine found %q (%s) but the native replay gave: %s", h.Func, args, v.Msg, v.Kind, how)]++
					exit = max(exit, 2)
				}
				if nviol >= 3 {
					break
				}
			}
			if time.Now().After(deadline) || nviol >= 3 {
				break
			}
		}
		if nviol >= 3 {
			break
		}
		for _, c := range h.Covers {
			if !covered[c] {
				vacuous = append(vacuous, h.Func+":"+c)
			}
		}
	}
	if len(vacuous) > 0 && exit == 0 {
		fmt.Println("INCONCLUSIVE: VACUOUS: cover labels never reached:", strings.Join(vacuous, ", "))
		exit = 2
	}
	cov["states"] = totalPaths
	cov["transitions"] = totalQueries
	cov["ssa_steps"] = totalSteps
	cov["traces_validated_against_impl"] = validated
	cov["harnesses"] = reports
	cov["solver_time_s"] = solverTime.Seconds()
	cov["inconclusive"] = inconclusive
	cov["vacuous"] = vacuous
	if len(samples) == 0 {
		samples = append(samples, "no symbolic path sample recorded")
	}
	cov["samples"] = samples
	cov["exhaustive"] = false
	cov["explanation"] = "states = feasible paths explored to completion within the stated bounds; transitions = SMT queries discharged; every path's assertions were checked for all values of the symbolic inputs on that path"
	ev.Violations = nviol
	if exit == 2 || len(inconclusive) > 0 && nviol > 0 {
		keys := make([]string, 0, len(inconclusive))
		for k := range inconclusive {
			if !strings.HasPrefix(k, "tolerated: ") {
				keys = append(keys, k)
			}
		}
		sort.Strings(keys)
		if len(keys) > 8 {
			keys = keys[:8]
		}
		fmt.Println("INCONCLUSIVE:", strings.Join(keys, " | "))
	}
	if nviol > 0 {
		exit = 1 // a violation that was confirmed against the real code outweighs whatever else stayed undecided
	}
	if exit == 0 {
		fmt.Printf("OK property=%s tier=%s paths=%d queries=%d validated=%d wall=%.0fs\n", spec.ID, r.tier, totalPaths, totalQueries, validated, time.Since(r.start).Seconds())
	}
	return exit
}

type violationError struct{ msg string }

func (v *violationError) Error() string { return v.msg }

// reportViolationFile writes the replay file and prints the VIOLATION line.
func (r *runner) reportViolationFile(ev *evidence, harness string, args []int64, msg string, model gosym.Model, how string) int {
	dir := "/verif/replays/" + r.spec.ID
	os.MkdirAll(dir, 0o755)
	rec := map[string]any{"property": r.spec.ID, "variant": r.spec.Label, "harness": harness, "args": args, "message": msg, "vars": model, "native_replay": how,
		"replay_cmd": fmt.Sprintf("/verif/check %s --replay <this file>", r.spec.ID)}
	b, _ := json.MarshalIndent(rec, "", " ")
	h := sha1.Sum(b)
	path := fmt.Sprintf("%s/%s-%x.json", dir, harness, h[:5])
	os.WriteFile(path, append(b, '\n'), 0o644)
	fmt.Printf("VIOLATION property=%s replay=%s\n", r.spec.ID, path)
	fmt.Printf("  harness=%s args=%v: %s\n", harness, args, msg)
	ev.Violations++
	return 1
}

var knownRe = regexp.MustCompile(`^open:\s+property=(\S+)\s+id=(\S+)\s+(.*)$`)

func (r *runner) loadKnown() {
	r.known = map[string]string{}
	f, err := os.Open("/verif/known_findings.txt")
	if err != nil {
		return
	}
	defer f.Close()
	sc := bufio.NewScanner(f)
	for sc.Scan() {
		if m := knownRe.FindStringSubmatch(strings.TrimSpace(sc.Text())); m != nil && m[1] == r.spec.ID {
			r.known[m[2]] = m[3]
		}
	}
}

// ---------------------------------------------------------------------------------------------
// native execution (replay and differential)

func (r *runner) buildTestBinary() error {
	if r.testBin != "" {
		return nil
	}
	spec := r.spec
	var sb strings.Builder
	mod := modulePath(r.dir)
	fmt.Fprintf(&sb, "package %s\n\nimport (\n\t\"fmt\"\n\t\"os\"\n\t\"testing\"\n\tzzrt \"%s/internal/zzverifrt\"\n)\n\n", r.pkgName, mod)
	sb.WriteString("var _ = zzrt.Run\n\n")
	sb.WriteString("func TestZZVerifNative(t *testing.T) {\n\tswitch os.Getenv(\"ZZVERIF_CASE\") {\n")
	for _, h := range spec.Harnesses {
		tuples := append(append([][]int64{}, h.Quick...), h.Thorough...)
		if len(tuples) == 0 {
			tuples = [][]int64{nil}
		}
		seen := map[string]bool{}
		for _, args := range tuples {
			key := caseKey(h.Func, args)
			if seen[key] {
				continue
			}
			seen[key] = true
			as := make([]string, len(args))
			for i, a := range args {
				as[i] = fmt.Sprint(a)
			}
			fmt.Fprintf(&sb, "\tcase %q:\n\t\tfmt.Println(\"ZZREPLAY-OUTCOME:\", zzrt.Run(%q, func() { %s(%s) }))\n", key, h.Func, h.Func, strings.Join(as, ", "))
		}
	}
	for name, expr := range spec.ExtraNative {
		fmt.Fprintf(&sb, "\tcase %q:\n\t\tfmt.Println(\"ZZNATIVE-RESULT:\", %s)\n", name, expr)
	}
	sb.WriteString("\tcase \"diff\":\n")
	for _, d := range spec.Diff {
		fmt.Fprintf(&sb, "\t\tfmt.Printf(\"ZZDIFF %%s %%q\\n\", %q, %s())\n", d, d)
	}
	sb.WriteString("\tdefault:\n\t\tt.Fatal(\"unknown case\")\n\t}\n}\n")
	testFile := filepath.Join(r.scratch, "zz_verif_native_test.go")
	if err := os.WriteFile(testFile, []byte(sb.String()), 0o644); err != nil {
		return err
	}
	rel := strings.TrimPrefix(spec.Pkg, mod)
	rel = strings.TrimPrefix(rel, "/")
	repl := map[string]string{}
	for v, real := range r.ovFiles {
		repl[v] = real
	}
	repl[filepath.Join(r.dir, rel, "zz_verif_native_test.go")] = testFile
	ov, _ := json.Marshal(map[string]any{"Replace": repl})
	ovFile := filepath.Join(r.scratch, "overlay.json")
	os.WriteFile(ovFile, ov, 0o644)
	bin := filepath.Join(r.scratch, "native.test")
	cmd := exec.Command("go", "test", "-c", "-vet=off", "-overlay", ovFile, "-o", bin, "./"+rel)
	cmd.Dir = r.dir
	cmd.Env = r.env
	out, err := cmd.CombinedOutput()
	if err != nil {
		return fmt.Errorf("building the native test binary failed: %v\n%s", err, out)
	}
	r.testBin = bin
	return nil
}

func modulePath(dir string) string {
	b, err := os.ReadFile(filepath.Join(dir, "go.mod"))
	if err != nil {
		return ""
	}
	for _, line := range strings.Split(string(b), "\n") {
		if strings.HasPrefix(line, "module ") {
			return strings.TrimSpace(strings.TrimPrefix(line, "module "))
		}
	}
	return ""
}

func caseKey(fn string, args []int64) string {
	as := make([]string, len(args))
	for i, a := range args {
		as[i] = fmt.Sprint(a)
	}
	return fn + "/" + strings.Join(as, ",")
}

// runNative runs one case of the native test binary.
func (r *runner) runNative(caseName string, modelFile string, timeout time.Duration) (string, error) {
	if err := r.buildTestBinary(); err != nil {
		return "", err
	}
	cmd := exec.Command("timeout", "-s", "KILL", fmt.Sprint(int(timeout.Seconds())), r.testBin, "-test.run", "TestZZVerifNative", "-test.timeout", "0")
	rel := strings.TrimPrefix(strings.TrimPrefix(r.spec.Pkg, modulePath(r.dir)), "/")
	cmd.Dir = filepath.Join(r.dir, rel)
	cmd.Env = append(r.env, "ZZVERIF_CASE="+caseName, "ZZVERIF_MODEL="+modelFile)
	out, err := cmd.CombinedOutput()
	return string(out), err
}

func (r *runner) differential(pool *gosym.Pool) (int, error) {
	out, err := r.runNative("diff", "", 120*time.Second)
	if err != nil {
		return 0, fmt.Errorf("native differential run failed: %v\n%s", err, tail(out, 2000))
	}
	native := map[string]string{}
	for _, line := range strings.Split(out, "\n") {
		if strings.HasPrefix(line, "ZZDIFF ") {
			parts := strings.SplitN(line, " ", 3)
			var s string
			if _, err := fmt.Sscanf(parts[2], "%q", &s); err == nil {
				native[parts[1]] = s
			}
		}
	}
	n := 0
	for _, d := range r.spec.Diff {
		fn := gosym.FindFunc(r.prog.Prog, r.spec.Pkg, d)
		if fn == nil {
			return n, fmt.Errorf("differential function %s not found", d)
		}
		got, outc := pool.Engines[0].RunString(fn)
		if outc.Kind != "ok" {
			return n, fmt.Errorf("%s: engine outcome %s: %s", d, outc.Kind, outc.Msg)
		}
		want, ok := native[d]
		if !ok {
			return n, fmt.Errorf("%s: no native result", d)
		}
		if got != want {
			return n, fmt.Errorf("%s: native %q vs engine %q", d, clip(want, 400), clip(got, 400))
		}
		n++
	}
	return n, nil
}

func clip(s string, n int) string {
	if len(s) > n {
		return s[:n] + "…"
	}
	return s
}

func tail(s string, n int) string {
	if len(s) > n {
		return "…" + s[len(s)-n:]
	}
	return s
}

// replay runs the counterexample natively; confirmed reports whether the real code shows the
// same kind of failure.
func (r *runner) replay(h Harness, args []int64, v gosym.PathOutcome) (confirmed bool, how string) {
	mf := filepath.Join(r.scratch, fmt.Sprintf("model-%d.json", time.Now().UnixNano()))
	b, _ := json.Marshal(map[string]any{"vars": v.Model})
	os.WriteFile(mf, b, 0o644)
	to := 60 * time.Second
	out, err := r.runNative(caseKey(h.Func, args), mf, to)
	outcome := ""
	for _, line := range strings.Split(out, "\n") {
		if strings.HasPrefix(line, "ZZREPLAY-OUTCOME: ") {
			outcome = strings.TrimPrefix(line, "ZZREPLAY-OUTCOME: ")
		}
	}
	switch v.Kind {
	case "violation":
		if strings.HasPrefix(outcome, "ASSERT-FAILED") {
			return true, outcome
		}
	case "panic":
		if strings.HasPrefix(outcome, "PANIC") {
			return true, outcome
		}
	case "fatal":
		if outcome == "" && err != nil {
			return true, "native process died: " + firstLine(tail(out, 1500))
		}
	case "steplimit":
		if outcome == "" && err != nil {
			return true, fmt.Sprintf("native run did not finish within %v", to)
		}
	case "exit":
		if outcome == "" {
			return true, "native process exited: " + fmt.Sprint(err)
		}
	}
	if outcome == "" {
		outcome = fmt.Sprintf("no outcome line (err=%v): %s", err, tail(out, 600))
	}
	return false, outcome
}

func firstLine(s string) string {
	for _, l := range strings.Split(s, "\n") {
		if strings.Contains(l, "fatal error") || strings.Contains(l, "panic:") || strings.Contains(l, "overflow") {
			return l
		}
	}
	if i := strings.IndexByte(s, '\n'); i >= 0 {
		return s[:i]
	}
	return s
}

// ---------------------------------------------------------------------------------------------
// replay of a recorded counterexample against the current tree

type replayRecord struct {
	Property string            `json:"property"`
	Variant  string            `json:"variant"`
	Harness  string            `json:"harness"`
	Args     []int64           `json:"args"`
	Message  string            `json:"message"`
	Vars     map[string]uint64 `json:"vars"`
}

func loadReplay(path string) (*replayRecord, error) {
	b, err := os.ReadFile(path)
	if err != nil {
		return nil, err
	}
	rec := &replayRecord{}
	if err := json.Unmarshal(b, rec); err != nil {
		return nil, err
	}
	return rec, nil
}

func (rec *replayRecord) matches(p *Prop) bool {
	if rec.Variant != "" && p.Label != rec.Variant {
		return false
	}
	if rec.Harness == "prepare" || p.Custom != nil {
		return true
	}
	for _, h := range p.Harnesses {
		if h.Func == rec.Harness {
			return true
		}
	}
	return false
}

func (r *runner) doReplay() int {
	rec := r.replayRec
	if rec.Harness == "prepare" {
		fmt.Println("REPLAY: the recorded failure was in the generation step; it did not recur on the current tree")
		return 0
	}
	if r.spec.Custom != nil {
		fmt.Println("REPLAY: this counterexample is a schedule of the SMT model; re-run the check to re-derive and confirm it:", rec.Message)
		return 2
	}
	found := false
	for _, h := range r.spec.Harnesses {
		if h.Func != rec.Harness {
			continue
		}
		for _, t := range append(append([][]int64{}, h.Quick...), h.Thorough...) {
			if caseKey(h.Func, t) == caseKey(h.Func, rec.Args) {
				found = true
			}
		}
	}
	if !found {
		r.spec.Harnesses = append(r.spec.Harnesses, Harness{Func: rec.Harness, Quick: [][]int64{rec.Args}})
	}
	mf := filepath.Join(r.scratch, "replay-model.json")
	b, _ := json.Marshal(map[string]any{"vars": rec.Vars})
	os.WriteFile(mf, b, 0o644)
	out, err := r.runNative(caseKey(rec.Harness, rec.Args), mf, 120*time.Second)
	outcome := ""
	for _, line := range strings.Split(out, "\n") {
		if strings.HasPrefix(line, "ZZREPLAY-OUTCOME: ") {
			outcome = strings.TrimPrefix(line, "ZZREPLAY-OUTCOME: ")
		}
	}
	fmt.Printf("REPLAY harness=%s args=%v recorded: %s\n", rec.Harness, rec.Args, rec.Message)
	if outcome == "" {
		fmt.Printf("REPLAY native run gave no outcome (err=%v): %s\n", err, tail(out, 800))
		return 1
	}
	fmt.Println("REPLAY native outcome on the current tree:", outcome)
	if strings.HasPrefix(outcome, "ASSERT-FAILED") || strings.HasPrefix(outcome, "PANIC") {
		return 1
	}
	return 0
}
