package main

import (
	"encoding/json"
	"fmt"
	"os"
	"path/filepath"
	"regexp"
	"strings"
	"time"
)

var schedBlock = regexp.MustCompile(`T(\d+):\[([^\]]*)\]`)

// replayC19 runs the real OnFinished natively with the failing subset of the model and an
// environment that follows the model's order of callback events as far as the real schedule
// allows; it reports whether the real code shows the violated property.
func replayC19(r *runner, J int, withPP bool, K int, sr *schedResult) (bool, string) {
	m := map[string]any{"J": J, "with_pp": withPP, "K": K}
	failPP, failF := make([]bool, J), make([]bool, J)
	for k, v := range sr.Model {
		var j int
		if n, _ := fmt.Sscanf(k, "failpp_%d", &j); n == 1 && j-1 < J && j >= 1 {
			failPP[j-1] = v == "true"
		}
		if n, _ := fmt.Sscanf(k, "failf_%d", &j); n == 1 && j-1 < J && j >= 1 {
			failF[j-1] = v == "true"
		}
	}
	var order []string
	for _, blk := range schedBlock.FindAllStringSubmatch(sr.Model["schedule"], -1) {
		var th int
		fmt.Sscan(blk[1], &th)
		for _, ev := range strings.Split(blk[2], ",") {
			switch {
			case th > 0 && strings.HasPrefix(ev, "pp.end"):
				order = append(order, fmt.Sprintf("pp:%d", th-1))
			case th > 0 && strings.HasPrefix(ev, "f.begin"):
				order = append(order, fmt.Sprintf("fbegin:%d", th-1))
			case th > 0 && strings.HasPrefix(ev, "f.end"):
				order = append(order, fmt.Sprintf("fend:%d", th-1))
			case th == 0 && strings.HasPrefix(ev, "return"):
				order = append(order, "return")
			}
		}
	}
	m["fail_pp"], m["fail_f"], m["env_order"] = failPP, failF, order
	b, _ := json.Marshal(m)
	mf := filepath.Join(r.scratch, fmt.Sprintf("c19-model-%d.json", time.Now().UnixNano()))
	os.WriteFile(mf, b, 0o644)
	// The native binary is rebuilt with generator.go instrumented (add-only, overlay) with
	// scheduling points; the replay searches randomised schedules of the REAL code for the
	// model's outcome (the environment part of the schedule follows the model).
	inst := filepath.Join(r.scratch, "generator_instrumented.go")
	if err := instrumentYields(filepath.Join(r.dir, "generator/generator.go"), "OnFinished", "github.com/cloudwego/thriftgo/internal/zzverifrt", inst); err != nil {
		return false, "instrumentation failed: " + err.Error()
	}
	r.ovFiles[filepath.Join(r.dir, "generator/generator.go")] = inst
	r.testBin = ""
	last := ""
	for attempt := 0; attempt < 2; attempt++ {
		confirmed, obs := replayC19Once(r, mf, sr)
		if confirmed {
			return true, fmt.Sprintf("%s (attempt %d)", obs, attempt+1)
		}
		last = obs
	}
	return false, last
}

func replayC19Once(r *runner, mf string, sr *schedResult) (bool, string) {
	out, err := r.runNative("c19replay", mf, 240*time.Second)
	obs := ""
	for _, line := range strings.Split(out, "\n") {
		if strings.HasPrefix(line, "ZZNATIVE-RESULT: ") {
			obs = strings.TrimPrefix(line, "ZZNATIVE-RESULT: ")
		}
	}
	if obs == "" {
		if err != nil && (strings.Contains(out, "negative WaitGroup") || strings.Contains(out, "fatal error") || strings.Contains(out, "panic:")) {
			return strings.HasPrefix(sr.Violation, "P5") || strings.HasPrefix(sr.Violation, "P1"), "native process died: " + firstLine(tail(out, 1500))
		}
		return false, fmt.Sprintf("no result (err=%v): %s", err, tail(out, 400))
	}
	want := sr.Violation[:2] // P1..P5
	if want == "U:" {
		want = "P1"
	}
	confirmed := strings.Contains(obs, want)
	// a deadlock may also show as blocked goroutines and vice versa
	if !confirmed && (want == "P1" || want == "P5") && (strings.Contains(obs, "P1:") || strings.Contains(obs, "P5")) {
		confirmed = true
	}
	return confirmed, obs
}
