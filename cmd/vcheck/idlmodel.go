package main

import (
	"fmt"
	"strings"
)

// The IDL model is the single source of truth of the generated-code checks: it is printed
// as .thrift text (input of the real generator) and as the schema tables the reference codec
// in the harness interprets. The oracles never look at thriftgo's parser or scope.

type TRef struct {
	Kind string // bool byte i16 i32 i64 double string binary list set map struct enum typedef
	Elem *TRef
	Key  *TRef
	Name string // struct / enum / typedef name (possibly "inc.Name")
}

type MField struct {
	ID      int
	Name    string
	Req     string // "" | required | optional
	Type    *TRef
	Default string // IDL literal for scalars ("" = none)
}

type MStruct struct {
	Kind   string // struct union exception
	Name   string
	Fields []MField
}

type MEnum struct {
	Name   string
	Values []struct {
		Name string
		Val  int
	}
}

type MTypedef struct {
	Name string
	Type *TRef
}

type MFunc struct {
	Name   string
	Oneway bool
	Ret    *TRef // nil = void
	Args   []MField
	Throws []MField
}

type MService struct {
	Name    string
	Extends string
	Funcs   []MFunc
}

type MFile struct {
	Path      string // e.g. "a.thrift"
	Namespace string // go namespace = package path below the module root
	Includes  []string
	Enums     []MEnum
	Typedefs  []MTypedef
	Structs   []MStruct
	Services  []MService
}

func tBase(k string) *TRef    { return &TRef{Kind: k} }
func tList(e *TRef) *TRef     { return &TRef{Kind: "list", Elem: e} }
func tSet(e *TRef) *TRef      { return &TRef{Kind: "set", Elem: e} }
func tMap(k, v *TRef) *TRef   { return &TRef{Kind: "map", Key: k, Elem: v} }
func tStruct(n string) *TRef  { return &TRef{Kind: "struct", Name: n} }
func tEnum(n string) *TRef    { return &TRef{Kind: "enum", Name: n} }
func tTypedef(n string) *TRef { return &TRef{Kind: "typedef", Name: n} }

func (t *TRef) IDL() string {
	switch t.Kind {
	case "list":
		return "list<" + t.Elem.IDL() + ">"
	case "set":
		return "set<" + t.Elem.IDL() + ">"
	case "map":
		return "map<" + t.Key.IDL() + ", " + t.Elem.IDL() + ">"
	case "struct", "enum", "typedef":
		return t.Name
	}
	return t.Kind
}

func (f *MFile) IDL() string {
	var sb strings.Builder
	fmt.Fprintf(&sb, "namespace go %s\n", f.Namespace)
	for _, inc := range f.Includes {
		fmt.Fprintf(&sb, "include \"%s\"\n", inc)
	}
	for _, e := range f.Enums {
		fmt.Fprintf(&sb, "enum %s {\n", e.Name)
		for _, v := range e.Values {
			fmt.Fprintf(&sb, "  %s = %d\n", v.Name, v.Val)
		}
		sb.WriteString("}\n")
	}
	for _, td := range f.Typedefs {
		fmt.Fprintf(&sb, "typedef %s %s\n", td.Type.IDL(), td.Name)
	}
	fields := func(fs []MField) {
		for _, fl := range fs {
			fmt.Fprintf(&sb, "  %d: ", fl.ID)
			if fl.Req != "" {
				sb.WriteString(fl.Req + " ")
			}
			sb.WriteString(fl.Type.IDL() + " " + fl.Name)
			if fl.Default != "" {
				sb.WriteString(" = " + fl.Default)
			}
			sb.WriteString("\n")
		}
	}
	for _, s := range f.Structs {
		fmt.Fprintf(&sb, "%s %s {\n", s.Kind, s.Name)
		fields(s.Fields)
		sb.WriteString("}\n")
	}
	for _, s := range f.Services {
		fmt.Fprintf(&sb, "service %s ", s.Name)
		if s.Extends != "" {
			sb.WriteString("extends " + s.Extends + " ")
		}
		sb.WriteString("{\n")
		for _, fn := range s.Funcs {
			sb.WriteString("  ")
			if fn.Oneway {
				sb.WriteString("oneway ")
			}
			if fn.Ret == nil {
				sb.WriteString("void ")
			} else {
				sb.WriteString(fn.Ret.IDL() + " ")
			}
			sb.WriteString(fn.Name + "(\n")
			fields(fn.Args)
			sb.WriteString("  )")
			if len(fn.Throws) > 0 {
				sb.WriteString(" throws (\n")
				fields(fn.Throws)
				sb.WriteString("  )")
			}
			sb.WriteString("\n")
		}
		sb.WriteString("}\n")
	}
	return sb.String()
}

// Program is a set of files; the first is the main one.
type MProgram struct {
	Files []*MFile
}

func (p *MProgram) file(path string) *MFile {
	for _, f := range p.Files {
		if f.Path == path {
			return f
		}
	}
	return nil
}

// resolve follows typedefs (also across includes) and returns the concrete type together
// with the file that defines it.
func (p *MProgram) resolve(f *MFile, t *TRef) (*MFile, *TRef) {
	if t.Kind != "typedef" {
		if (t.Kind == "struct" || t.Kind == "enum") && strings.Contains(t.Name, ".") {
			pre, name := splitQual(t.Name)
			for _, inc := range f.Includes {
				if strings.TrimSuffix(inc, ".thrift") == pre {
					return p.file(inc), &TRef{Kind: t.Kind, Name: name}
				}
			}
		}
		return f, t
	}
	df, name := f, t.Name
	if strings.Contains(name, ".") {
		pre, n := splitQual(name)
		for _, inc := range f.Includes {
			if strings.TrimSuffix(inc, ".thrift") == pre {
				df, name = p.file(inc), n
			}
		}
	}
	for _, td := range df.Typedefs {
		if td.Name == name {
			return p.resolve(df, td.Type)
		}
	}
	panic("idlmodel: unknown typedef " + t.Name)
}

func splitQual(n string) (string, string) {
	i := strings.LastIndex(n, ".")
	return n[:i], n[i+1:]
}

func (f *MFile) structByName(n string) *MStruct {
	for i := range f.Structs {
		if f.Structs[i].Name == n {
			return &f.Structs[i]
		}
	}
	return nil
}

func (f *MFile) enumByName(n string) *MEnum {
	for i := range f.Enums {
		if f.Enums[i].Name == n {
			return &f.Enums[i]
		}
	}
	return nil
}
