// Command vcheck decides one property of /repo by symbolic execution of the real code.
//
//	vcheck -prop C14 -tier quick
//
// Exit status: 0 = held on everything explored (known findings are printed and do not fail),
// 1 = violation (a line "VIOLATION property=<id> replay=<path>" is printed), 2 = inconclusive
// or engine problem (never a verdict).
package main

import (
	"flag"
	"fmt"
	"os"
	"strings"
)

func main() {
	prop := flag.String("prop", "", "property id")
	tier := flag.String("tier", "quick", "quick | thorough")
	only := flag.String("only", "", "run only harnesses whose name contains this string (development)")
	variant := flag.String("variant", "", "run only the variant with this label (development)")
	workers := flag.Int("workers", 16, "parallel engines")
	keep := flag.Bool("keep", false, "keep scratch directories")
	verbose := flag.Bool("v", false, "verbose")
	replay := flag.String("replay", "", "replay file written by an earlier run: run that counterexample natively against the current /repo tree")
	flag.Parse()
	// "check <id> --replay <file>" arrives as tier "--replay" followed by the path
	if *tier == "--replay" || *tier == "-replay" {
		if flag.NArg() > 0 {
			*replay = flag.Arg(0)
		}
		*tier = "thorough"
	}
	if t := os.Getenv("VERIF_TIER"); t != "" && !isFlagSet("tier") {
		*tier = t
	}
	spec, ok := props[strings.ToUpper(*prop)]
	if !ok {
		fmt.Fprintf(os.Stderr, "unknown property %q\n", *prop)
		os.Exit(2)
	}
	r := &runner{spec: spec, tier: *tier, only: *only, variantOnly: *variant, workers: *workers, keep: *keep, verbose: *verbose}
	if *replay != "" {
		rec, err := loadReplay(*replay)
		if err != nil {
			fmt.Fprintln(os.Stderr, "cannot read replay file:", err)
			os.Exit(2)
		}
		r.replayRec = rec
	}
	os.Exit(r.run())
}

// repoRoot is the tree under analysis: /repo, or $VERIF_REPO (used to run a check against a
// scratch copy that carries a seeded change while /repo itself stays untouched).
func repoRoot() string {
	if v := os.Getenv("VERIF_REPO"); v != "" {
		return v
	}
	return "/repo"
}

func isFlagSet(name string) bool {
	set := false
	flag.Visit(func(f *flag.Flag) {
		if f.Name == name {
			set = true
		}
	})
	return set
}
