package main

import (
	"bytes"
	"fmt"
	"go/ast"
	"go/parser"
	"go/printer"
	"go/token"
	"os"
)

// instrumentYields rewrites one function of a Go source file (add-only): a call
// zzverifrt.Yield(<thread>) is inserted before every statement of the function body and of
// the goroutine closures it starts, so that a native replay can perturb the schedule.
// The rewritten file is only ever used through `go test -overlay`; nothing is written to /repo.
func instrumentYields(srcPath, funcName, zzrtImport, outPath string) error {
	fset := token.NewFileSet()
	f, err := parser.ParseFile(fset, srcPath, nil, parser.ParseComments)
	if err != nil {
		return err
	}
	found := false
	for _, d := range f.Decls {
		fd, ok := d.(*ast.FuncDecl)
		if !ok || fd.Name.Name != funcName || fd.Body == nil {
			continue
		}
		found = true
		instrBlock(fd.Body, &ast.BasicLit{Kind: token.STRING, Value: `"main"`})
	}
	if !found {
		return fmt.Errorf("function %s not found in %s", funcName, srcPath)
	}
	// add the import
	imp := &ast.ImportSpec{Name: ast.NewIdent("zzverifrt"), Path: &ast.BasicLit{Kind: token.STRING, Value: fmt.Sprintf("%q", zzrtImport)}}
	added := false
	for _, d := range f.Decls {
		if gd, ok := d.(*ast.GenDecl); ok && gd.Tok == token.IMPORT {
			gd.Specs = append(gd.Specs, imp)
			added = true
			break
		}
	}
	if !added {
		f.Decls = append([]ast.Decl{&ast.GenDecl{Tok: token.IMPORT, Specs: []ast.Spec{imp}}}, f.Decls...)
	}
	var buf bytes.Buffer
	if err := printer.Fprint(&buf, fset, f); err != nil {
		return err
	}
	return os.WriteFile(outPath, buf.Bytes(), 0o644)
}

func yieldStmt(thread ast.Expr) ast.Stmt {
	return &ast.ExprStmt{X: &ast.CallExpr{Fun: &ast.SelectorExpr{X: ast.NewIdent("zzverifrt"), Sel: ast.NewIdent("Yield")}, Args: []ast.Expr{thread}}}
}

func instrBlock(b *ast.BlockStmt, thread ast.Expr) {
	if b == nil {
		return
	}
	var out []ast.Stmt
	for _, st := range b.List {
		instrStmt(st, thread)
		switch st.(type) {
		case *ast.DeclStmt, *ast.LabeledStmt:
			out = append(out, st)
		default:
			out = append(out, yieldStmt(thread), st)
		}
	}
	b.List = out
}

func instrStmt(st ast.Stmt, thread ast.Expr) {
	switch s := st.(type) {
	case *ast.BlockStmt:
		instrBlock(s, thread)
	case *ast.ForStmt:
		instrBlock(s.Body, thread)
	case *ast.RangeStmt:
		instrBlock(s.Body, thread)
	case *ast.IfStmt:
		instrBlock(s.Body, thread)
		if s.Else != nil {
			instrStmt(s.Else, thread)
		}
	case *ast.SelectStmt:
		for _, c := range s.Body.List {
			if cc, ok := c.(*ast.CommClause); ok {
				body := &ast.BlockStmt{List: cc.Body}
				instrBlock(body, thread)
				cc.Body = body.List
			}
		}
	case *ast.SwitchStmt:
		for _, c := range s.Body.List {
			if cc, ok := c.(*ast.CaseClause); ok {
				body := &ast.BlockStmt{List: cc.Body}
				instrBlock(body, thread)
				cc.Body = body.List
			}
		}
	case *ast.GoStmt:
		if fl, ok := s.Call.Fun.(*ast.FuncLit); ok {
			// thread name: "w:" + first string parameter when there is one
			var name ast.Expr = &ast.BasicLit{Kind: token.STRING, Value: `"w"`}
			if fl.Type.Params != nil {
				for _, p := range fl.Type.Params.List {
					if id, ok := p.Type.(*ast.Ident); ok && id.Name == "string" && len(p.Names) > 0 {
						name = &ast.BinaryExpr{X: &ast.BasicLit{Kind: token.STRING, Value: `"w:"`}, Op: token.ADD, Y: ast.NewIdent(p.Names[0].Name)}
						break
					}
				}
			}
			instrBlock(fl.Body, name)
		}
	case *ast.DeferStmt:
		if fl, ok := s.Call.Fun.(*ast.FuncLit); ok {
			instrBlock(fl.Body, thread)
		}
	}
}
