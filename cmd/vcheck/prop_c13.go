package main

import (
	"fmt"
	"strings"
	"time"
)

func corpusMask() *MProgram {
	f := &MFile{Path: "fm.thrift", Namespace: "fm"}
	f.Structs = []MStruct{
		{Kind: "struct", Name: "Inner", Fields: []MField{
			fld(1, "xx", "required", tBase("i32")),
			fld(2, "ss", "optional", tBase("string")),
			fld(3, "ll", "", tList(tBase("i32"))),
		}},
		{Kind: "struct", Name: "Root", Fields: []MField{
			fld(1, "rr", "required", tBase("i32")),
			fld(2, "oo", "optional", tBase("string")),
			fld(3, "inn", "", tStruct("Inner")),
			fld(4, "li", "", tList(tStruct("Inner"))),
			fld(5, "sm", "", tMap(tBase("string"), tStruct("Inner"))),
			fld(6, "im", "", tMap(tBase("i32"), tBase("string"))),
			fld(7, "st", "", tSet(tBase("string"))),
			fld(8, "pl", "", tBase("i64")),
			fld(9, "rin", "required", tStruct("Inner")),
			// ids around the boundary of the field-id table of the mask (array for 0..63, map above)
			fld(63, "ba", "", tBase("i64")),
			fld(64, "bb", "", tBase("i32")),
		}},
	}
	return &MProgram{Files: []*MFile{f}}
}

const c13Harness = `
import (
	"github.com/cloudwego/thriftgo/fieldmask"
	"github.com/cloudwego/thriftgo/parser"
	"github.com/cloudwego/thriftgo/thrift_reflection"
)

const zzIDL = %q

func zzRootDesc() *thrift_reflection.TypeDescriptor {
	ast, err := parser.ParseString("fm.thrift", zzIDL)
	if err != nil {
		panic(err.Error())
	}
	_, fd := thrift_reflection.RegisterAST(ast)
	st := fd.GetStructDescriptor("Root")
	return &thrift_reflection.TypeDescriptor{Filepath: st.Filepath, Name: st.Name,
		Extra: map[string]string{thrift_reflection.GLOBAL_UUID_EXTRA_KEY: st.Extra[thrift_reflection.GLOBAL_UUID_EXTRA_KEY]}}
}

// ---- the reference semantics of a path set -------------------------------------------------

type zzStep struct {
	kind int // 0 field id, 1 list index, 2 string key, 3 int key, 4 '*' among fields, 5 '*' among list elements, 6 '*' among map entries
	n    int
	s    string
}

type zzNode struct {
	complete bool
	any      *zzNode
	kids     []*zzNode
	steps    []zzStep
}

func (nd *zzNode) child(st zzStep, create bool) *zzNode {
	if st.kind >= 4 {
		if nd.any == nil && create {
			nd.any = &zzNode{}
		}
		return nd.any
	}
	for i, s := range nd.steps {
		if s.kind == st.kind && s.n == st.n && s.s == st.s {
			return nd.kids[i]
		}
	}
	if !create {
		return nd.any
	}
	k := &zzNode{}
	nd.steps = append(nd.steps, st)
	nd.kids = append(nd.kids, k)
	return k
}

func zzTree(paths [][]zzStep) *zzNode {
	root := &zzNode{}
	for _, p := range paths {
		nd := root
		for _, st := range p {
			nd = nd.child(st, true)
		}
		nd.complete = true
	}
	return root
}

func zzPathStr(p []zzStep) string {
	s := "$"
	for _, st := range p {
		switch st.kind {
		case 0:
			s += "." + zzItoa(st.n)
		case 1:
			s += "[" + zzItoa(st.n) + "]"
		case 2:
			s += "{\"" + st.s + "\"}"
		case 3:
			s += "{" + zzItoa(st.n) + "}"
		case 4:
			s += ".*"
		case 5:
			s += "[*]"
		case 6:
			s += "{*}"
		}
	}
	return s
}

func zzItoa(n int) string {
	if n == 0 {
		return "0"
	}
	neg := n < 0
	if neg {
		n = -n
	}
	d := ""
	for n > 0 {
		d = string([]byte{'0' + byte(n%%10)}) + d
		n /= 10
	}
	if neg {
		return "-" + d
	}
	return d
}

// zzZero: the zero value written for an excluded required field (a struct is written empty).
func zzZero(t *zzType) *zzVal {
	return &zzVal{}
}

// zzFilter: the value restricted to the mask (nd == nil: not mentioned by any path).
// White list: present iff covered. Black list: present iff no complete path covers it.
// With keepReq (Write) required fields are always written: current value, or the zero value
// with zeroReq; Read stores only what is selected.
func zzFilter(t *zzType, v *zzVal, nd *zzNode, black, zeroReq, keepReq bool) *zzVal {
	if nd == nil || nd.complete {
		return v // caller decided that v is present as a whole
	}
	out := &zzVal{S: v.S, I: v.I, F: v.F}
	keep := func(ct *zzType, cv *zzVal, c *zzNode) (*zzVal, bool) {
		if !black {
			if c == nil {
				return nil, false
			}
			return zzFilter(ct, cv, c, black, zeroReq, keepReq), true
		}
		if c == nil {
			return cv, true
		}
		if c.complete {
			return nil, false
		}
		return zzFilter(ct, cv, c, black, zeroReq, keepReq), true
	}
	switch t.K {
	case zzStructK:
		for _, f := range t.St.Fields {
			fv := v.field(f.ID)
			if fv == nil {
				continue
			}
			c := nd.child(zzStep{kind: 0, n: int(f.ID)}, false)
			if x, ok := keep(f.T, fv, c); ok {
				out.Fs = append(out.Fs, zzFV{ID: f.ID, V: x})
			} else if f.Req == 1 && keepReq {
				if zeroReq {
					out.Fs = append(out.Fs, zzFV{ID: f.ID, V: zzZero(f.T)})
				} else {
					out.Fs = append(out.Fs, zzFV{ID: f.ID, V: fv})
				}
			}
		}
	case zzList, zzSet:
		for i, e := range v.L {
			c := nd.child(zzStep{kind: 1, n: i}, false)
			if x, ok := keep(t.Elem, e, c); ok {
				out.L = append(out.L, x)
			}
		}
	case zzMap:
		for i := range v.L {
			var c *zzNode
			if t.Key.K == zzString {
				// keys are concrete in the mask harnesses
				c = nd.child(zzStep{kind: 2, s: v.K[i].S}, false)
			} else {
				c = nd.child(zzStep{kind: 3, n: int(v.K[i].I)}, false)
			}
			if x, ok := keep(t.Elem, v.L[i], c); ok {
				out.K = append(out.K, v.K[i])
				out.L = append(out.L, x)
			}
		}
	}
	return out
}

// the designed path lists over Root
func zzPathLists() [][][]zzStep {
	f := func(n int) zzStep { return zzStep{kind: 0, n: n} }
	ix := func(n int) zzStep { return zzStep{kind: 1, n: n} }
	sk := func(s string) zzStep { return zzStep{kind: 2, s: s} }
	ik := func(n int) zzStep { return zzStep{kind: 3, n: n} }
	anyE := zzStep{kind: 5}
	anyK := zzStep{kind: 6}
	return [][][]zzStep{
		{{f(1)}},
		{{f(2)}, {f(8)}},
		{{f(3)}},
		{{f(3), f(2)}},
		{{f(4), ix(0)}},
		{{f(4), ix(1), f(1)}, {f(4), ix(5)}},
		{{f(4), anyE, f(3)}},
		{{f(5), sk("k")}},
		{{f(5), sk("k"), f(3), ix(0)}, {f(5), sk("zz")}},
		{{f(6), ik(7)}, {f(7)}},
		{{f(9), f(2)}, {f(3), f(1)}},
		{{f(4), ix(0), f(3), ix(1)}, {f(6), ik(99)}},
		{{f(63)}},
		{{f(64)}, {f(9), f(1)}},
		{{f(63)}, {f(64)}},
		{{f(9), f(3), ix(0)}},
		{{f(9), f(3), ix(1)}, {f(9), f(3), ix(2)}},
		// '*' over the entries of a string-keyed map with a deeper path (the wildcard answer of Str)
		{{f(5), anyK, f(2)}, {f(4), anyE, f(1)}},
		{{f(5), anyK, f(3), ix(0)}},
	}
}

// zzMaskValue builds the Root value of the mask harnesses: symbolic leaves, concrete map keys.
func zzMaskValue() *Root {
	v := zzSym_Root(1)
	v.Li = append(v.Li, zzSym_Inner(1))
	sm := map[string]*Inner{"k": zzSym_Inner(1), "q": zzSym_Inner(1)}
	v.Sm = sm
	v.Im = map[int32]string{7: zzrt.String("s", 1), 8: zzrt.String("s", 1)}
	for _, in := range []*Inner{v.Inn, v.Rin, v.Li[0], v.Li[1], sm["k"], sm["q"]} {
		in.Ll = []int32{zzrt.Int32("i"), zzrt.Int32("i")}
	}
	// three elements: the element count of a masked list is computed by a loop over the indices,
	// and a selection that keeps an early index and drops later ones needs at least three
	v.Rin.Ll = append(v.Rin.Ll, zzrt.Int32("i"))
	return v
}

func zzMask(list int, black bool) (*fieldmask.FieldMask, *zzNode) {
	paths := zzPathLists()[list]
	var strs []string
	for _, p := range paths {
		strs = append(strs, zzPathStr(p))
	}
	fm, err := fieldmask.Options{BlackListMode: black}.NewFieldMask(zzRootDesc(), strs...)
	zzrt.Assert(err == nil, "the designed paths are valid")
	return fm, zzTree(paths)
}

// H_C13_write: writing under a mask emits exactly the selected data, well formed.
func H_C13_write(list, blackI int) {
	zzLen = 1
	black := blackI == 1
	v := zzMaskValue()
	full := zzFrom_Root(v)
	fm, tree := zzMask(list, black)
	v.Set_FieldMask(fm)
	b, err := zzWriteBytes(v)
	zzrt.Assert(err == nil, "Write under a mask succeeds")
	r := &zzReader{b: b}
	got := zzDec(r, zzT_Root)
	zzrt.Assert(!r.bad && len(r.b) == 0, "masked encoding is well formed: every container header count equals the number of elements that follow")
	want := zzFilter(zzT_Root, full, tree, black, zzZeroRequired, true)
	zzAssertEq(zzT_Root, got, want, "masked Write")
	zzrt.Cover("end")
}

// H_C13_read: reading under a mask stores exactly the selected part and skips the rest.
func H_C13_read(list, blackI int) {
	zzLen = 1
	black := blackI == 1
	v := zzMaskValue()
	full := zzFrom_Root(v)
	fm, tree := zzMask(list, black)
	p := NewRoot()
	p.Set_FieldMask(fm)
	err := p.Read(zzProtoOver(zzEnc(nil, zzT_Root, full)))
	zzrt.Assert(err == nil, "Read under a mask succeeds")
	want := zzFilter(zzT_Root, full, tree, black, false, false)
	zzAssertEqMasked(zzT_Root, zzFrom_Root(p), want, "masked Read")
	zzrt.Cover("end")
}

// zzAssertEqMasked: like zzAssertEq, but a required/default scalar that was filtered out is
// still "present" in the Go object with its zero value: compare only what the mask selected,
// and require unselected optional/container members to be absent or empty.
func zzAssertEqMasked(t *zzType, got, want *zzVal, what string) {
	switch t.K {
	case zzStructK:
		for _, f := range t.St.Fields {
			g, w := got.field(f.ID), want.field(f.ID)
			if w != nil {
				zzrt.Assert(g != nil, what+": selected field "+f.Name+" is stored")
				if g != nil {
					zzAssertEqMasked(f.T, g, w, what)
				}
			} else if g != nil {
				// not selected: must hold nothing
				zzrt.Assert(zzEmptyVal(f.T, g), what+": unselected field "+f.Name+" holds no data")
			}
		}
	case zzList, zzSet:
		zzrt.Assert(len(got.L) == len(want.L), what+": number of stored elements")
		for i := range want.L {
			if i < len(got.L) {
				zzAssertEqMasked(t.Elem, got.L[i], want.L[i], what)
			}
		}
	case zzMap:
		zzrt.Assert(len(got.L) == len(want.L), what+": number of stored entries")
		for i := range want.K {
			for j := range got.K {
				if zzKeyEq(t.Key, got.K[j], want.K[i]) {
					zzAssertEqMasked(t.Elem, got.L[j], want.L[i], what)
				}
			}
		}
	default:
		zzrt.Assert(zzLeafEq(t, got, want), what+": scalar value")
	}
}

func zzEmptyVal(t *zzType, v *zzVal) bool {
	switch t.K {
	case zzStructK:
		for _, f := range t.St.Fields {
			if x := v.field(f.ID); x != nil && !zzEmptyVal(f.T, x) {
				return false
			}
		}
		return true
	case zzList, zzSet, zzMap:
		return len(v.L) == 0
	case zzString, zzBinary:
		return v.S == ""
	case zzDouble:
		return v.F == 0
	}
	return v.I == 0
}

// H_C13_nil: a nil mask behaves exactly like code generated without the option.
func H_C13_nil() {
	zzLen = 1
	v := zzMaskValue()
	full := zzFrom_Root(v)
	v.Set_FieldMask(nil)
	b, err := zzWriteBytes(v)
	zzrt.Assert(err == nil, "Write with a nil mask succeeds")
	r := &zzReader{b: b}
	zzAssertEq(zzT_Root, zzDec(r, zzT_Root), full, "nil mask Write")
	zzrt.Assert(!r.bad && len(r.b) == 0, "nil mask: whole value, nothing else")
	p := NewRoot()
	zzrt.Assert(p.Read(zzProtoOver(zzEnc(nil, zzT_Root, full))) == nil, "Read with a nil mask")
	zzAssertEq(zzT_Root, zzFrom_Root(p), full, "nil mask Read")
	zzrt.Cover("end")
}
`

func entryC13(zeroRequired bool) func(g *harnessGen, pkg string) string {
	return func(g *harnessGen, pkg string) string {
		base := entryC02(g, pkg)
		// the C02 entry has its own import block; merge ours after it
		extra := fmt.Sprintf(c13Harness, g.f.IDL())
		imp := "import (\n\t\"github.com/cloudwego/thriftgo/fieldmask\"\n\t\"github.com/cloudwego/thriftgo/parser\"\n\t\"github.com/cloudwego/thriftgo/thrift_reflection\"\n)\n"
		extra = strings.Replace(extra, imp, "", 1)
		base = strings.Replace(base, "import (\n", "import (\n\t\"github.com/cloudwego/thriftgo/fieldmask\"\n\t\"github.com/cloudwego/thriftgo/parser\"\n\t\"github.com/cloudwego/thriftgo/thrift_reflection\"\n", 1)
		return base + fmt.Sprintf("\nconst zzZeroRequired = %v\n", zeroRequired) + extra
	}
}

func c13Variant(label, options string, zeroReq bool) *Prop {
	return &Prop{Label: label, Pkg: "zzgen/fm", NoOverlay: true, Diff: []string{"D_GEN_roundtrip"},
		Prepare: func(r *runner) error {
			prog := corpusMask()
			r.spec.Harnesses = []Harness{
				{Func: "H_C13_write", Quick: tuples(seq(0, 18), seq(0, 1)), Covers: []string{"end"}},
				{Func: "H_C13_read", Quick: tuples(seq(0, 18), seq(0, 1)), Covers: []string{"end"}},
				{Func: "H_C13_nil", Covers: []string{"end"}},
			}
			return prepareGenerated(r, prog, genConfig{Options: options}, entryC13(zeroReq))
		}}
}

func init() {
	register(&Prop{
		ID: "C13", QuickBudget: 25 * time.Minute, ThoroughBudget: 90 * time.Minute,
		Functions:   []string{"generated Write/Read with with_field_mask (FieldWriteMap/Set/List, FieldReadMap/Set/List, Set_FieldMask propagation) for the corpus fm.thrift", "fieldmask.NewFieldMask, (*FieldMask).Field/Int/Str/All/Exist", "thrift_reflection.RegisterAST and descriptor lookups", "generator/golang/thrift.go ZeroWriter output (exercised through the generated code)"},
		Bounds:      "root struct with required/optional scalars, nested struct, list<struct>, map<string,struct>, map<i32,string>, set<string>, required struct; 19 designed path lists (field by id, list indices incl. out of range, string and int keys present and absent, '*' over elements, nested combinations) x white/black; all scalar leaves of the value symbolic (full width), 2 list elements, 2 map entries with concrete keys; configurations: default, field_mask_halfway, field_mask_zero_required",
		Assumptions: []string{"the path lists are designed (sampled); values are solver-decided", "descriptors come from thrift_reflection.RegisterAST on the same IDL text; the embedded descriptor bytes of *-reflection.go (gzip+meta) are not executed (BuildFileDescriptor is stubbed)", "map keys are concrete so that mask lookups by key do not fork"},
		Variants: []*Prop{
			c13Variant("default", "with_reflection,with_field_mask", false),
			c13Variant("halfway", "with_reflection,with_field_mask,field_mask_halfway", false),
			c13Variant("zero_required", "with_reflection,with_field_mask,field_mask_zero_required", true),
		},
	})
}
