//zz:target internal/zzverifrt
// Package zzverifrt is the harness runtime. Under the symbolic executor every function
// below is intercepted (the bodies are never interpreted). Compiled natively (replay), the
// bodies read the solver's model from the file named by $ZZVERIF_MODEL.
package zzverifrt

import (
	"encoding/json"
	"fmt"
	"math"
	"os"
)

type model struct {
	Vars map[string]uint64 `json:"vars"`
}

var (
	mdl    *model
	seq    = map[string]int{}
	Covers = map[string]bool{}
)

func load() {
	if mdl != nil {
		return
	}
	mdl = &model{Vars: map[string]uint64{}}
	p := os.Getenv("ZZVERIF_MODEL")
	if p == "" {
		return
	}
	b, err := os.ReadFile(p)
	if err != nil {
		panic("zzverifrt: cannot read model: " + err.Error())
	}
	if err := json.Unmarshal(b, mdl); err != nil {
		panic("zzverifrt: bad model: " + err.Error())
	}
}

// SetModel installs a model directly (in-process replay).
func SetModel(vars map[string]uint64) { mdl = &model{Vars: vars} }

// Reset restarts variable numbering (one harness invocation = one path).
func Reset() { seq = map[string]int{}; Covers = map[string]bool{} }

func next(name string) uint64 {
	load()
	n := seq[name]
	seq[name] = n + 1
	return mdl.Vars[fmt.Sprintf("%s#%d", name, n)]
}

func Bool(name string) bool       { return next(name)&1 != 0 }
func Byte(name string) byte       { return byte(next(name)) }
func Int8(name string) int8       { return int8(next(name)) }
func Int16(name string) int16     { return int16(next(name)) }
func Uint16(name string) uint16   { return uint16(next(name)) }
func Int32(name string) int32     { return int32(next(name)) }
func Uint32(name string) uint32   { return uint32(next(name)) }
func Int64(name string) int64     { return int64(next(name)) }
func Uint64(name string) uint64   { return next(name) }
func Int(name string) int         { return int(next(name)) }
func Float64(name string) float64 { return math.Float64frombits(next(name)) }

func Bytes(name string, n int) []byte {
	b := make([]byte, n)
	for i := range b {
		b[i] = byte(next(name))
	}
	return b
}

func String(name string, n int) string { return string(Bytes(name, n)) }

// Choose returns a value in [0,n).
func Choose(name string, n int) int {
	v := int(uint32(next(name)))
	if v < 0 || v >= n {
		panic(AssumeFailed{"Choose out of range"})
	}
	return v
}

// Concrete forces a value to be concrete in the executor (identity natively).
func Concrete(v int) int { return v }

// AssumeFailed is raised natively when a replayed model does not satisfy an assumption.
type AssumeFailed struct{ Msg string }

// AssertFailed is raised natively when an assertion fails.
type AssertFailed struct{ Msg string }

func (a AssertFailed) Error() string { return "ZZVERIF-ASSERT-FAILED: " + a.Msg }
func (a AssumeFailed) Error() string { return "ZZVERIF-ASSUME-FAILED: " + a.Msg }

func Assume(c bool) {
	if !c {
		panic(AssumeFailed{"assumption does not hold under the replayed model"})
	}
}

func Assert(c bool, msg string) {
	if !c {
		panic(AssertFailed{msg})
	}
}

func Fail(msg string) { panic(AssertFailed{msg}) }

func Cover(label string) { Covers[label] = true }

// Done ends the path successfully.
type doneSignal struct{}

func Done() { panic(doneSignal{}) }

// Known records a known finding: cond may be violated. Natively a violated cond is reported
// as KNOWN-FINDING-HIT and the run ends.
type KnownHit struct{ ID, Msg string }

func Known(id string, cond bool, msg string) {
	if !cond {
		panic(KnownHit{id, msg})
	}
}

func NondetMapOrder(on bool) {}

// NondetMapOrderBudget: at most k map ranges per path iterate in a perturbed order (engine only;
// natively Go randomises every range anyway).
func NondetMapOrderBudget(k int) {}

// Symbolic reports whether the code runs under the symbolic executor.
func Symbolic() bool { return false }

// Opaque reports whether s is a formatting placeholder of the executor.
func Opaque(s string) bool { return false }

func Printf(format string, a ...interface{}) { fmt.Fprintf(os.Stderr, format, a...) }

// Run executes a harness natively and classifies its outcome for the replay driver.
func Run(name string, f func()) (outcome string) {
	Reset()
	defer func() {
		r := recover()
		switch r := r.(type) {
		case nil:
			outcome = "ok"
		case doneSignal:
			outcome = "ok"
		case AssertFailed:
			outcome = "ASSERT-FAILED: " + r.Msg
		case AssumeFailed:
			outcome = "ASSUME-FAILED: " + r.Msg
		case KnownHit:
			outcome = "KNOWN-HIT: " + r.ID + " " + r.Msg
		default:
			outcome = fmt.Sprintf("PANIC: %v", r)
		}
	}()
	f()
	return
}

// Record switches the executor's thread-modular recording mode (no effect natively).
func Record(on bool) {}

// EnvHook lets a native replay decide the outcome of environment calls.
var EnvHook func(name string) bool

// EnvCall is an environment call with a nondeterministic failure outcome.
func EnvCall(name string) bool {
	if EnvHook != nil {
		return EnvHook(name)
	}
	return Bool("fail_" + name)
}

// RecReturn records the main thread's result in recording mode.
func RecReturn(fail bool) {}

// YieldHook is installed by a native replay that instruments the code under test with
// scheduling points; Yield is a no-op otherwise (and under the symbolic executor).
var YieldHook func(thread string)

func Yield(thread string) {
	if YieldHook != nil {
		YieldHook(thread)
	}
}

// Override installs fn as the body of the package-level function name (engine only; a native
// build gets the same effect from a build-time overlay of the file that defines it).
func Override(name string, fn interface{}) {}

// CatchExit runs f and reports whether it called os.Exit, and with which status. Natively the
// process would end; harnesses that use it are confirmed by running the real binary.
func CatchExit(f func()) (code int, exited bool) { f(); return 0, false }
