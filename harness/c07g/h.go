//zz:target generator
package generator

import (
	"strings"

	"github.com/cloudwego/thriftgo/generator/backend"
	"github.com/cloudwego/thriftgo/plugin"

	zzrt "github.com/cloudwego/thriftgo/internal/zzverifrt"
)

// Patch application: insertionPointReplacer keeps its patches in a map that is turned into a
// strings.Replacer argument list in iteration order.

func zzC07Assemble() string {
	s := func(x string) *string { return &x }
	ip := plugin.InsertionPoint
	fm := NewFileManager(backend.DummyLogFunc())
	content := "package x\n// " + ip("imports") + "\n// " + ip("a") + "\n// " + ip("a", "b") + "\n// " + ip("a") + "\nend\n"
	other := "package y\n// " + ip("z") + " " + ip("imports") + "\n"
	err := fm.Feed("be", []*plugin.Generated{
		{Name: s("x.go"), Content: content},
		{InsertionPoint: s("imports"), Content: "I1"},
		{InsertionPoint: s("a.b"), Content: "AB"},
		{Name: s("y.go"), Content: other},
		{InsertionPoint: s("z"), Content: "Z"},
	})
	if err != nil {
		panic(err)
	}
	err = fm.Feed("p", []*plugin.Generated{
		{Name: s("x.go"), InsertionPoint: s("a"), Content: "A1"},
		{Name: s("x.go"), InsertionPoint: s("imports"), Content: "I2"},
		{Name: s("x.go"), InsertionPoint: s("a"), Content: "A2"},
		{Name: s("y.go"), InsertionPoint: s("imports"), Content: "YI"},
		{Name: s("x.go"), InsertionPoint: s("nowhere"), Content: "lost"},
		// patches whose text carries insertion points of its own: one that another patch addresses,
		// one that also occurs in the file (inserted text is not scanned again)
		{Name: s("y.go"), InsertionPoint: s("z"), Content: "[" + ip("hooks") + "]"},
		{Name: s("y.go"), InsertionPoint: s("hooks"), Content: "H"},
		{Name: s("y.go"), InsertionPoint: s("imports"), Content: "<" + ip("z") + ">"},
	})
	if err != nil {
		panic(err)
	}
	var sb strings.Builder
	for _, c := range fm.BuildResponse().Contents {
		sb.WriteString("== " + c.GetName() + "\n" + c.Content)
	}
	return sb.String()
}

func H_C07_patches(budget int) {
	zzrt.NondetMapOrderBudget(0)
	want := zzC07Assemble()
	zzrt.NondetMapOrderBudget(budget)
	got := zzC07Assemble()
	zzrt.NondetMapOrderBudget(0)
	zzrt.Cover("end")
	zzrt.Assert(got == want, "the patched files depend on map iteration order")
	// (what the patched text must look like is C12's subject; only order independence is asserted here)
}

func D_C07_patches() string { return zzC07Assemble() }

// H_C07_paths: the persist step writes every response item concurrently, so two items with the
// same path would make the file's content depend on which write lands last. Colliding
// submissions (same name, pairwise different content; one or several Feed calls; a name of the
// form the renamer produces) must therefore leave pairwise distinct paths.
func H_C07_paths(n int) {
	s := func(x string) *string { return &x }
	names := []string{"common.go", "common.go", "common.go", "common_1.go", "other.go"}
	fm := NewFileManager(backend.DummyLogFunc())
	var batch []*plugin.Generated
	for i := 0; i < n; i++ {
		nm := names[zzrt.Choose("name", len(names))]
		batch = append(batch, &plugin.Generated{Name: s(nm), Content: "// file " + string(rune('a'+i)) + "\n"})
		if zzrt.Bool("flush") {
			if err := fm.Feed("x", batch); err != nil {
				panic(err)
			}
			batch = nil
		}
	}
	if err := fm.Feed("x", batch); err != nil {
		panic(err)
	}
	res := fm.BuildResponse()
	zzrt.Assert(len(res.Contents) == n, "every submitted file with content of its own is written")
	for i, a := range res.Contents {
		for j := i + 1; j < len(res.Contents); j++ {
			zzrt.Assert(a.GetName() != res.Contents[j].GetName(), "two concurrently written items share the path "+a.GetName())
		}
	}
	zzrt.Cover("end")
}
