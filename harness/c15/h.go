//zz:target thrift_reflection
package thrift_reflection

import (
	"sort"
	"strings"

	"github.com/cloudwego/thriftgo/generator/golang/extension/meta"
	"github.com/cloudwego/thriftgo/parser"
	"github.com/cloudwego/thriftgo/semantic"

	zzrt "github.com/cloudwego/thriftgo/internal/zzverifrt"
)

// ---- value provider of the generated builders (zz_structs.go), see harness/c11 -------------------

type zzC struct {
	mode int
	seq  int
}

func (c *zzC) pattern(path string) int {
	if c.mode == 4 {
		if strings.Count(path, ".") <= 1 {
			return 4
		}
		return 2
	}
	return c.mode
}

func (c *zzC) opt(path string) bool {
	c.seq++
	switch c.pattern(path) {
	case 0:
		return false
	case 1:
		return true
	case 2:
		return c.seq%2 == 0
	case 3:
		return c.seq%2 == 1
	}
	return zzrt.Bool(path + "?")
}

func (c *zzC) bool(path string) bool {
	c.seq++
	if strings.Count(path, ".") <= 1 {
		return zzrt.Bool(path)
	}
	return c.seq%2 == 0
}

func (c *zzC) n(path string, d int) int {
	if d <= 0 {
		return 0
	}
	c.seq++
	switch c.pattern(path) {
	case 0:
		return 0
	case 1:
		return 1
	case 2:
		return c.seq % 3
	case 3:
		return (c.seq + 1) % 3
	}
	return zzrt.Choose(path+"#", 2)
}

func (c *zzC) str(path string) string {
	c.seq++
	return zzrt.String(path, c.seq%3)
}

func zzDec(d int) int {
	if d > 0 {
		return d - 1
	}
	return 0
}

func zzItoa(i int) string {
	if i == 0 {
		return "0"
	}
	neg := i < 0
	if neg {
		i = -i
	}
	s := ""
	for ; i > 0; i /= 10 {
		s = string(rune('0'+i%10)) + s
	}
	if neg {
		s = "-" + s
	}
	return s
}

// ---- the programs ---------------------------------------------------------------------------------

var zzProg0 = map[string]string{
	"main.thrift": `include "inc/common.thrift"
include "shared.thrift"
include "ver.v1.thrift"
namespace go c15.main
namespace java jm
cpp_include "x.h"
// struct comment
struct S {
  1: required i32 a = 5 (k1 = "v1", k1 = "v2", k2 = "w")
  2: optional map<string, list<common.CE>> m
  3: shared.Sh sh
  -1: common.CT ct
  5: set<binary> bins
  6: E e = E.B
  7: list<U> us
  8: ver.v1.V vv
  9: map<ver.v1.VE, ver.v1.VT> vm
} (sk = "sv")
union U { 1: i64 x; 2: string y }
exception X { 1: string msg (m = "") }
enum E { A = 1 (ea = "1"), B, C = 10 }
typedef S TS (tk = "tv")
typedef map<i32, TS> TM
const i32 CI = -7
const double CD = 1.5
const string CS = "str"
const bool CB = true
const list<i32> CL = [1, 2]
const map<string, i32> CM = {"a": 1, "b": 2}
const E CE = E.A
const S CT = {"a": 3}
service Base extends shared.SharedSvc { void ping() }
service Svc extends Base {
  S call(1: S req, 2: common.CS cs) throws (1: X x, 2: common.CX cx) (ma = "mv")
  oneway void fire(1: i64 n)
  list<E> es()
} (sva = "x")
service Svc3 extends ver.v1.VS { }
`,
	"ver.v1.thrift": `namespace go c15.ver
struct V { 1: i32 n }
enum VE { ONE = 1 }
typedef V VT
service VS { void vping() }
`,
	"inc/common.thrift": `include "../shared.thrift"
namespace go c15.common
enum CE { P = 0, Q = 5 }
typedef shared.Sh CT
struct CS { 1: i32 v }
exception CX { 1: i32 code }
`,
	"shared.thrift": `namespace go c15.shared
struct Sh { 1: string s }
service SharedSvc { i32 base() }
`,
}

// the same IDL base name in two directories
var zzProg1 = map[string]string{
	"main.thrift": `include "a/common.thrift"
include "b/common.thrift"
namespace go c15.m1
struct S { 1: common.A x }
`,
	"a/common.thrift": `namespace go c15.pa
struct A { 1: i32 v }
`,
	"b/common.thrift": `namespace go c15.pb
struct B { 1: i32 v }
`,
}

func zzCompile(files map[string]string) *parser.Thrift {
	ast, err := parser.ParseBatchString("main.thrift", files, nil)
	if err != nil {
		panic("corpus does not parse: " + err.Error())
	}
	if _, err := semantic.NewChecker(semantic.Options{FixWarnings: true}).CheckAll(ast); err != nil {
		panic("corpus rejected: " + err.Error())
	}
	if err := semantic.ResolveSymbols(ast); err != nil {
		panic("corpus does not resolve: " + err.Error())
	}
	return ast
}

// ---- rendering descriptors (sorted, independent of map order) --------------------------------------

func zzType(t *TypeDescriptor) string {
	if t == nil {
		return "void"
	}
	s := t.Name
	if t.KeyType != nil || t.ValueType != nil {
		s += "<"
		if t.KeyType != nil {
			s += zzType(t.KeyType) + ","
		}
		s += zzType(t.ValueType) + ">"
	}
	return s
}

func zzAnn(m map[string][]string) string {
	var ks []string
	for k := range m {
		ks = append(ks, k)
	}
	sort.Strings(ks)
	s := ""
	for _, k := range ks {
		s += k + "=[" + strings.Join(m[k], "|") + "]"
	}
	return s
}

func zzVal(v *ConstValueDescriptor) string {
	if v == nil {
		return "-"
	}
	switch v.Type {
	case ConstValueType_INT:
		return "i:" + zzItoa(int(v.ValueInt))
	case ConstValueType_DOUBLE:
		if v.ValueDouble == 1.5 {
			return "d:1.5"
		}
		return "d:?"
	case ConstValueType_STRING:
		return "s:" + v.ValueString
	case ConstValueType_BOOL:
		if v.ValueBool {
			return "b:true"
		}
		return "b:false"
	case ConstValueType_IDENTIFIER:
		return "id:" + v.ValueIdentifier
	case ConstValueType_LIST:
		s := "["
		for _, x := range v.ValueList {
			s += zzVal(x) + ";"
		}
		return s + "]"
	case ConstValueType_MAP:
		var es []string
		for k, x := range v.ValueMap {
			es = append(es, zzVal(k)+"=>"+zzVal(x))
		}
		sort.Strings(es)
		return "{" + strings.Join(es, ";") + "}"
	}
	return "?"
}

func zzField(f *FieldDescriptor) string {
	return zzItoa(int(f.ID)) + ":" + f.Requiredness + ":" + zzType(f.Type) + ":" + f.Name + ":" + zzVal(f.DefaultValue) + ":" + zzAnn(f.Annotations) + ":" + f.Filepath
}

func zzStruct(s *StructDescriptor) string {
	out := s.Name + "@" + s.Filepath + "(" + zzAnn(s.Annotations) + ")"
	for _, f := range s.Fields {
		out += "\n  " + zzField(f)
	}
	return out
}

func zzDumpFD(fd *FileDescriptor) string {
	var sb strings.Builder
	sb.WriteString("file " + fd.Filepath + "\n")
	var ks []string
	for k, v := range fd.Includes {
		ks = append(ks, "include "+k+"="+v)
	}
	for k, v := range fd.Namespaces {
		ks = append(ks, "namespace "+k+"="+v)
	}
	sort.Strings(ks)
	sb.WriteString(strings.Join(ks, "\n") + "\n")
	for _, s := range fd.Structs {
		sb.WriteString("struct " + zzStruct(s) + "\n")
	}
	for _, s := range fd.Unions {
		sb.WriteString("union " + zzStruct(s) + "\n")
	}
	for _, s := range fd.Exceptions {
		sb.WriteString("exception " + zzStruct(s) + "\n")
	}
	for _, e := range fd.Enums {
		sb.WriteString("enum " + e.Name + "@" + e.Filepath + "(" + zzAnn(e.Annotations) + ")")
		for _, v := range e.Values {
			sb.WriteString(" " + v.Name + "=" + zzItoa(int(v.Value)) + "(" + zzAnn(v.Annotations) + ")")
		}
		sb.WriteString("\n")
	}
	for _, t := range fd.Typedefs {
		sb.WriteString("typedef " + zzType(t.Type) + " " + t.Alias + "@" + t.Filepath + "(" + zzAnn(t.Annotations) + ")\n")
	}
	for _, c := range fd.Consts {
		sb.WriteString("const " + zzType(c.Type) + " " + c.Name + "@" + c.Filepath + " = " + zzVal(c.Value) + "\n")
	}
	for _, s := range fd.Services {
		sb.WriteString("service " + s.Name + "@" + s.Filepath + " extends '" + s.Base + "' (" + zzAnn(s.Annotations) + ")\n")
		for _, m := range s.Methods {
			sb.WriteString("  " + zzType(m.Response) + " " + m.Name + " oneway=")
			if m.IsOneway {
				sb.WriteString("1")
			} else {
				sb.WriteString("0")
			}
			sb.WriteString(" (" + zzAnn(m.Annotations) + ")\n")
			for _, a := range m.Args {
				sb.WriteString("    arg " + zzField(a) + "\n")
			}
			for _, a := range m.ThrowExceptions {
				sb.WriteString("    throws " + zzField(a) + "\n")
			}
		}
	}
	return sb.String()
}

// what main.thrift of program 0 states, written by hand from the IDL text (members of a throws
// list are optional: the compiler's checker normalises them before anything is generated)
const zzWant0 = `file main.thrift
include common=inc/common.thrift
include shared=shared.thrift
include ver.v1=ver.v1.thrift
namespace go=c15.main
namespace java=jm
struct S@main.thrift(sk=[sv])
  1:Required:i32:a:i:5:k1=[v1|v2]k2=[w]:main.thrift
  2:Optional:map<string,list<common.CE>>:m:-::main.thrift
  3:Default:shared.Sh:sh:-::main.thrift
  -1:Default:common.CT:ct:-::main.thrift
  5:Default:set<binary>:bins:-::main.thrift
  6:Default:E:e:id:E.B::main.thrift
  7:Default:list<U>:us:-::main.thrift
  8:Default:ver.v1.V:vv:-::main.thrift
  9:Default:map<ver.v1.VE,ver.v1.VT>:vm:-::main.thrift
union U@main.thrift()
  1:Optional:i64:x:-::main.thrift
  2:Optional:string:y:-::main.thrift
exception X@main.thrift()
  1:Default:string:msg:-:m=[]:main.thrift
enum E@main.thrift() A=1(ea=[1]) B=2() C=10()
typedef S TS@main.thrift(tk=[tv])
typedef map<i32,TS> TM@main.thrift()
const i32 CI@main.thrift = i:-7
const double CD@main.thrift = d:1.5
const string CS@main.thrift = s:str
const bool CB@main.thrift = b:true
const list<i32> CL@main.thrift = [i:1;i:2;]
const map<string,i32> CM@main.thrift = {s:a=>i:1;s:b=>i:2}
const E CE@main.thrift = id:E.A
const S CT@main.thrift = {s:a=>i:3}
service Base@main.thrift extends 'shared.SharedSvc' ()
  void ping oneway=0 ()
service Svc@main.thrift extends 'Base' (sva=[x])
  S call oneway=0 (ma=[mv])
    arg 1:Default:S:req:-::main.thrift
    arg 2:Default:common.CS:cs:-::main.thrift
    throws 1:Optional:X:x:-::main.thrift
    throws 2:Optional:common.CX:cx:-::main.thrift
  void fire oneway=1 ()
    arg 1:Default:i64:n:-::main.thrift
  list<E> es oneway=0 ()
service Svc3@main.thrift extends 'ver.v1.VS' ()
`

// H_C15_fidelity: the descriptor of every file says what the IDL says.
func H_C15_fidelity() {
	ast := zzCompile(zzProg0)
	fd := GetFileDescriptor(ast)
	got := zzDumpFD(fd)
	zzrt.Assert(got == zzWant0, "descriptor of main.thrift: "+zzFirstDiff(got, zzWant0))
	zzrt.Assert(fd.Structs[0].Comments == "// struct comment", "struct comment")
	cm := GetFileDescriptor(ast.Includes[0].Reference)
	zzrt.Assert(zzDumpFD(cm) == `file inc/common.thrift
include shared=shared.thrift
namespace go=c15.common
struct CS@inc/common.thrift()
  1:Default:i32:v:-::inc/common.thrift
exception CX@inc/common.thrift()
  1:Default:i32:code:-::inc/common.thrift
enum CE@inc/common.thrift() P=0() Q=5()
typedef shared.Sh CT@inc/common.thrift()
`, "descriptor of inc/common.thrift: "+zzDumpFD(cm))
	zzrt.Cover("end")
}

func zzFirstDiff(a, b string) string {
	la, lb := strings.Split(a, "\n"), strings.Split(b, "\n")
	for i := 0; i < len(la) && i < len(lb); i++ {
		if la[i] != lb[i] {
			return "got '" + la[i] + "' want '" + lb[i] + "'"
		}
	}
	return "length"
}

// H_C15_holes: one struct, one enum, one constant whose numbers, annotation value,
// requiredness and type spelling are free.
func H_C15_holes(kind int) {
	dig := func(name string, lo byte) (string, int) {
		b := zzrt.Byte(name)
		zzrt.Assume(b >= lo && b <= '9')
		return string(rune(b)), int(b - '0')
	}
	idText, id := "1", 1
	enText, en := "3", 3
	av := "v"
	cText, cv := "4", 4
	req, reqWant := "", "Default"
	typ, typWant := "i32", "i32"
	neg := ""
	switch kind {
	case 0: // field id: 1..2 free digits, optionally negative
		a, x := dig("id1", '1')
		b, y := dig("id2", '0')
		idText, id = a+b, x*10+y
		if zzrt.Bool("neg") {
			idText, id = "-"+idText, -id
		}
	case 1: // enum number
		a, x := dig("en1", '1')
		b, y := dig("en2", '0')
		c, z := dig("en3", '0')
		enText, en = a+b+c, x*100+y*10+z
	case 2: // annotation value: 2 free bytes
		av = zzrt.String("av", 2)
		for i := 0; i < len(av); i++ {
			zzrt.Assume(av[i] != '"' && av[i] != '\\' && av[i] >= 0x20 && av[i] < 0x7f)
		}
	case 3: // constant / default value
		a, x := dig("c1", '1')
		b, y := dig("c2", '0')
		cText, cv = a+b, x*10+y
		if zzrt.Bool("neg") {
			neg, cv = "-", -cv
		}
	case 4:
		switch zzrt.Choose("req", 3) {
		case 1:
			req, reqWant = "required", "Required"
		case 2:
			req, reqWant = "optional", "Optional"
		}
		spell := []string{"i32", "list<string>", "set<HE>", "map<string, list<i64>>", "map<HE,H>", "binary", "H", "HT"}
		want := []string{"i32", "list<string>", "set<HE>", "map<string,list<i64>>", "map<HE,H>", "binary", "H", "HT"}
		k := zzrt.Choose("type", len(spell))
		typ, typWant = spell[k], want[k]
	}
	src := "namespace go h\ntypedef i64 HT\nstruct H {\n  " + idText + ": " + req + " " + typ + " f (ak = \"" + av + "\", ak = \"second\")\n  100: i64 g = " + neg + cText + "\n}\n" +
		"enum HE { X = " + enText + ", Y }\nconst i64 HC = " + neg + cText + "\n"
	ast := zzCompile(map[string]string{"main.thrift": src})
	fd := GetFileDescriptor(ast)
	f := fd.Structs[0].Fields[0]
	zzrt.Assert(int(f.ID) == id, "field id")
	zzrt.Assert(f.Requiredness == reqWant, "requiredness")
	zzrt.Assert(zzType(f.Type) == typWant, "type expression")
	zzrt.Assert(len(f.Annotations["ak"]) == 2 && f.Annotations["ak"][0] == av && f.Annotations["ak"][1] == "second", "annotation values in order")
	zzrt.Assert(fd.Structs[0].Fields[1].DefaultValue.Type == ConstValueType_INT && int(fd.Structs[0].Fields[1].DefaultValue.ValueInt) == cv, "default value")
	zzrt.Assert(int(fd.Enums[0].Values[0].Value) == en && int(fd.Enums[0].Values[1].Value) == en+1, "enum numbers")
	zzrt.Assert(int(fd.Consts[0].Value.ValueInt) == cv, "constant value")
	// and it survives the encoding
	bs, err := fd.Marshal()
	zzrt.Assert(err == nil, "Marshal")
	fd2, err := Unmarshal(bs)
	zzrt.Assert(err == nil, "Unmarshal")
	zzEq_FileDescriptor(fd, fd2, "fd")
	zzrt.Cover("end")
}

// H_C15_identity: Unmarshal(Marshal(fd)) == fd for an arbitrary descriptor.
func H_C15_identity(mode int) {
	c := &zzC{mode: mode}
	fd := zzSym_FileDescriptor(c, 3, "fd")
	bs, err := fd.Marshal()
	zzrt.Assert(err == nil, "Marshal")
	fd2, err := Unmarshal(bs)
	zzrt.Assert(err == nil, "Unmarshal")
	zzEq_FileDescriptor(fd, fd2, "fd")
	zzrt.Cover("end")
}

func H_C15_identity_node(ti int, mode int) {
	c := &zzC{mode: mode}
	zzNodeCase(c, ti)
	zzrt.Cover("end")
}

type zzMetaNode interface{}

func zzRoundTrip(a, b zzMetaNode, what string) {
	bs, err := meta.Marshal(a)
	zzrt.Assert(err == nil, what+": meta.Marshal")
	zzrt.Assert(meta.Unmarshal(bs, b) == nil, what+": meta.Unmarshal")
}

// H_C15_parsed: the descriptors of real programs survive the encoding (real gzip).
func H_C15_parsed(prog int) {
	ast := zzCompile([]map[string]string{zzProg0, zzProg1}[prog])
	var walk func(a *parser.Thrift)
	walk = func(a *parser.Thrift) {
		fd := GetFileDescriptor(a)
		bs, err := fd.Marshal()
		zzrt.Assert(err == nil, "Marshal")
		fd2, err := Unmarshal(bs)
		zzrt.Assert(err == nil, "Unmarshal")
		zzEq_FileDescriptor(fd, fd2, a.Filename)
		for _, inc := range a.Includes {
			walk(inc.Reference)
		}
	}
	walk(ast)
	zzrt.Cover("end")
}

// zzIdent: a free identifier (a name with a '.' is an alias-qualified name, not a name)
func zzIdent(name string, n int) string {
	s := zzrt.String(name, n)
	for i := 0; i < len(s); i++ {
		c := s[i]
		zzrt.Assume(c == '_' || (c >= '0' && c <= '9') || (c >= 'a' && c <= 'z') || (c >= 'A' && c <= 'Z'))
	}
	return s
}

// H_C15_lookup: lookups by name and id find the right entry across included files.
func H_C15_lookup(what int) {
	ast := zzCompile(zzProg0)
	gd, fd := RegisterAST(ast)
	defer ReleaseGlobalDescriptors(gd)
	switch what {
	case 0: // files
		for _, p := range []string{"main.thrift", "inc/common.thrift", "shared.thrift", "ver.v1.thrift"} {
			f := gd.LookupFD(p)
			zzrt.Assert(f != nil && f.Filepath == p, "LookupFD "+p)
		}
		p := zzrt.String("path", 3)
		zzrt.Assert(gd.LookupFD(p) == nil, "no descriptor for a file that is not part of the program")
		zzrt.Assert(fd == gd.LookupFD("main.thrift"), "RegisterAST returns the main file's descriptor")
	case 1: // global names of the main file, by a free name of 1..2 bytes
		n := zzIdent("name", 1+zzrt.Choose("len", 2))
		in := func(set ...string) bool {
			for _, s := range set {
				if s == n {
					return true
				}
			}
			return false
		}
		s := gd.LookupStruct(n, "main.thrift")
		zzrt.Assert((s != nil) == in("S"), "LookupStruct")
		zzrt.Assert(s == nil || (s.Name == n && s.Filepath == "main.thrift"), "LookupStruct result")
		u := gd.LookupUnion(n, "main.thrift")
		zzrt.Assert((u != nil) == in("U") && (u == nil || u.Name == n), "LookupUnion")
		x := gd.LookupException(n, "main.thrift")
		zzrt.Assert((x != nil) == in("X") && (x == nil || x.Name == n), "LookupException")
		e := gd.LookupEnum(n, "main.thrift")
		zzrt.Assert((e != nil) == in("E") && (e == nil || e.Name == n), "LookupEnum")
		t := gd.LookupTypedef(n, "main.thrift")
		zzrt.Assert((t != nil) == in("TS", "TM") && (t == nil || t.Alias == n), "LookupTypedef")
		c := gd.LookupConst(n, "main.thrift")
		zzrt.Assert((c != nil) == in("CI", "CD", "CS", "CB", "CL", "CM", "CE", "CT") && (c == nil || c.Name == n), "LookupConst")
		// the included files have their own tables
		zzrt.Assert((gd.LookupStruct(n, "inc/common.thrift") != nil) == in("CS"), "LookupStruct in an included file")
		zzrt.Assert((gd.LookupStruct(n, "shared.thrift") != nil) == in("Sh"), "LookupStruct in a file included twice")
		zzrt.Assert((gd.LookupEnum(n, "inc/common.thrift") != nil) == in("CE"), "LookupEnum in an included file")
		zzrt.Assert((gd.LookupTypedef(n, "inc/common.thrift") != nil) == in("CT"), "LookupTypedef in an included file")
		zzrt.Assert((fd.GetStructDescriptor(n) != nil) == in("S"), "GetStructDescriptor")
		zzrt.Assert((fd.GetStructDescriptor("common."+n) != nil) == in("CS"), "GetStructDescriptor through an include alias")
		zzrt.Assert((fd.GetStructDescriptor("shared."+n) != nil) == in("Sh"), "GetStructDescriptor through the other alias")
	case 2: // type descriptors resolve to the entry of the right file
		s := fd.Structs[0]
		sh := s.GetFieldByName("sh").Type
		d, err := sh.GetStructDescriptor()
		zzrt.Assert(err == nil && d != nil && d.Name == "Sh" && d.Filepath == "shared.thrift", "shared.Sh resolves into shared.thrift")
		zzrt.Assert(sh.IsStruct() && !sh.IsEnum() && !sh.IsTypedef() && !sh.IsUnion() && !sh.IsException() && !sh.IsBasic() && !sh.IsContainer(), "kind of shared.Sh")
		ct := s.GetFieldByName("ct").Type
		td, err := ct.GetTypedefDescriptor()
		zzrt.Assert(err == nil && td != nil && td.Alias == "CT" && td.Filepath == "inc/common.thrift", "common.CT resolves into inc/common.thrift")
		d, err = td.Type.GetStructDescriptor()
		zzrt.Assert(err == nil && d != nil && d.Name == "Sh" && d.Filepath == "shared.thrift", "the typedef's target resolves relative to the typedef's own file")
		m := s.GetFieldByName("m").Type
		zzrt.Assert(m.IsMap() && m.IsContainer() && m.ValueType.IsList() && !m.IsList(), "container kinds")
		ed, err := m.ValueType.ValueType.GetEnumDescriptor()
		zzrt.Assert(err == nil && ed != nil && ed.Name == "CE" && ed.Filepath == "inc/common.thrift", "common.CE resolves into inc/common.thrift")
		e := s.GetFieldByName("e").Type
		zzrt.Assert(e.IsEnum() && !e.IsStruct(), "kind of E")
		us := s.GetFieldByName("us").Type.ValueType
		zzrt.Assert(us.IsUnion() && !us.IsStruct(), "kind of U")
		call := fd.GetMethodDescriptor("Svc", "call")
		zzrt.Assert(call != nil && call.ThrowExceptions[1].Type.IsException(), "kind of common.CX")
		xd, err := call.ThrowExceptions[1].Type.GetExceptionDescriptor()
		zzrt.Assert(err == nil && xd.Name == "CX" && xd.Filepath == "inc/common.thrift", "common.CX resolves into inc/common.thrift")
		ts := fd.GetTypedefDescriptor("TM").Type.ValueType
		zzrt.Assert(ts.IsTypedef() && !ts.IsStruct(), "kind of TS")
		// an included file whose base name contains a dot: the alias is everything before the last dot
		vv := s.GetFieldByName("vv").Type
		d, err = vv.GetStructDescriptor()
		zzrt.Assert(err == nil && d != nil && d.Name == "V" && d.Filepath == "ver.v1.thrift" && vv.IsStruct(), "ver.v1.V resolves into ver.v1.thrift")
		vm := s.GetFieldByName("vm").Type
		ed, err = vm.KeyType.GetEnumDescriptor()
		zzrt.Assert(err == nil && ed != nil && ed.Name == "VE" && vm.KeyType.IsEnum(), "ver.v1.VE resolves into ver.v1.thrift")
		td, err = vm.ValueType.GetTypedefDescriptor()
		zzrt.Assert(err == nil && td != nil && td.Alias == "VT" && vm.ValueType.IsTypedef(), "ver.v1.VT resolves into ver.v1.thrift")
		zzrt.Assert(fd.GetStructDescriptor("ver.v1.V") == d && gd.LookupStruct("V", "ver.v1.thrift") == d, "lookup by the dotted alias")
		zzrt.Assert(fd.GetServiceDescriptor("ver.v1.VS") != nil && fd.GetEnumDescriptor("ver.v1.VE") == ed && fd.GetTypedefDescriptor("ver.v1.VT") == td, "other kinds by the dotted alias")
	case 3: // services
		svc := fd.GetServiceDescriptor("Svc")
		zzrt.Assert(svc != nil && svc.GetParent() != nil && svc.GetParent().Name == "Base", "parent in the same file")
		base := svc.GetParent().GetParent()
		zzrt.Assert(base != nil && base.Name == "SharedSvc" && base.Filepath == "shared.thrift", "parent in an included file")
		zzrt.Assert(base.GetParent() == nil, "no parent")
		s3 := fd.GetServiceDescriptor("Svc3")
		zzrt.Assert(s3.GetParent() != nil && s3.GetParent().Name == "VS" && s3.GetParent().Filepath == "ver.v1.thrift", "parent in a file whose base name contains a dot")
		zzrt.Assert(s3.GetMethodByNameFromAll("vping") != nil, "inherited method through the dotted alias")
		all := svc.GetAllMethods()
		names := ""
		for _, m := range all {
			names += m.Name + " "
		}
		zzrt.Assert(names == "call fire es ping base ", "all methods, own first: "+names)
		n := zzIdent("m", 2+zzrt.Choose("len", 3))
		found := svc.GetMethodByNameFromAll(n)
		zzrt.Assert((found != nil) == (n == "call" || n == "fire" || n == "es" || n == "ping" || n == "base"), "GetMethodByNameFromAll")
		zzrt.Assert((svc.GetMethodByName(n) != nil) == (n == "call" || n == "fire" || n == "es"), "GetMethodByName")
		zzrt.Assert((fd.GetMethodDescriptor("Svc", n) != nil) == (n == "call" || n == "fire" || n == "es"), "GetMethodDescriptor")
		zzrt.Assert((gd.LookupMethod(n, "SharedSvc", "shared.thrift") != nil) == (n == "base"), "LookupMethod")
		zzrt.Assert(gd.LookupService("Svc", "main.thrift") == svc && gd.LookupService("Svc", "shared.thrift") == nil, "LookupService")
	case 4: // fields by id and name
		s := fd.Structs[0]
		id := zzrt.Int32("id")
		f := s.GetFieldById(id)
		want := id == 1 || id == 2 || id == 3 || id == -1 || (id >= 5 && id <= 9)
		zzrt.Assert((f != nil) == want, "GetFieldById finds exactly the declared ids")
		zzrt.Assert(f == nil || f.ID == id, "GetFieldById returns the field with that id")
		n := zzIdent("fname", 1+zzrt.Choose("len", 3))
		g := s.GetFieldByName(n)
		wantN := n == "a" || n == "m" || n == "sh" || n == "ct" || n == "bins" || n == "e" || n == "us" || n == "vv" || n == "vm"
		zzrt.Assert((g != nil) == wantN && (g == nil || g.Name == n), "GetFieldByName")
		zzrt.Assert(s.GetFieldById(1).IsRequired() && s.GetFieldById(2).IsOptional() && s.GetFieldById(3).IsDefault(), "requiredness predicates")
	}
	zzrt.Cover("end")
}

// H_C15_samebase: two included files with the same base name in different directories.
func H_C15_samebase() {
	ast := zzCompile(zzProg1)
	gd, fd := RegisterAST(ast)
	defer ReleaseGlobalDescriptors(gd)
	zzrt.Assert(gd.LookupFD("a/common.thrift") != nil && gd.LookupFD("b/common.thrift") != nil, "both files are registered")
	zzrt.Assert(gd.LookupStruct("A", "a/common.thrift") != nil && gd.LookupStruct("B", "b/common.thrift") != nil, "both files keep their own tables")
	x := fd.Structs[0].Fields[0].Type
	d, err := x.GetStructDescriptor()
	zzrt.Cover("end")
	zzrt.Known("KF-C15-same-base-name-include", err == nil && d != nil && d.Name == "A" && d.Filepath == "a/common.thrift",
		"FileDescriptor.Includes is keyed by the base name of the included file, so of two includes a/common.thrift and b/common.thrift only the last survives and common.A (declared in the first) no longer resolves from its descriptor")
}

// ---- concrete differential ------------------------------------------------------------------------

func D_C15_dump() string {
	ast := zzCompile(zzProg0)
	s := zzDumpFD(GetFileDescriptor(ast)) + zzDumpFD(GetFileDescriptor(ast.Includes[1].Reference))
	fd := GetFileDescriptor(ast)
	bs, err := fd.Marshal()
	if err != nil {
		return "ERR " + err.Error()
	}
	fd2, err := Unmarshal(bs)
	if err != nil {
		return "ERR " + err.Error()
	}
	return s + zzDumpFD(fd2) + fd.Structs[0].Comments + "|" + fd2.Services[1].Methods[2].Comments
}
