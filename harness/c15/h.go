//zz:target thrift_reflection
package thrift_reflection

import (
	"github.com/cloudwego/thriftgo/generator/golang/extension/meta"
	"github.com/cloudwego/thriftgo/parser"
	"github.com/cloudwego/thriftgo/semantic"

	zzrt "github.com/cloudwego/thriftgo/internal/zzverifrt"
)

func zzCompile(files map[string]string) *parser.Thrift {
	ast, err := parser.ParseBatchString("main.thrift", files, nil)
	if err != nil {
		panic("corpus does not parse: " + err.Error())
	}
	if _, err := semantic.NewChecker(semantic.Options{FixWarnings: true}).CheckAll(ast); err != nil {
		panic("corpus rejected: " + err.Error())
	}
	if err := semantic.ResolveSymbols(ast); err != nil {
		panic("corpus does not resolve: " + err.Error())
	}
	return ast
}

func H_C15_try() {
	ast := zzCompile(map[string]string{"main.thrift": `namespace go a.b
struct S { 1: required i32 a = 5 (k = "v"), 2: optional map<string, list<i64>> m }
enum E { A = 1, B }
const map<string, i32> CM = {"a": 1}
service Svc { S call(1: S req) }
`})
	fd := GetFileDescriptor(ast)
	bs, err := meta.Marshal(fd)
	zzrt.Assert(err == nil, "marshal")
	fd2 := NewFileDescriptor()
	err = meta.Unmarshal(bs, fd2)
	zzrt.Assert(err == nil, "unmarshal")
	zzrt.Assert(fd2.Filepath == "main.thrift" && len(fd2.Structs) == 1 && fd2.Structs[0].Fields[0].Annotations["k"][0] == "v", "content")
	zzrt.Cover("end")
}
