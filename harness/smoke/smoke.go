//zz:target parser
package parser

import (
	zzrt "github.com/cloudwego/thriftgo/internal/zzverifrt"
)

func H_smoke_concrete() {
	ast, err := ParseString("a.thrift", "struct A { 1: required i32 x = 5 (k='v') }\n")
	zzrt.Assert(err == nil, "parse ok")
	zzrt.Assert(len(ast.Structs) == 1, "one struct")
	zzrt.Assert(ast.Structs[0].Fields[0].ID == 1, "id 1")
	zzrt.Cover("end")
}

func H_smoke_sym(n int) {
	s := zzrt.String("s", n)
	for i := 0; i < len(s); i++ {
		zzrt.Assume(s[i] < 0x80)
	}
	_, _ = ParseString("a.thrift", "struct A {"+s+"}")
	zzrt.Cover("end")
}
