namespace go c08.meta
// the Go package of the base service is named like a library the generator reserves (meta), so its import is aliased in the derived package
service Base { i32 ping(1: i32 n) }
