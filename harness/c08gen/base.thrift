namespace go c08.base
service Base { i32 ping(1: i32 n) }
