namespace go c08.svc
include "base.thrift"
exception Bad { 1: string why, 2: optional i32 code }
exception Worse { 1: i64 num }
struct Req { 1: required i32 id, 2: optional string tag }
struct Resp { 1: i64 val, 2: list<string> items }
service Calc extends base.Base {
  Resp compute(1: Req req, 3: i16 mode) throws (1: Bad bad, 4: Worse worse)
  void touch(1: string key) throws (1: Bad bad)
  oneway void fire(1: i32 x)
  i32 plain()
  string type(1: string func)
}
