package svc

import (
	"context"
	"errors"

	"github.com/apache/thrift/lib/go/thrift"

	zzrt "zzgen/internal/zzverifrt"
)

// zzLoop is a loopback transport: what the client writes is handed to the processor when the
// client flushes; the processor's reply becomes readable. Requests and replies are recorded.
type zzLoop struct {
	proc     thrift.TProcessor
	out      []byte // bytes written by the client since the last flush
	in       []byte // reply bytes not yet read
	requests [][]byte
	replies  [][]byte
	procErr  error
	unread   int
}

func (t *zzLoop) Open() error                        { return nil }
func (t *zzLoop) Close() error                       { return nil }
func (t *zzLoop) IsOpen() bool                       { return true }
func (t *zzLoop) RemainingBytes() uint64             { return uint64(len(t.in)) }
func (t *zzLoop) Write(b []byte) (int, error)        { t.out = append(t.out, b...); return len(b), nil }
func (t *zzLoop) Read(b []byte) (int, error) {
	if len(t.in) == 0 {
		return 0, errors.New("zzLoop: no reply bytes")
	}
	n := copy(b, t.in)
	t.in = t.in[n:]
	return n, nil
}

func (t *zzLoop) Flush(ctx context.Context) error {
	req := t.out
	t.out = nil
	t.requests = append(t.requests, req)
	inBuf, outBuf := thrift.NewTMemoryBuffer(), thrift.NewTMemoryBuffer()
	inBuf.Write(req)
	_, err := t.proc.Process(ctx, thrift.NewTBinaryProtocol(inBuf, true, true), thrift.NewTBinaryProtocol(outBuf, true, true))
	t.procErr = err
	t.unread += inBuf.Len() // request bytes the processor did not consume
	reply := append([]byte{}, outBuf.Bytes()...)
	t.replies = append(t.replies, reply)
	t.in = append(t.in, reply...)
	return nil
}

// handler with recorded arguments and configurable behaviour
type zzHandler struct {
	mode    int // 0 result, 1 Bad, 2 Worse, 3 foreign error
	resp    *Resp
	bad     *Bad
	worse   *Worse
	gotReq  *Req
	gotMode int16
	gotKey  string
	gotX    int32
	gotN    int32
	gotFunc string
	calls   []string
	plain   int32
	str     string
}

var zzForeign = errors.New("foreign failure")

func (h *zzHandler) Ping(ctx context.Context, n int32) (int32, error) {
	h.calls = append(h.calls, "ping")
	h.gotN = n
	return n + 1, nil
}

func (h *zzHandler) Compute(ctx context.Context, req *Req, mode int16) (*Resp, error) {
	h.calls = append(h.calls, "compute")
	h.gotReq, h.gotMode = req, mode
	switch h.mode {
	case 1:
		return nil, h.bad
	case 2:
		return nil, h.worse
	case 3:
		return nil, zzForeign
	}
	return h.resp, nil
}

func (h *zzHandler) Touch(ctx context.Context, key string) error {
	h.calls = append(h.calls, "touch")
	h.gotKey = key
	if h.mode == 1 {
		return h.bad
	}
	if h.mode == 3 {
		return zzForeign
	}
	return nil
}

func (h *zzHandler) Fire(ctx context.Context, x int32) error {
	h.calls = append(h.calls, "fire")
	h.gotX = x
	return nil
}

func (h *zzHandler) Plain(ctx context.Context) (int32, error) {
	h.calls = append(h.calls, "plain")
	return h.plain, nil
}

func (h *zzHandler) Type(ctx context.Context, _func string) (string, error) {
	h.calls = append(h.calls, "type")
	h.gotFunc = _func
	return h.str, nil
}

func zzSetup(h *zzHandler) (*CalcClient, *zzLoop) {
	loop := &zzLoop{proc: NewCalcProcessor(h)}
	return NewCalcClientFactory(loop, thrift.NewTBinaryProtocolFactory(true, true)), loop
}

// message header of the strict binary protocol
type zzMsg struct {
	ok    bool
	typ   byte
	name  string
	seq   int32
	body  []byte
}

func zzParseMsg(b []byte) zzMsg {
	if len(b) < 12 || b[0] != 0x80 || b[1] != 0x01 || b[2] != 0 {
		return zzMsg{}
	}
	n := int(uint32(b[4])<<24 | uint32(b[5])<<16 | uint32(b[6])<<8 | uint32(b[7]))
	if n < 0 || len(b) < 8+n+4 {
		return zzMsg{}
	}
	s := int32(uint32(b[8+n])<<24 | uint32(b[9+n])<<16 | uint32(b[10+n])<<8 | uint32(b[11+n]))
	return zzMsg{ok: true, typ: b[3], name: string(b[8 : 8+n]), seq: s, body: b[12+n:]}
}

func zzBE32(b []byte) int32 { return int32(uint32(b[0])<<24 | uint32(b[1])<<16 | uint32(b[2])<<8 | uint32(b[3])) }

// H_C08_compute: value call with every handler behaviour.
func H_C08_compute() {
	h := &zzHandler{mode: zzrt.Choose("mode", 4)}
	h.resp = &Resp{Val: zzrt.Int64("val"), Items: []string{zzrt.String("it", 1)}}
	h.bad = &Bad{Why: zzrt.String("why", 1)}
	if zzrt.Bool("set") {
		c := zzrt.Int32("code")
		h.bad.Code = &c
	}
	h.worse = &Worse{Num: zzrt.Int64("num")}
	cl, loop := zzSetup(h)
	req := &Req{ID: zzrt.Int32("id")}
	if zzrt.Bool("set") {
		t := zzrt.String("tag", 2)
		req.Tag = &t
	}
	mode := zzrt.Int16("m")
	r, err := cl.Compute(context.Background(), req, mode)
	A := zzrt.Assert
	A(len(h.calls) == 1 && h.calls[0] == "compute", "the handler method is invoked exactly once")
	A(h.gotReq != nil && h.gotReq.ID == req.ID && h.gotMode == mode, "handler receives the arguments")
	A((h.gotReq.Tag == nil) == (req.Tag == nil) && (req.Tag == nil || *h.gotReq.Tag == *req.Tag), "handler receives the optional argument member")
	switch h.mode {
	case 0:
		A(err == nil && r != nil && r.Val == h.resp.Val && len(r.Items) == 1 && r.Items[0] == h.resp.Items[0], "caller gets the handler's result")
		zzrt.Cover("result")
	case 1:
		b, ok := err.(*Bad)
		A(ok && b.Why == h.bad.Why && (b.Code == nil) == (h.bad.Code == nil) && (b.Code == nil || *b.Code == *h.bad.Code), "declared exception arrives as that type with equal fields")
		zzrt.Cover("bad")
	case 2:
		w, ok := err.(*Worse)
		A(ok && w.Num == h.worse.Num, "second declared exception arrives as that type")
		zzrt.Cover("worse")
	default:
		ae, ok := err.(thrift.TApplicationException)
		A(ok && ae.TypeId() == thrift.INTERNAL_ERROR, "any other handler error arrives as an application exception")
		zzrt.Cover("foreign")
	}
	// exactly one reply message per call: nothing is left on the connection and the next call works
	A(len(loop.in) == 0, "the client consumed the whole reply: one request is answered by exactly one message")
	A(loop.unread == 0, "the processor consumed the whole request")
	h.plain = zzrt.Int32("plain")
	pl, err2 := cl.Plain(context.Background())
	A(err2 == nil && pl == h.plain, "the next call on the same connection gets its own reply")
	// wire format
	A(len(loop.requests) == 2 && len(loop.replies) == 2, "one request, one reply")
	q := zzParseMsg(loop.requests[0])
	A(q.ok && q.typ == 1 && q.name == "compute", "request is <compute, CALL, seqid>")
	p := zzParseMsg(loop.replies[0])
	if h.mode == 3 {
		A(p.ok && p.typ == 3 && p.name == "compute" && p.seq == q.seq, "reply is <compute, EXCEPTION, same seqid>")
	} else {
		A(p.ok && p.typ == 2 && p.name == "compute" && p.seq == q.seq, "reply is <compute, REPLY, same seqid>")
	}
	// args struct: field 1 struct (req), field 3 i16 (mode), then STOP
	body := q.body
	A(len(body) > 3 && body[0] == 12 && body[1] == 0 && body[2] == 1, "argument req uses id 1 and wire type STRUCT")
	tail := body[len(body)-6:]
	A(tail[0] == 6 && tail[1] == 0 && tail[2] == 3 && int16(uint16(tail[3])<<8|uint16(tail[4])) == mode && tail[5] == 0, "argument mode uses id 3 and wire type I16")
	// result struct: success id 0 / bad id 1 / worse id 4
	if h.mode <= 2 {
		rb := p.body
		wantID := []byte{0, 1, 4}[h.mode]
		A(len(rb) > 3 && rb[0] == 12 && rb[1] == 0 && rb[2] == wantID, "result member uses its IDL id (success = 0)")
	}
}

// H_C08_void_oneway: void with exception, oneway, inherited, keyword-named methods; two calls in a row.
func H_C08_sequence() {
	h := &zzHandler{mode: []int{0, 1, 3}[zzrt.Choose("mode", 3)]}
	h.bad = &Bad{Why: zzrt.String("why", 1)}
	h.plain = zzrt.Int32("plain")
	h.str = zzrt.String("str", 2)
	cl, loop := zzSetup(h)
	ctx := context.Background()
	A := zzrt.Assert
	key := zzrt.String("key", 2)
	err := cl.Touch(ctx, key)
	A(h.gotKey == key, "void method receives its argument")
	switch h.mode {
	case 1:
		b, ok := err.(*Bad)
		A(ok && b.Why == h.bad.Why, "void method delivers its declared exception")
	case 3:
		ae, ok := err.(thrift.TApplicationException)
		A(ok && ae.TypeId() == thrift.INTERNAL_ERROR, "an undeclared error of a void method with a throws clause arrives as an application exception")
	default:
		A(err == nil, "void method returns nil")
	}
	A(len(loop.in) == 0, "nothing is left on the connection after the first call")
	h.mode = 0
	x := zzrt.Int32("x")
	A(cl.Fire(ctx, x) == nil && h.gotX == x, "oneway method reaches the handler")
	A(len(loop.requests) == 2 && len(loop.replies[1]) == 0, "oneway method produces no reply")
	A((zzParseMsg(loop.requests[1]).typ == 4 || zzParseMsg(loop.requests[1]).typ == 1) && zzParseMsg(loop.requests[1]).name == "fire", "oneway request is <fire, CALL or ONEWAY, seqid>")
	n := zzrt.Int32("n")
	pr, err := cl.Ping(ctx, n)
	A(err == nil && h.gotN == n && pr == n+1, "a method inherited from the base service is dispatched")
	pl, err := cl.Plain(ctx)
	A(err == nil && pl == h.plain, "method without arguments returns the handler's value")
	f := zzrt.String("f", 1)
	ts, err := cl.Type(ctx, f)
	A(err == nil && h.gotFunc == f && ts == h.str, "method and parameter named like Go keywords")
	A(zzParseMsg(loop.requests[4]).name == "type", "the wire name is the IDL name")
	// sequence ids are consecutive and echoed
	for i := 0; i+1 < len(loop.requests); i++ {
		A(zzParseMsg(loop.requests[i+1]).seq == zzParseMsg(loop.requests[i]).seq+1, "consecutive sequence ids on one connection")
	}
	for i, rp := range loop.replies {
		if len(rp) > 0 {
			A(zzParseMsg(rp).seq == zzParseMsg(loop.requests[i]).seq, "reply echoes the sequence id")
		}
	}
	A(len(h.calls) == 5, "five handler invocations")
	A(loop.unread == 0 && len(loop.in) == 0, "every request and every reply was consumed entirely")
	zzrt.Cover("end")
}

// H_C08_unknown_method: a request whose method name is not declared gets an application exception.
func H_C08_unknown_method(n int) {
	h := &zzHandler{}
	proc := NewCalcProcessor(h)
	name := zzrt.String("name", n)
	zzrt.Assume(name != "ping" && name != "fire" && name != "type" && name != "touch" && name != "plain" && name != "compute")
	seq := zzrt.Int32("seq")
	inBuf, outBuf := thrift.NewTMemoryBuffer(), thrift.NewTMemoryBuffer()
	ip, op := thrift.NewTBinaryProtocol(inBuf, true, true), thrift.NewTBinaryProtocol(outBuf, true, true)
	ip2 := thrift.NewTBinaryProtocol(inBuf, true, true)
	ip2.WriteMessageBegin(name, thrift.CALL, seq)
	ip2.WriteStructBegin("args")
	ip2.WriteFieldBegin("a", thrift.I32, 1)
	ip2.WriteI32(zzrt.Int32("arg"))
	ip2.WriteFieldEnd()
	ip2.WriteFieldBegin("s", thrift.STRING, 2)
	ip2.WriteString("xy")
	ip2.WriteFieldEnd()
	ip2.WriteFieldStop()
	ip2.WriteStructEnd()
	ip2.WriteMessageEnd()
	ok, _ := proc.Process(context.Background(), ip, op)
	zzrt.Assert(!ok, "processing an unknown method reports failure")
	zzrt.Assert(len(h.calls) == 0, "no handler method runs")
	m := zzParseMsg(outBuf.Bytes())
	zzrt.Assert(m.ok && m.typ == 3 && m.name == name && m.seq == seq, "reply is <name, EXCEPTION, same seqid>")
	// the connection stays usable: the unknown request was consumed entirely and the next call is served
	zzrt.Assert(inBuf.Len() == 0, "the whole request of the unknown method was consumed")
	outBuf.Reset()
	h.plain = zzrt.Int32("plain")
	ip2.WriteMessageBegin("plain", thrift.CALL, seq+1)
	ip2.WriteStructBegin("args")
	ip2.WriteFieldStop()
	ip2.WriteStructEnd()
	ip2.WriteMessageEnd()
	ok2, err2 := proc.Process(context.Background(), ip, op)
	zzrt.Assert(ok2 && err2 == nil && len(h.calls) == 1 && h.calls[0] == "plain", "the next call on the same connection reaches its handler")
	m2 := zzParseMsg(outBuf.Bytes())
	zzrt.Assert(m2.ok && m2.typ == 2 && m2.name == "plain" && m2.seq == seq+1, "and is answered by <plain, REPLY, its seqid>")
	zzrt.Cover("end")
}

func D_C08_1() string {
	h := &zzHandler{resp: &Resp{Val: 9, Items: []string{"a", "b"}}, plain: 4, str: "s"}
	cl, loop := zzSetup(h)
	ctx := context.Background()
	t := "tg"
	r, err := cl.Compute(ctx, &Req{ID: 3, Tag: &t}, -2)
	out := ""
	if err == nil {
		out += r.Items[1]
	}
	cl.Fire(ctx, 1)
	cl.Touch(ctx, "k")
	n, _ := cl.Ping(ctx, 41)
	if n == 42 {
		out += "P"
	}
	for _, b := range append(loop.requests, loop.replies...) {
		for _, c := range b {
			out += string([]byte{"0123456789abcdef"[c>>4], "0123456789abcdef"[c&15]})
		}
		out += "|"
	}
	return out
}
