//zz:target generator/fastgo
package fastgo

import (
	"strings"

	"github.com/cloudwego/thriftgo/generator/backend"
	"github.com/cloudwego/thriftgo/generator/golang"
	"github.com/cloudwego/thriftgo/parser"
	"github.com/cloudwego/thriftgo/plugin"
	"github.com/cloudwego/thriftgo/semantic"

	zzrt "github.com/cloudwego/thriftgo/internal/zzverifrt"
)

// The fastgo backend writes its files with a plain code writer (no templates), so the whole
// generation of k-*.go runs in the engine: once with every map iterated in insertion order,
// once with iteration orders chosen by decision variables. no_fmt is set because go/format is
// outside the encoding; it is also the configuration in which nothing re-sorts the text.

var zzC07Progs = []map[string]string{
	{
		"main.thrift": `include "a.thrift"
include "b.thrift"
namespace go c07.f
struct S {
  3: optional map<string, list<a.A>> m
  1: required i32 x = 5
  2: b.B b
  4: set<E> es
}
union U { 1: i64 x; 2: string y }
exception X { 1: string msg }
enum E { P = 1 }
service Svc { S call(1: S req, 2: a.A a) throws (1: X x) }
`,
		"a.thrift": "namespace go c07.a\nstruct A { 1: i32 v }\n",
		"b.thrift": "namespace go c07.b\nstruct B { 1: string v; 2: optional binary w }\n",
	},
}

func zzC07Compile(files map[string]string) *parser.Thrift {
	ast, err := parser.ParseBatchString("main.thrift", files, nil)
	if err != nil {
		panic("corpus does not parse: " + err.Error())
	}
	if _, err := semantic.NewChecker(semantic.Options{FixWarnings: true}).CheckAll(ast); err != nil {
		panic("corpus rejected: " + err.Error())
	}
	if err := semantic.ResolveSymbols(ast); err != nil {
		panic("corpus does not resolve: " + err.Error())
	}
	return ast
}

func zzC07Generate(files map[string]string) string {
	ast := zzC07Compile(files)
	cu := golang.NewCodeUtils(backend.DummyLogFunc())
	if err := cu.HandleOptions([]string{"package_prefix=example.com/x", "no_fmt=true"}); err != nil {
		panic("options: " + err.Error())
	}
	g := &FastGoBackend{req: &plugin.Request{AST: ast, OutputPath: "out", Recursive: true}, log: backend.DummyLogFunc(), utils: cu}
	var sb strings.Builder
	seen := map[*parser.Thrift]bool{}
	var one func(a *parser.Thrift)
	one = func(a *parser.Thrift) {
		if seen[a] {
			return
		}
		seen[a] = true
		c, err := g.GenerateOne(a)
		if err != nil {
			panic("GenerateOne: " + err.Error())
		}
		sb.WriteString("==== " + c.GetName() + "\n" + c.Content)
		for _, inc := range a.Includes {
			one(inc.Reference)
		}
	}
	one(ast)
	return sb.String()
}

func H_C07_fastgo(prog int, budget int) {
	zzrt.NondetMapOrderBudget(0)
	want := zzC07Generate(zzC07Progs[prog])
	zzrt.NondetMapOrderBudget(budget)
	got := zzC07Generate(zzC07Progs[prog])
	zzrt.NondetMapOrderBudget(0)
	zzrt.Cover("end")
	if got != want {
		la, lb := strings.Split(got, "\n"), strings.Split(want, "\n")
		for i := 0; i < len(la) && i < len(lb); i++ {
			if la[i] != lb[i] {
				zzrt.Fail("fastgo output depends on map iteration order: line '" + la[i] + "' vs '" + lb[i] + "'")
			}
		}
		zzrt.Fail("fastgo output depends on map iteration order (length)")
	}
}

func D_C07_fastgo() string {
	s := zzC07Generate(zzC07Progs[0])
	// the import block is compared as a set (its order is what H_C07_fastgo is about)
	var keep []string
	var imps []string
	in := false
	for _, l := range strings.Split(s, "\n") {
		if l == "import (" {
			in = true
		} else if in && l == ")" {
			in = false
			for i := range imps {
				for j := i + 1; j < len(imps); j++ {
					if imps[j] < imps[i] {
						imps[i], imps[j] = imps[j], imps[i]
					}
				}
			}
			keep = append(keep, imps...)
			imps = nil
		} else if in {
			imps = append(imps, l)
		} else {
			keep = append(keep, l)
		}
	}
	return strings.Join(keep, "\n")
}
