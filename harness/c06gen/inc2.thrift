namespace go c06.other.cm

// same last namespace segment as main.thrift (c06.cm) and same constant names on purpose
const i32 CInt = 1000
const string CStr = "from-inc2"
enum Color { Red = 7 }
