namespace go c06.inc

enum Level { Low = 1, High = 9 }
const i32 IncNum = 77
const string IncStr = "from-inc"
const Level IncLevel = Level.High
struct Pt { 1: i32 px = 3, 2: i32 py }
const Pt IncPt = {"px": 10, "py": 20}
