namespace go c06.cm
include "inc.thrift"
include "inc2.thrift"

enum Color { Red = 1, Green = 5, Blue = -2 }
typedef Color Shade
typedef i64 Ident

const i32 CInt = 42
const i64 CNeg = -9000000000
const i16 CHex = 0x1F
const byte CByte = -7
const i64 CMax = 9223372036854775807
const i64 CMin = -9223372036854775808
const i32 CI32Min = -2147483648
const i16 CI16Max = 32767
const byte CByteMin = -128
const i64 CHexBig = 0x7FFFFFFFFFFFFFFF
const double CDbl = 2.5
const double CDblInt = 3
const double CDblExp = 1e3
const double CDblPi = 3.141592653589793
const double CDblNear = 1.00000000001
const double CDblTiny = 1e-60
const double CDblBig = 1.5e300
const double CDblNeg = -0.000125
const list<double> CDblList = [0.1, 2.718281828459045]
const bool CTrue = true
const bool CFalse = false
const bool COne = 1
const bool CZero = 0
const string CStr = "plain"
const string CSq = 'it\'s "q"'
const string CDq = "say \"hi\" 'x'"
const string CEsc = "tab\there"
const binary CBin = "bytes"
const Color CEnum = Color.Green
const Color CEnumNum = 5
const Shade CShade = Color.Blue
const Ident CIdent = 12345678901
const i32 CRef = CInt
const i32 CIncRef = inc.IncNum
const i32 CInc2Ref = inc2.CInt
const string CInc2Str = inc2.CStr
const inc2.Color CInc2Enum = inc2.Color.Red
const list<i32> CInc2List = [inc2.CInt, CInt]
const string CIncStr = inc.IncStr
const inc.Level CIncEnum = inc.Level.Low
const inc.Level CIncEnumRef = inc.IncLevel
const list<i32> CList = [1, 2, 3]
const list<string> CEmpty = []
const set<string> CSet = ["x", "y"]
const map<string, i32> CMap = {"a": 1, "b": CInt}
const map<Color, list<i32>> CMapEnum = {Color.Red: [1], Color.Blue: []}
const list<map<string, bool>> CNest = [{"t": true, "f": 0}]
const Inner CStruct = {"xx": 7, "ss": "q"}
const Inner CStructPartial = {"xx": 1}
const inc.Pt CPt = {"py": 5}
const list<Inner> CStructs = [{"xx": 1}, {"xx": 2, "ss": "z"}]

struct Inner {
  1: required i32 xx
  2: optional string ss
}

struct Defs {
  1: i32 di = 5
  2: optional i32 oi = 6
  3: required i32 ri = 7
  4: string ds = "dflt"
  5: optional string os = 'o"s'
  6: bool db = true
  7: optional bool ob = 1
  8: double dd = 2.5
  9: optional double od = 4
  27: optional double op = 3.141592653589793
  10: Color de = Color.Green
  11: optional Color oe = 5
  12: list<i32> dl = [1, 2]
  13: optional list<string> ol = ["a"]
  14: map<string, i32> dm = {"k": 1}
  15: Inner dn = {"xx": 3}
  16: optional Inner on = {"xx": 4, "ss": "s"}
  17: i64 plain
  18: optional i16 optr
  19: optional string ostr
  20: optional binary obin
  21: byte dby = 0x7f
  22: optional i64 ol64 = CNeg
  23: optional inc.Level ilv = inc.Level.High
  40: optional binary obd = "bb"
  24: i32 dref = inc.IncNum
  25: optional Ident oid = 99
  26: i32 d2 = inc2.CInt
}

union UDef {
  1: i32 ua = 8
  2: string ub
}
