package cm

import (
	inc "zzgen/c06/inc"

	zzrt "zzgen/internal/zzverifrt"
)

func zzListEq(a []int32, b ...int32) bool {
	if len(a) != len(b) {
		return false
	}
	for i := range a {
		if a[i] != b[i] {
			return false
		}
	}
	return true
}

func zzStrsEq(a []string, b ...string) bool {
	if len(a) != len(b) {
		return false
	}
	for i := range a {
		if a[i] != b[i] {
			return false
		}
	}
	return true
}

// H_C06_consts: every generated constant/variable equals its IDL initializer evaluated by the IDL's rules.
func H_C06_consts() {
	A := zzrt.Assert
	A(CInt == 42, "CInt")
	A(CNeg == -9000000000, "CNeg")
	A(CHex == 31, "CHex")
	A(CByte == -7, "CByte")
	A(CMax == 9223372036854775807 && CMin == -9223372036854775808 && CHexBig == 9223372036854775807, "i64 extremes (decimal and hex)")
	A(CI32Min == -2147483648 && CI16Max == 32767 && CByteMin == -128, "extremes of the narrower integer types")
	A(CDbl == 2.5, "CDbl")
	A(CDblInt == 3.0, "CDblInt: an integer literal for a double")
	A(CDblExp == 1000.0, "CDblExp")
	A(CDblPi == 3.141592653589793, "a double with 16 significant digits keeps all of them")
	A(CDblNear == 1.00000000001 && CDblNear != 1, "a double close to 1 stays different from 1")
	A(CDblTiny == 1e-60 && CDblTiny != 0, "a double below the float32 range")
	A(CDblBig == 1.5e300, "a double above the float32 range")
	A(CDblNeg == -0.000125, "negative double")
	A(len(CDblList) == 2 && CDblList[0] == 0.1 && CDblList[1] == 2.718281828459045, "doubles inside a list constant")
	A(CTrue == true && CFalse == false, "bool literals")
	A(COne == true && CZero == false, "1/0 for bool")
	A(CStr == "plain", "CStr")
	A(CSq == "it's \"q\"", "single quoted literal: only the delimiter unescaped")
	A(CDq == "say \"hi\" 'x'", "double quoted literal: only the delimiter unescaped")
	A(CEsc == "tab\there", "escape sequences are interpreted by Go")
	A(string(CBin) == "bytes", "binary constant")
	A(CEnum == Color_Green && int64(CEnum) == 5, "enum by name")
	A(int64(CEnumNum) == 5, "enum by number")
	A(CShade == Color_Blue && int64(CShade) == -2, "typedef'd enum")
	A(CIdent == 12345678901, "typedef'd i64")
	A(CRef == 42, "reference to a constant")
	A(CIncRef == 77, "reference to an included constant")
	A(CIncStr == "from-inc", "included string constant")
	A(CInc2Ref == 1000 && CInt == 42, "constant of an included file whose Go package has the same last path segment and the same constant name")
	A(CInc2Str == "from-inc2", "string constant of the same-named package")
	A(int64(CInc2Enum) == 7, "enum member of the same-named package")
	A(zzListEq(CInc2List, 1000, 42), "list mixing an included and a local constant of the same name")
	A(CIncEnum == inc.Level_Low && int64(CIncEnum) == 1, "included enum member")
	A(CIncEnumRef == inc.Level_High, "included enum constant")
	A(zzListEq(CList, 1, 2, 3), "list constant")
	A(len(CEmpty) == 0, "empty list constant")
	A(zzStrsEq(CSet, "x", "y"), "set constant")
	A(len(CMap) == 2 && CMap["a"] == 1 && CMap["b"] == 42, "map constant with a constant reference")
	A(len(CMapEnum) == 2 && zzListEq(CMapEnum[Color_Red], 1) && len(CMapEnum[Color_Blue]) == 0, "map with enum keys")
	_, hasBlue := CMapEnum[Color_Blue]
	A(hasBlue, "map key with empty list present")
	A(len(CNest) == 1 && len(CNest[0]) == 2 && CNest[0]["t"] == true && CNest[0]["f"] == false, "nested literal")
	A(CStruct != nil && CStruct.Xx == 7 && CStruct.Ss != nil && *CStruct.Ss == "q", "struct literal")
	A(CStructPartial.Xx == 1 && CStructPartial.Ss == nil, "struct literal with unset optional")
	A(CPt.Py == 5, "struct literal of an included struct type")
	A(len(CStructs) == 2 && CStructs[0].Xx == 1 && CStructs[0].Ss == nil && CStructs[1].Xx == 2 && *CStructs[1].Ss == "z", "list of struct literals")
	A(inc.IncPt.Px == 10 && inc.IncPt.Py == 20, "struct constant in the included file")
	zzrt.Cover("end")
}

func zzCheckDefaults(p *Defs, what string) {
	A := func(c bool, m string) { zzrt.Assert(c, what+": "+m) }
	A(p.Di == 5, "di")
	A(p.Oi == 6, "oi")
	A(p.Ri == 7, "ri")
	A(p.Ds == "dflt", "ds")
	A(p.Os == "o\"s", "os")
	A(p.Db == true, "db")
	A(p.Ob == true, "ob")
	A(p.Dd == 2.5, "dd")
	A(p.Od == 4.0, "od")
	A(p.Op == 3.141592653589793, "op (default with 16 significant digits)")
	A(p.De == Color_Green, "de")
	A(int64(p.Oe) == 5, "oe")
	A(zzListEq(p.Dl, 1, 2), "dl")
	A(zzStrsEq(p.Ol, "a"), "ol")
	A(len(p.Dm) == 1 && p.Dm["k"] == 1, "dm")
	A(p.Dn != nil && p.Dn.Xx == 3 && p.Dn.Ss == nil, "dn")
	A(p.On != nil && p.On.Xx == 4 && *p.On.Ss == "s", "on")
	A(p.Plain == 0, "field without default is zero")
	A(p.Optr == nil && p.Ostr == nil && p.Obin == nil, "optional fields without default are nil")
	A(p.Dby == 127, "dby")
	A(p.Ol64 == -9000000000, "ol64 (default by constant reference)")
	A(p.Ilv == inc.Level_High, "ilv (included enum)")
	A(p.Dref == 77, "dref (included constant)")
	A(p.Oid == 99, "oid (typedef)")
	A(p.D2 == 1000, "d2 (constant of the same-named included package)")
}

// H_C06_new: NewX and InitDefault give every field its declared default and all others zero.
func H_C06_new() {
	zzCheckDefaults(NewDefs(), "NewDefs")
	var z Defs
	z.InitDefault()
	zzCheckDefaults(&z, "InitDefault")
	u := NewUDef()
	zzrt.Assert(u.Ub == nil, "union member without default is unset")
	in := NewInner()
	zzrt.Assert(in.Xx == 0 && in.Ss == nil, "struct without defaults is zero")
	pt := inc.NewPt()
	zzrt.Assert(pt.Px == 3 && pt.Py == 0, "included struct defaults")
	zzrt.Cover("end")
}

// H_C06_isset: for every value v of an optional field with default d: IsSet <=> v != d; the getter
// of an unset optional returns the default.
func H_C06_isset() {
	p := NewDefs()
	p.Oi = zzrt.Int32("oi")
	zzrt.Assert(p.IsSetOi() == (p.Oi != 6), "IsSetOi <=> value differs from the default")
	p.Ob = zzrt.Bool("ob")
	zzrt.Assert(p.IsSetOb() == (p.Ob != true), "IsSetOb")
	p.Os = zzrt.String("os", 3)
	zzrt.Assert(p.IsSetOs() == (p.Os != "o\"s"), "IsSetOs")
	p.Oe = Color(zzrt.Int32("oe"))
	zzrt.Assert(p.IsSetOe() == (int64(p.Oe) != 5), "IsSetOe")
	p.Ol64 = zzrt.Int64("ol64")
	zzrt.Assert(p.IsSetOl64() == (p.Ol64 != -9000000000), "IsSetOl64")
	p.Ilv = inc.Level(zzrt.Int32("ilv"))
	zzrt.Assert(p.IsSetIlv() == (int64(p.Ilv) != 9), "IsSetIlv")
	p.Oid = zzrt.Int64("oid")
	zzrt.Assert(p.IsSetOid() == (p.Oid != 99), "IsSetOid")
	od := zzrt.Float64("od")
	zzrt.Assume(od == od)
	p.Od = od
	zzrt.Assert(p.IsSetOd() == (p.Od != 4.0), "IsSetOd")
	zzrt.Assert(!p.IsSetOp() && p.GetOp() == 3.141592653589793, "a field holding exactly its high-precision default is unset and its getter returns the default")
	// the getter returns the stored value when set and the default otherwise (decided per value)
	if p.IsSetOi() {
		zzrt.Assert(p.GetOi() == p.Oi && p.Oi != 6, "getter of a set field")
		zzrt.Cover("oi-set")
	} else {
		zzrt.Assert(p.GetOi() == 6, "getter of an unset field returns the default")
		zzrt.Cover("oi-unset")
	}
	if p.IsSetOs() {
		zzrt.Assert(p.GetOs() == p.Os, "getter of a set string field")
	} else {
		zzrt.Assert(p.GetOs() == "o\"s", "getter of an unset string field returns the default")
	}
	if p.IsSetOe() {
		zzrt.Assert(p.GetOe() == p.Oe, "getter of a set enum field")
	} else {
		zzrt.Assert(int64(p.GetOe()) == 5, "getter of an unset enum field returns the default")
	}
	// optional binary with a default: nil, empty and two free bytes (nil differs from the default too)
	switch zzrt.Choose("obd", 3) {
	case 0:
		p.Obd = nil
	case 1:
		p.Obd = []byte{}
	default:
		p.Obd = zzrt.Bytes("obd", 2)
	}
	zzrt.Assert(p.IsSetObd() == (string(p.Obd) != "bb"), "IsSetObd <=> value differs from the default (a nil binary differs from a non-empty default)")
	if p.IsSetObd() {
		zzrt.Assert(string(p.GetObd()) == string(p.Obd), "getter of a set binary field")
	} else {
		zzrt.Assert(string(p.GetObd()) == "bb", "getter of an unset binary field returns the default")
	}
	// pointer optionals: set <=> non-nil; getter of unset returns the zero default
	zzrt.Assert(!p.IsSetOptr() && p.GetOptr() == 0, "unset optional i16")
	zzrt.Assert(!p.IsSetOstr() && p.GetOstr() == "", "unset optional string")
	v := zzrt.Int16("optr")
	p.Optr = &v
	zzrt.Assert(p.IsSetOptr() && p.GetOptr() == v, "set optional i16")
	// getters of fields holding their default
	q := NewDefs()
	zzrt.Assert(q.GetOi() == 6 && q.GetOs() == "o\"s" && q.GetOb() == true && q.GetOd() == 4.0 && int64(q.GetOe()) == 5, "getters of unset optionals return the declared default")
	zzrt.Assert(!q.IsSetObd() && string(q.GetObd()) == "bb", "optional binary with a default after construction")
	zzrt.Assert(!q.IsSetOi() && !q.IsSetOs() && !q.IsSetOb() && !q.IsSetOd() && !q.IsSetOe(), "a fresh struct reports its optional-with-default fields as unset")
	zzrt.Assert(q.IsSetOl() && q.IsSetOn(), "optional container / struct with a default is set after construction")
	var nilp *Defs
	_ = nilp
	zzrt.Cover("end")
}

func D_C06_1() string {
	p := NewDefs()
	s := p.Ds + p.Os + CSq + CDq
	if p.Ob && CTrue && COne {
		s += "T"
	}
	return s
}
