//zz:target fieldmask
package fieldmask

import (
	"errors"

	"github.com/cloudwego/thriftgo/parser"
	"github.com/cloudwego/thriftgo/thrift_reflection"

	zzrt "github.com/cloudwego/thriftgo/internal/zzverifrt"
)

const zzIDL = `
typedef Inner Alias
struct Inner {
	1: required i32 a
	2: optional string b
	70: list<i32> c
}
struct Root {
	1: required i32 x
	2: optional string s
	3: list<Inner> l
	4: set<string> st
	5: map<string, Inner> sm
	6: map<i64, Inner> im
	7: Inner in
	8: Alias al
	9: map<double, string> dm
	62: i32 a62
	63: Inner a63
	64: i32 a64
	65: list<i32> a65
	70: list<list<i32>> ll
	300: map<string, list<Inner>> ml
}
`

func zzDesc() *thrift_reflection.TypeDescriptor {
	ast, err := parser.ParseString("a.thrift", zzIDL)
	if err != nil {
		panic(err.Error())
	}
	_, fd := thrift_reflection.RegisterAST(ast)
	st := fd.GetStructDescriptor("Root")
	return &thrift_reflection.TypeDescriptor{
		Filepath: st.Filepath,
		Name:     st.Name,
		Extra:    map[string]string{thrift_reflection.GLOBAL_UUID_EXTRA_KEY: st.Extra[thrift_reflection.GLOBAL_UUID_EXTRA_KEY]},
	}
}

// H_C14_total: NewFieldMask on prefix + n free bytes never panics and returns (mask, nil) or (nil, err).
func H_C14_total(ctx int, n int) {
	desc := zzDesc()
	prefixes := []string{"", "$", "$.", "$.l[", "$.sm{", "$.im{", "$.in.", "$.st[", "$.sm{\"", "$.ll[0][", "$.ml{\"k\"}[1]."}
	p := prefixes[ctx] + zzrt.String("p", n)
	fm, err := NewFieldMask(desc, p)
	zzrt.Assert((fm == nil) != (err == nil), "exactly one of mask and error")
	if err == nil {
		zzrt.Cover("accepted")
	} else {
		zzrt.Cover("rejected")
	}
}

func zzB(b bool) string {
	if b {
		return "1"
	}
	return "0"
}

// zzProbe renders the answers of a mask to a fixed set of queries.
func zzProbe(black bool, paths ...string) string {
	desc := zzDesc()
	fm, err := Options{BlackListMode: black}.NewFieldMask(desc, paths...)
	if err != nil {
		return "ERR " + err.Error()
	}
	out := ""
	for id := int16(0); id < 10; id++ {
		sub, ok := fm.Field(id)
		out += zzB(ok) + zzB(sub != nil) + zzB(sub.All())
		for i := 0; i < 4; i++ {
			s2, ok2 := sub.Int(i)
			out += zzB(ok2) + zzB(s2 != nil)
		}
		s3, ok3 := sub.Str("k")
		out += zzB(ok3) + zzB(s3 != nil) + " "
	}
	for _, q := range []string{"$.x", "$.l[1].a", "$.l[2]", "$.sm{\"k\"}.b", "$.sm{\"z\"}", "$.im{5}.a", "$.im{6}", "$.ll[0][2]", "$.in.c[0]", "$.in.a", "$.300{\"q\"}[1].70", "$.al.2", "$.al.1"} {
		out += zzB(fm.PathInMask(desc, q))
	}
	return out
}

func D_C14_1() string {
	return zzProbe(false, "$.x", "$.l[1,3].a", "$.sm{\"k\"}.b", "$.im{5}", "$.ll[*][2]")
}
func D_C14_2() string { return zzProbe(false, "$.in.c[0]", "$.300{*}[1].70", "$.al.2") }
func D_C14_3() string {
	return zzProbe(false, "$.nosuch") + zzProbe(false, "$.l{1}") + zzProbe(false, "$.sm{1}") + zzProbe(false, "$.x[")
}
func D_C14_4() string {
	return zzProbe(true, "$.x", "$.l[1,3].a", "$.sm{\"k\"}.b", "$.im{5}", "$.ll[*][2]", "$.in")
}

// H_C14_digits: ids / indices / keys written with n free decimal digits (overflow region).
func H_C14_digits(ctx int, nfixed int, n int) {
	desc := zzDesc()
	pre := []string{"$.", "$.l[", "$.im{", "$.ll[1]["}[ctx]
	suf := []string{"", "]", "}", "]"}[ctx]
	d := zzrt.String("d", n)
	for i := 0; i < len(d); i++ {
		zzrt.Assume(d[i] >= '0' && d[i] <= '9')
	}
	d = "92233720368547758071"[:nfixed] + d
	fm, err := NewFieldMask(desc, pre+d+suf)
	zzrt.Assert((fm == nil) != (err == nil), "exactly one of mask and error")
	if err == nil {
		zzrt.Cover("accepted")
		zzrt.Assert(fm.PathInMask(desc, pre+d+suf), "an accepted path is in the mask")
	} else {
		zzrt.Cover("rejected")
	}
}


// ---------------------------------------------------------------------------------------------
// semantics: queries answer as the path set prescribes

var zzRootIDs = []int16{1, 2, 3, 4, 5, 6, 7, 8, 9, 62, 63, 64, 65, 70, 300}

// H_C14_field: a mask with one or two field paths (free choices among the declared ids,
// written by id); Field(q) for a FREE q answers as the set prescribes; white and black list.
func H_C14_field(blackI int) {
	black := blackI == 1
	desc := zzDesc()
	a := zzRootIDs[zzrt.Choose("a", len(zzRootIDs))]
	b := zzRootIDs[zzrt.Choose("b", len(zzRootIDs))]
	itoa := func(n int16) string {
		s := ""
		for x := int(n); x > 0; x /= 10 {
			s = string([]byte{'0' + byte(x%10)}) + s
		}
		return s
	}
	fm, err := Options{BlackListMode: black}.NewFieldMask(desc, "$."+itoa(a), "$."+itoa(b))
	zzrt.Assert(err == nil && fm != nil, "valid field paths build a mask")
	q := zzrt.Int16("q")
	sub, ok := fm.Field(q)
	in := q == a || q == b
	if black {
		zzrt.Assert(ok == !in, "black list: a field is present iff no complete path covers it")
	} else {
		zzrt.Assert(ok == in, "white list: a field is present iff a path covers it")
		if in {
			zzrt.Assert(sub != nil && sub.All(), "a complete path selects everything below")
		}
	}
	zzrt.Assert(fm.PathInMask(desc, "$."+itoa(a)) == !black, "a path of the set is in the mask (white) / excluded (black)")
	zzrt.Assert(!fm.All(), "a mask with explicit field paths is not 'all'")
	if in {
		zzrt.Cover("in")
	} else {
		zzrt.Cover("out")
	}
}

// H_C14_index: list indices and int/str map keys written with a free digit / byte; queries with
// FREE index / key; order and grouping of the paths is a free choice.
func H_C14_index(blackI int) {
	black := blackI == 1
	desc := zzDesc()
	d1, d2 := zzrt.Byte("d"), zzrt.Byte("d")
	zzrt.Assume(d1 >= '0' && d1 <= '9' && d2 >= '0' && d2 <= '9')
	k := zzrt.Byte("k")
	zzrt.Assume((k >= 'a' && k <= 'z') || (k >= '0' && k <= '9'))
	s1, s2, ks := string([]byte{d1}), string([]byte{d2}), string([]byte{k})
	var paths []string
	switch zzrt.Choose("shape", 3) {
	case 0:
		paths = []string{"$.l[" + s1 + "," + s2 + "]", "$.im{" + s1 + "}", "$.sm{\"" + ks + "\"}.a"}
	case 1:
		paths = []string{"$.sm{\"" + ks + "\"}.a", "$.l[" + s2 + "]", "$.im{" + s1 + "}", "$.l[" + s1 + "]"}
	default:
		paths = []string{"$.im{" + s1 + "}", "$.l[" + s1 + "]", "$.sm{\"" + ks + "\"}.a", "$.l[" + s2 + "]"}
	}
	fm, err := Options{BlackListMode: black}.NewFieldMask(desc, paths...)
	zzrt.Assert(err == nil && fm != nil, "valid paths build a mask")
	i1, i2 := int(d1-'0'), int(d2-'0')
	l, okl := fm.Field(3)
	zzrt.Assert(okl && l != nil, "the list field is (partly) selected / partly excluded")
	q := zzrt.Int("q")
	_, okq := l.Int(q)
	inL := q == i1 || q == i2
	zzrt.Assert(okq == (inL != black), "list index membership")
	im, okm := fm.Field(6)
	zzrt.Assert(okm && im != nil, "the int map field")
	_, okk := im.Int(q)
	zzrt.Assert(okk == ((q == i1) != black), "int key membership")
	sm, oks := fm.Field(5)
	zzrt.Assert(oks && sm != nil, "the string map field")
	qs := zzrt.String("qs", 1)
	ssub, okstr := sm.Str(qs)
	if black {
		// the path goes on below the key: the key itself stays present in black list mode
		zzrt.Assert(okstr, "black list: a key with only a partial path below it is present")
	} else {
		zzrt.Assert(okstr == (qs == ks), "string key membership")
	}
	if qs == ks {
		_, oka := ssub.Field(1)
		_, okb := ssub.Field(2)
		zzrt.Assert(oka == !black && okb == black, "sub-mask below a string key")
		zzrt.Cover("key")
	}
	_, okx := fm.Field(1)
	zzrt.Assert(okx == black, "a field no path mentions")
	zzrt.Cover("end")
}

// ---- query semantics against a path-set model ------------------------------------------------------

type zzQStep struct {
	kind int // 0 field id, 1 list index, 2 string key, 3 int key, 5 '*'
	n    int
	s    string
}

func (p zzQStep) matches(q zzQStep) bool {
	if p.kind == 5 {
		return q.kind != 0
	}
	if p.kind != q.kind {
		return false
	}
	if p.kind == 2 {
		return p.s == q.s
	}
	return p.n == q.n
}

type zzQList struct {
	text  []string
	steps [][]zzQStep
}

func zzQLists() []zzQList {
	f := func(n int) zzQStep { return zzQStep{kind: 0, n: n} }
	ix := func(n int) zzQStep { return zzQStep{kind: 1, n: n} }
	sk := func(s string) zzQStep { return zzQStep{kind: 2, s: s} }
	star := zzQStep{kind: 5}
	return []zzQList{
		{[]string{"$.l[*].c"}, [][]zzQStep{{f(3), star, f(70)}}},                       // '*' followed by a deeper path
		{[]string{"$.l[1].a", "$.l[2]"}, [][]zzQStep{{f(3), ix(1), f(1)}, {f(3), ix(2)}}}, // partial and complete element paths
		{[]string{"$.ml{*}[0].b"}, [][]zzQStep{{f(300), star, ix(0), f(2)}}},
		{[]string{"$.sm{\"k\"}.c[1]", "$.in.a"}, [][]zzQStep{{f(5), sk("k"), f(70), ix(1)}, {f(7), f(1)}}},
		{[]string{"$.im{*}.a", "$.a63.b"}, [][]zzQStep{{f(6), star, f(1)}, {f(63), f(2)}}},
		{[]string{"$.in", "$.a63.c[*]"}, [][]zzQStep{{f(7)}, {f(63), f(70), star}}},
	}
}

// zzQRoutes: query sequences through the type Root; the values of the steps are free.
func zzQRoute(r int) []zzQStep {
	qf := func() zzQStep { return zzQStep{kind: 0, n: int(zzrt.Int16("qf"))} }
	qi := func() zzQStep { return zzQStep{kind: 1, n: zzrt.Int("qi")} }
	qk := func() zzQStep { return zzQStep{kind: 3, n: zzrt.Int("qk")} }
	qs := func() zzQStep { return zzQStep{kind: 2, s: zzrt.String("qs", 1)} }
	fx := func(n int) zzQStep { return zzQStep{kind: 0, n: n} }
	switch r {
	case 0:
		return []zzQStep{fx(3), qi(), qf(), qi()} // l[i].f[j]
	case 1:
		return []zzQStep{fx(300), qs(), qi(), qf()} // ml{s}[i].f
	case 2:
		return []zzQStep{fx(5), qs(), qf(), qi()} // sm{s}.f[i]
	case 3:
		return []zzQStep{fx(7), qf(), qi()} // in.f[i]
	case 4:
		return []zzQStep{fx(6), qk(), qf()} // im{k}.f
	default:
		return []zzQStep{fx(63), qf(), qi()} // a63.f[i]
	}
}

// H_C14_query: Field/Int/Str answer as the set of paths prescribes, level by level, for free query
// values; white and black list. covered = a complete path ends at or above the node; deeper = a
// path continues below it.
func H_C14_query(list, route, blackI int) {
	black := blackI == 1
	pl := zzQLists()[list]
	if black && list == 5 {
		zzrt.Cover("end") // a path ending in '*' in black-list mode: whether the container itself stays is not stated
		return
	}
	fm, err := Options{BlackListMode: black}.NewFieldMask(zzDesc(), pl.text...)
	zzrt.Assert(err == nil && fm != nil, "valid paths build a mask")
	q := zzQRoute(route)
	cur := fm
	for k := 1; k <= len(q); k++ {
		covered, deeper := false, false
		for _, p := range pl.steps {
			m := true
			for i := 0; i < len(p) && i < k; i++ {
				if !p[i].matches(zzQStepAs(p[i], q[i])) {
					m = false
				}
			}
			if m && len(p) <= k {
				covered = true
			}
			if m && len(p) > k {
				deeper = true
			}
		}
		var sub *FieldMask
		var ex bool
		switch q[k-1].kind {
		case 0:
			sub, ex = cur.Field(int16(q[k-1].n))
		case 2:
			sub, ex = cur.Str(q[k-1].s)
		default:
			sub, ex = cur.Int(q[k-1].n)
		}
		want := covered || deeper
		if black {
			want = !covered
		}
		zzrt.Assert(ex == want, "query level "+string(rune('0'+k))+" answers as the path set prescribes")
		if !ex {
			zzrt.Cover("end")
			return
		}
		cur = sub
	}
	zzrt.Cover("end")
}

// zzQStepAs: an int-key query matches a path step written as list index or int key alike.
func zzQStepAs(p, q zzQStep) zzQStep {
	if (p.kind == 1 || p.kind == 3) && (q.kind == 1 || q.kind == 3) {
		q.kind = p.kind
	}
	return q
}

// ---- JSON transport ------------------------------------------------------------------------------
//
// encoding/json is not encodable (reflection driven). What the library itself does with a JSON
// document is TransferFrom: it turns the decoded transfer tree into a mask. The harnesses below
// run the real MarshalJSON and the real TransferFrom; the two uses of encoding/json in between are
// environment models: zzJSONPath (json.Unmarshal of one path segment into *fieldID / *int /
// *string) and zzParseTransfer (the outer decode of a document that follows MarshalJSON's schema).
// Natively (replay, differential) the real encoding/json runs instead of both models.

// zzJSONInt: a JSON integer literal without surrounding white space.
func zzJSONInt(data []byte) (int, bool) {
	i, neg := 0, false
	if len(data) > 0 && data[0] == '-' {
		neg, i = true, 1
	}
	if i >= len(data) || (data[i] == '0' && len(data) != i+1) {
		return 0, false
	}
	n := 0
	for ; i < len(data); i++ {
		if data[i] < '0' || data[i] > '9' {
			return 0, false
		}
		n = n*10 + int(data[i]-'0')
	}
	if neg {
		n = -n
	}
	return n, true
}

func zzJSONPath(data []byte, v interface{}) error {
	switch p := v.(type) {
	case *fieldID:
		n, ok := zzJSONInt(data)
		if !ok {
			return errors.New("json: not an integer")
		}
		*p = fieldID(n)
	case *int:
		n, ok := zzJSONInt(data)
		if !ok {
			return errors.New("json: not an integer")
		}
		*p = n
	case *string:
		if len(data) < 2 || data[0] != '"' || data[len(data)-1] != '"' {
			return errors.New("json: not a string")
		}
		in := data[1 : len(data)-1]
		for _, c := range in {
			if c == '"' || c < 0x20 {
				return errors.New("json: invalid string")
			}
			zzrt.Assume(c != '\\' && c < 0x7f) // escapes and non-ASCII text are outside the bound
		}
		*p = string(in)
	default:
		zzrt.Fail("json.Unmarshal into a target the model does not know")
	}
	return nil
}

type zzP struct {
	b   []byte
	i   int
	bad bool
}

func (p *zzP) peek(c byte) bool { return !p.bad && p.i < len(p.b) && p.b[p.i] == c }
func (p *zzP) lit(s string) {
	if p.bad {
		return
	}
	if len(p.b)-p.i < len(s) || string(p.b[p.i:p.i+len(s)]) != s {
		p.bad = true
		return
	}
	p.i += len(s)
}
func (p *zzP) value() []byte {
	start := p.i
	if p.peek('"') {
		p.i++
		for p.i < len(p.b) && p.b[p.i] != '"' {
			if p.b[p.i] == '\\' {
				p.i++
			}
			p.i++
		}
		p.i++
	} else {
		for p.i < len(p.b) && (p.b[p.i] == '-' || (p.b[p.i] >= '0' && p.b[p.i] <= '9')) {
			p.i++
		}
	}
	if p.i > len(p.b) || p.i == start {
		p.bad = true
		return nil
	}
	return p.b[start:p.i]
}
func (p *zzP) obj(depth int) (t fieldMaskTransfer) {
	if depth > 8 {
		p.bad = true
		return
	}
	p.lit(`{"path":`)
	t.Path = p.value()
	p.lit(`,"type":"`)
	s := p.i
	for p.i < len(p.b) && p.b[p.i] != '"' {
		p.i++
	}
	if !p.bad {
		t.Type.UnmarshalText(p.b[s:p.i])
	}
	p.lit(`","is_black":`)
	if p.peek('t') {
		p.lit("true")
		t.IsBlack = true
	} else {
		p.lit("false")
	}
	if p.peek(',') {
		p.lit(`,"children":[`)
		for !p.bad && !p.peek(']') {
			if len(t.Children) > 0 {
				p.lit(",")
			}
			t.Children = append(t.Children, p.obj(depth+1))
		}
		p.lit("]")
	}
	p.lit("}")
	return
}

// zzFromJSON: the way back. Symbolically: schema parser + root check + the real TransferFrom with
// the path-segment model; natively the real UnmarshalJSON.
func zzFromJSON(text []byte) (*FieldMask, error) {
	fm := new(FieldMask)
	if !zzrt.Symbolic() {
		err := fm.UnmarshalJSON(text)
		return fm, err
	}
	zzrt.Override("encoding/json.Unmarshal", zzJSONPath)
	p := &zzP{b: text}
	tr := p.obj(0)
	if p.bad || p.i != len(text) {
		zzrt.Fail("the text written by MarshalJSON does not follow its documented schema")
	}
	if string(tr.Path) != `"$"` {
		return fm, errors.New("fieldmask must begin with root path '$'")
	}
	err := fm.TransferFrom(&tr)
	return fm, err
}

func zzJSONLists() [][]string {
	ls := [][]string{}
	for _, l := range zzQLists() {
		ls = append(ls, l.text)
	}
	return append(ls,
		[]string{"$.x", "$.a62", "$.a63", "$.a64", "$.a65[1]", "$.ml{\"k\"}[1].a", "$.ml{\"k\"}[1].b"}, // head and tail ids together
		[]string{"$.sm{\"a\",\"b\"}.a", "$.im{0,7}", "$.st[*]", "$.ll[0][1,2]", "$.al.c[0]"},
		[]string{"$.sm{*}", "$.im{*}.c[*]", "$.l[*]", "$.in.c"},
	)
}

// H_C14_json: mask -> MarshalJSON -> mask answers every query identically (free query values on
// 6 routes, level by level), and marshalling the second mask gives the same text (stable text).
func H_C14_json(list, route, blackI int) {
	black := blackI == 1
	paths := zzJSONLists()[list]
	fm, err := Options{BlackListMode: black}.NewFieldMask(zzDesc(), paths...)
	zzrt.Assert(err == nil && fm != nil, "valid paths build a mask")
	text, err := fm.MarshalJSON()
	zzrt.Assert(err == nil, "a built mask marshals")
	fm2, err := zzFromJSON(text)
	zzrt.Assert(err == nil && fm2 != nil, "the text of MarshalJSON unmarshals")
	text2, err := fm2.MarshalJSON()
	zzrt.Assert(err == nil && string(text2) == string(text), "JSON text is stable over a round trip")
	zzrt.Assert(fm.All() == fm2.All() && fm.IsBlack() == fm2.IsBlack() && fm.Type() == fm2.Type(), "root attributes")
	q := zzQRoute(route)
	a, b := fm, fm2
	for k := 0; k < len(q); k++ {
		var sa, sb *FieldMask
		var ea, eb bool
		switch q[k].kind {
		case 0:
			sa, ea = a.Field(int16(q[k].n))
			sb, eb = b.Field(int16(q[k].n))
		case 2:
			sa, ea = a.Str(q[k].s)
			sb, eb = b.Str(q[k].s)
		default:
			sa, ea = a.Int(q[k].n)
			sb, eb = b.Int(q[k].n)
		}
		zzrt.Assert(ea == eb, "query level "+string(rune('1'+k))+": membership is the same after the JSON round trip")
		zzrt.Assert(sa.Exist() == sb.Exist() && sa.All() == sb.All(), "query level "+string(rune('1'+k))+": sub-mask is the same after the JSON round trip")
		if !ea || !sa.Exist() {
			zzrt.Cover("end")
			return
		}
		a, b = sa, sb
	}
	zzrt.Cover("end")
}

// H_C14_transfer: TransferFrom on an arbitrary decoded document (root of type rt, up to two
// children, a grandchild below an only child, every type value of the enum, path segments of n
// free bytes) never panics, and the mask it returns answers queries of EVERY kind (also a kind
// that does not fit the node's type: the document, not the application, chose that type)
// without panicking.
func H_C14_transfer(n int, rt int) {
	zzrt.Override("encoding/json.Unmarshal", zzJSONPath)
	node := func(tag string) fieldMaskTransfer {
		t := fieldMaskTransfer{Path: zzrt.Bytes(tag+"p", n), Type: FieldMaskType(zzrt.Byte(tag + "t")), IsBlack: zzrt.Bool(tag + "b")}
		zzrt.Assume(t.Type <= FtIntMap) // UnmarshalText produces the enum's values only
		for _, c := range t.Path {
			zzrt.Assume(c > 0x20) // a RawMessage carries no white space around its value
		}
		return t
	}
	root := fieldMaskTransfer{Path: []byte(`"$"`), Type: FieldMaskType(rt), IsBlack: zzrt.Bool("rb")}
	nc := zzrt.Choose("children", 3)
	for i := 0; i < nc; i++ {
		c := node("c")
		if nc == 1 && zzrt.Bool("grandchild") {
			c.Children = append(c.Children, node("g"))
		}
		root.Children = append(root.Children, c)
	}
	fm := new(FieldMask)
	err := fm.TransferFrom(&root)
	if err != nil {
		zzrt.Cover("rejected")
		return
	}
	zzrt.Cover("accepted")
	// fixed query values: the subject is the shape of the document, and a symbolic query against
	// a symbolic stored id only multiplies paths
	s1, _ := fm.Field(1)
	s2, _ := fm.Int(1)
	s3, _ := fm.Str("k")
	fm.Field(64)
	fm.Field(-1)
	for _, s := range []*FieldMask{s1, s2, s3} {
		s.All()
		s.Exist()
		s.Field(1)
		s.Int(1)
		s.Str("k")
	}
}

func zzJSONProbe(black bool, paths ...string) string {
	fm, err := Options{BlackListMode: black}.NewFieldMask(zzDesc(), paths...)
	if err != nil {
		return "ERR " + err.Error()
	}
	text, _ := fm.MarshalJSON()
	fm2, err := zzFromJSON(text)
	if err != nil {
		return "ERR2"
	}
	t2, _ := fm2.MarshalJSON()
	out := string(text) + "|" + string(t2) + "|"
	for id := int16(0); id < 10; id++ {
		sub, ok := fm2.Field(id)
		out += zzB(ok) + zzB(sub != nil) + zzB(sub.All())
		for i := 0; i < 3; i++ {
			s2, ok2 := sub.Int(i)
			out += zzB(ok2) + zzB(s2 != nil)
		}
		s3, ok3 := sub.Str("k")
		out += zzB(ok3) + zzB(s3 != nil) + " "
	}
	return out
}

// differential (engine with the two JSON models vs native with encoding/json)
func D_C14_5() string {
	return zzJSONProbe(false, "$.x", "$.l[1,3].a", "$.sm{\"k\"}.b", "$.im{5}", "$.ll[*][2]", "$.a64", "$.ml{\"q\"}[1].c")
}
func D_C14_6() string {
	return zzJSONProbe(true, "$.x", "$.l[1,3].a", "$.sm{\"k\",\"z\"}.b", "$.im{5}", "$.in", "$.300{*}[1].70")
}
