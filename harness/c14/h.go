//zz:target fieldmask
package fieldmask

import (
	"github.com/cloudwego/thriftgo/parser"
	"github.com/cloudwego/thriftgo/thrift_reflection"

	zzrt "github.com/cloudwego/thriftgo/internal/zzverifrt"
)

const zzIDL = `
typedef Inner Alias
struct Inner {
	1: required i32 a
	2: optional string b
	70: list<i32> c
}
struct Root {
	1: required i32 x
	2: optional string s
	3: list<Inner> l
	4: set<string> st
	5: map<string, Inner> sm
	6: map<i64, Inner> im
	7: Inner in
	8: Alias al
	9: map<double, string> dm
	70: list<list<i32>> ll
	300: map<string, list<Inner>> ml
}
`

func zzDesc() *thrift_reflection.TypeDescriptor {
	ast, err := parser.ParseString("a.thrift", zzIDL)
	if err != nil {
		panic(err.Error())
	}
	_, fd := thrift_reflection.RegisterAST(ast)
	st := fd.GetStructDescriptor("Root")
	return &thrift_reflection.TypeDescriptor{
		Filepath: st.Filepath,
		Name:     st.Name,
		Extra:    map[string]string{thrift_reflection.GLOBAL_UUID_EXTRA_KEY: st.Extra[thrift_reflection.GLOBAL_UUID_EXTRA_KEY]},
	}
}

// H_C14_total: NewFieldMask on prefix + n free bytes never panics and returns (mask, nil) or (nil, err).
func H_C14_total(ctx int, n int) {
	desc := zzDesc()
	prefixes := []string{"", "$", "$.", "$.l[", "$.sm{", "$.im{", "$.in.", "$.st[", "$.sm{\"", "$.ll[0][", "$.ml{\"k\"}[1]."}
	p := prefixes[ctx] + zzrt.String("p", n)
	fm, err := NewFieldMask(desc, p)
	zzrt.Assert((fm == nil) != (err == nil), "exactly one of mask and error")
	if err == nil {
		zzrt.Cover("accepted")
	} else {
		zzrt.Cover("rejected")
	}
}

func zzB(b bool) string {
	if b {
		return "1"
	}
	return "0"
}

// zzProbe renders the answers of a mask to a fixed set of queries.
func zzProbe(black bool, paths ...string) string {
	desc := zzDesc()
	fm, err := Options{BlackListMode: black}.NewFieldMask(desc, paths...)
	if err != nil {
		return "ERR " + err.Error()
	}
	out := ""
	for id := int16(0); id < 10; id++ {
		sub, ok := fm.Field(id)
		out += zzB(ok) + zzB(sub != nil) + zzB(sub.All())
		for i := 0; i < 4; i++ {
			s2, ok2 := sub.Int(i)
			out += zzB(ok2) + zzB(s2 != nil)
		}
		s3, ok3 := sub.Str("k")
		out += zzB(ok3) + zzB(s3 != nil) + " "
	}
	for _, q := range []string{"$.x", "$.l[1].a", "$.l[2]", "$.sm{\"k\"}.b", "$.sm{\"z\"}", "$.im{5}.a", "$.im{6}", "$.ll[0][2]", "$.in.c[0]", "$.in.a", "$.300{\"q\"}[1].70", "$.al.2", "$.al.1"} {
		out += zzB(fm.PathInMask(desc, q))
	}
	return out
}

func D_C14_1() string {
	return zzProbe(false, "$.x", "$.l[1,3].a", "$.sm{\"k\"}.b", "$.im{5}", "$.ll[*][2]")
}
func D_C14_2() string { return zzProbe(false, "$.in.c[0]", "$.300{*}[1].70", "$.al.2") }
func D_C14_3() string {
	return zzProbe(false, "$.nosuch") + zzProbe(false, "$.l{1}") + zzProbe(false, "$.sm{1}") + zzProbe(false, "$.x[")
}
func D_C14_4() string {
	return zzProbe(true, "$.x", "$.l[1,3].a", "$.sm{\"k\"}.b", "$.im{5}", "$.ll[*][2]", "$.in")
}

// H_C14_digits: ids / indices / keys written with n free decimal digits (overflow region).
func H_C14_digits(ctx int, nfixed int, n int) {
	desc := zzDesc()
	pre := []string{"$.", "$.l[", "$.im{", "$.ll[1]["}[ctx]
	suf := []string{"", "]", "}", "]"}[ctx]
	d := zzrt.String("d", n)
	for i := 0; i < len(d); i++ {
		zzrt.Assume(d[i] >= '0' && d[i] <= '9')
	}
	d = "92233720368547758071"[:nfixed] + d
	fm, err := NewFieldMask(desc, pre+d+suf)
	zzrt.Assert((fm == nil) != (err == nil), "exactly one of mask and error")
	if err == nil {
		zzrt.Cover("accepted")
		zzrt.Assert(fm.PathInMask(desc, pre+d+suf), "an accepted path is in the mask")
	} else {
		zzrt.Cover("rejected")
	}
}
