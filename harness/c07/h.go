//zz:target generator/golang
package golang

import (
	"sort"
	"strings"

	"github.com/cloudwego/thriftgo/generator/backend"
	"github.com/cloudwego/thriftgo/parser"
	"github.com/cloudwego/thriftgo/semantic"

	zzrt "github.com/cloudwego/thriftgo/internal/zzverifrt"
)

// Determinism kernels of the Go backend: everything the templates are fed (scope, names, import
// table, constant initialisers, embedded descriptor bytes) is computed twice -- once with every
// map iterated in insertion order, once with map iteration orders chosen by decision variables
// -- and must be identical. Rendering itself (text/template, which sorts map keys) is outside.

var zzC07Progs = []map[string]string{
	// 0: several annotations per node, two namespaces, a map-valued constant and default
	{
		"main.thrift": `namespace go c07.m
namespace java jm
struct S {
  1: i32 a (k1 = "v1", k2 = "v2")
  2: map<string, i32> m = {"x": 1, "y": 2}
} (sk1 = "a", sk2 = "b")
enum E { A = 1 (e1 = "1", e2 = "2"), B }
const map<string, i32> CM = {"a": 1, "b": 2}
const map<i32, list<string>> CN = {1: ["p"], 2: ["q", "r"]}
const map<string, i32> CD = {"alpha": 1, "beta": 2, "alpha": 3}
`,
	},
	// 1: many includes, services and exceptions
	{
		"main.thrift": `include "a.thrift"
include "b.thrift"
include "c.thrift"
namespace go c07.svc
exception X1 { 1: string m }
exception X2 { 1: string m }
service S1 {
  void f1() throws (1: X1 x, 2: a.XA xa)
  void f2() throws (1: X2 x, 2: b.XB xb)
  void f3() throws (1: b.XB x)
}
service S2 extends c.SC {
  a.A g(1: b.B b) throws (1: X2 x)
} (s1 = "1", s2 = "2")
`,
		"a.thrift": "namespace go c07.a\nstruct A { 1: i32 v }\nexception XA { 1: i32 c }\n",
		"b.thrift": "namespace go c07.b\nstruct B { 1: i32 v }\nexception XB { 1: i32 c }\n",
		"c.thrift": "namespace go c07.c\nservice SC { void h() }\n",
	},
	// 2: names that collide with the standard imports and with each other
	{
		"main.thrift": `include "fmt.thrift"
include "context.thrift"
namespace go c07.col
struct Fmt { 1: fmt.F f; 2: context.C c }
struct Fmt_ { 1: i32 v }
struct fmt { 1: i32 v }
service Fmt2 { fmt.F get(1: context.C c) }
`,
		"fmt.thrift":     "namespace go c07.fmt\nstruct F { 1: i32 v }\n",
		"context.thrift": "namespace go c07.context\nstruct C { 1: i32 v }\n",
	},
}

func zzC07Compile(files map[string]string) *parser.Thrift {
	ast, err := parser.ParseBatchString("main.thrift", files, nil)
	if err != nil {
		panic("corpus does not parse: " + err.Error())
	}
	if _, err := semantic.NewChecker(semantic.Options{FixWarnings: true}).CheckAll(ast); err != nil {
		panic("corpus rejected: " + err.Error())
	}
	if err := semantic.ResolveSymbols(ast); err != nil {
		panic("corpus does not resolve: " + err.Error())
	}
	return ast
}

func zzC07Digest(files map[string]string, opts []string, withDesc bool) string {
	ast := zzC07Compile(files)
	cu := NewCodeUtils(backend.DummyLogFunc())
	if err := cu.HandleOptions(opts); err != nil {
		panic("options: " + err.Error())
	}
	funcs := cu.BuildFuncMap()
	var sb strings.Builder
	var one func(a *parser.Thrift)
	seen := map[*parser.Thrift]bool{}
	one = func(a *parser.Thrift) {
		if seen[a] {
			return
		}
		seen[a] = true
		scope, err := BuildScope(cu, a)
		if err != nil {
			panic("BuildScope: " + err.Error())
		}
		cu.SetRootScope(scope)
		sb.WriteString("file " + a.Filename + " package " + scope.FilePackage() + "\n")
		for _, inc := range scope.Includes() {
			sb.WriteString(" include " + inc.PackageName + " " + inc.ImportPath + "\n")
		}
		for _, s := range scope.StructLikes() {
			sb.WriteString(" " + s.Category + " " + string(s.GoName()) + "\n")
			for _, f := range s.Fields() {
				sb.WriteString("  " + string(f.GoName()) + " " + string(f.GoTypeName()) + " = " + string(f.DefaultValue()) + " get=" + string(f.Getter()) + " tags=")
				tags, err := cu.GenFieldTags(f, "ip")
				if err != nil {
					tags = "ERR " + err.Error()
				}
				sb.WriteString(tags + "\n")
			}
		}
		for _, e := range scope.Enums() {
			sb.WriteString(" enum " + string(e.GoName()))
			for _, v := range e.Values() {
				sb.WriteString(" " + string(v.GoName()))
			}
			sb.WriteString("\n")
		}
		for _, t := range scope.Typedefs() {
			sb.WriteString(" typedef " + string(t.GoName()) + " " + string(t.GoTypeName()) + "\n")
		}
		for _, c := range scope.Constants() {
			sb.WriteString(" const " + string(c.GoName()) + " " + string(c.GoTypeName()) + " = " + string(c.Initialization()) + "\n")
		}
		for _, svc := range scope.Services() {
			sb.WriteString(" service " + string(svc.GoName()))
			if svc.Base() != nil {
				sb.WriteString(" extends " + string(svc.Base().GoName()))
			}
			sb.WriteString("\n")
			for _, fn := range svc.Functions() {
				sb.WriteString("  " + string(fn.GoName()) + " -> " + string(fn.ResponseGoTypeName()) + " args=" + string(fn.ArgType().GoName()))
				if fn.ResType() != nil {
					sb.WriteString(" res=" + string(fn.ResType().GoName()))
				}
				for _, a := range fn.Arguments() {
					sb.WriteString(" " + string(a.GoName()) + ":" + string(a.GoTypeName()))
				}
				sb.WriteString("\n")
			}
			throws := funcs["ServiceThrows"].(func(*Service) []*Field)(svc)
			sb.WriteString("  throws:")
			for _, t := range throws {
				sb.WriteString(" " + string(t.GoTypeName()))
			}
			sb.WriteString("\n")
		}
		if withDesc {
			sb.WriteString(" descriptor " + scope.MarshalDescriptor() + "\n")
		}
		// what the Imports template is given (text/template ranges over maps in key order)
		imps, err := scope.ResolveImports()
		if err != nil {
			panic("ResolveImports: " + err.Error())
		}
		var lines []string
		for p, alias := range imps {
			lines = append(lines, "  import "+alias+" "+p)
		}
		sort.Strings(lines)
		sb.WriteString(strings.Join(lines, "\n") + "\n")
		for _, inc := range a.Includes {
			one(inc.Reference)
		}
	}
	one(ast)
	return sb.String()
}

// H_C07_scope: budget = number of map ranges that may be perturbed on one path.
func H_C07_scope(prog int, budget int, reflection int) {
	opts := []string{"package_prefix=example.com/x"}
	if reflection == 1 {
		opts = append(opts, "with_reflection=true")
	}
	zzrt.NondetMapOrderBudget(0)
	want := zzC07Digest(zzC07Progs[prog], opts, reflection == 1)
	zzrt.NondetMapOrderBudget(budget)
	got := zzC07Digest(zzC07Progs[prog], opts, reflection == 1)
	zzrt.NondetMapOrderBudget(0)
	zzrt.Cover("end")
	if got != want {
		la, lb := strings.Split(got, "\n"), strings.Split(want, "\n")
		for i := 0; i < len(la) && i < len(lb); i++ {
			if la[i] != lb[i] {
				if strings.HasPrefix(la[i], " descriptor ") {
					zzrt.Fail("the embedded reflection descriptor bytes of " + zzFileOf(la, i) + " depend on map iteration order")
				}
				zzrt.Fail("what the templates are given depends on map iteration order: '" + la[i] + "' vs '" + lb[i] + "'")
			}
		}
		zzrt.Fail("what the templates are given depends on map iteration order (length)")
	}
}

func zzFileOf(lines []string, i int) string {
	for ; i >= 0; i-- {
		if strings.HasPrefix(lines[i], "file ") {
			return lines[i]
		}
	}
	return "?"
}

func D_C07_digest() string {
	return zzC07Digest(zzC07Progs[1], []string{"package_prefix=example.com/x"}, false) + zzC07Digest(zzC07Progs[2], []string{"package_prefix=example.com/x"}, false)
}
