//zz:target tool/trimmer/dump
package dump

import (
	"strings"

	"github.com/cloudwego/thriftgo/parser"
	"github.com/cloudwego/thriftgo/semantic"

	zzrt "github.com/cloudwego/thriftgo/internal/zzverifrt"
)

func zzCheck(ast *parser.Thrift) error {
	if _, err := semantic.NewChecker(semantic.Options{FixWarnings: true}).CheckAll(ast); err != nil {
		return err
	}
	return semantic.ResolveSymbols(ast)
}

// zzRound parses src, dumps it, parses the dump; returns both signatures.
func zzRound(src string) (sig1, sig2, dumped string, ok1 bool, err2 error) {
	ast, err := parser.ParseString("a.thrift", src)
	if err != nil {
		return "", "", "", false, nil
	}
	if zzCheck(ast) != nil {
		return "", "", "", false, nil
	}
	sig1 = parser.ZZSig(ast, false)
	dumped, err = DumpIDL(ast)
	if err != nil {
		return sig1, "", "", true, err
	}
	ast2, err := parser.ParseString("a.thrift", dumped)
	if err != nil {
		return sig1, "", dumped, true, err
	}
	if err := zzCheck(ast2); err != nil {
		return sig1, "", dumped, true, err
	}
	return sig1, parser.ZZSig(ast2, false), dumped, true, nil
}

var zzLitPos = [][2]string{
	{"const string s = ", "\n"},
	{"struct S { 1: string f = ", " }\n"},
	{"struct S { 1: string f (k = ", ") }\n"},
	{"struct S { 1: string f } (k = ", ")\n"},
	{"enum E { A = 1 (k = ", ") }\n"},
	{"service V { void f() (k = ", ") }\n"},
	{"service V {} (k = ", ")\n"},
	{"namespace go a.b (k = ", ")\n"},
	{"typedef i32 (k = ", ") T\n"},
	{"const list<string> l = [", ", 'z']\n"},
	{"const map<string,string> m = {'k': ", "}\n"},
	{"cpp_include ", "\n"},
}

// zzKnownLiteral reports whether a literal VALUE (after parsing) lies in the region of the
// recorded defects of the dumper's quoting scheme.
func zzKnownLiteral(v string) (string, bool) {
	switch {
	case strings.Contains(v, "\\\""):
		return "KF-C17-backslash-quote", true
	case strings.Contains(v, "##34;"):
		return "KF-C17-placeholder-34", true
	case strings.Contains(v, "#OUTQUOTES"):
		return "KF-C17-placeholder-outquotes", true
	}
	return "", false
}

// H_C17_literal: literal with n free ASCII bytes at position pos with quote q (0 ", 1 ').
func H_C17_literal(pos, q, n int) {
	qs := []string{"\"", "'"}[q]
	body := zzrt.String("b", n)
	for i := 0; i < len(body); i++ {
		zzrt.Assume(body[i] < 0x80)
	}
	zzLiteralRound(zzLitPos[pos][0] + qs + body + qs + zzLitPos[pos][1])
}

// H_C17_literal_pre: a fixed prefix of a placeholder followed by n free bytes.
func H_C17_literal_pre(pre, q, n int) {
	qs := []string{"\"", "'"}[q]
	prefix := []string{"##34", "#OUTQUOTE", "&am", "&#3", "a\\", "&&", "x&y&", "&lt;&", "a&b&c"}[pre]
	body := zzrt.String("b", n)
	for i := 0; i < len(body); i++ {
		zzrt.Assume(body[i] < 0x80)
	}
	zzLiteralRound("const string s = " + qs + prefix + body + qs + "\n")
}

func zzLiteralRound(src string) {
	ast, err := parser.ParseString("a.thrift", src)
	if err != nil {
		zzrt.Cover("rejected")
		return
	}
	if zzCheck(ast) != nil {
		zzrt.Cover("rejected")
		return
	}
	sig1 := parser.ZZSigNumeric(ast, false)
	// collect the literal values of the document to decide the known-finding region
	kf := ""
	for _, v := range zzLiterals(ast) {
		if id, hit := zzKnownLiteral(v); hit {
			kf = id
		}
	}
	for _, td := range ast.Typedefs {
		if td.Type != nil {
			for _, a := range td.Type.Annotations {
				for _, v := range a.Values {
					if strings.Contains(v, "&") && kf == "" {
						kf = "KF-C17-type-annotation-ampersand"
					}
				}
			}
		}
	}
	for _, p := range append(append([]string{}, ast.CppIncludes...), zzIncludePaths(ast)...) {
		if strings.Contains(p, "\"") && kf == "" {
			kf = "KF-C17-include-quote"
		}
	}
	dumped, err := DumpIDL(ast)
	zzrt.Assert(err == nil, "DumpIDL succeeds")
	ast2, err := parser.ParseString("a.thrift", dumped)
	if kf != "" {
		same := err == nil && zzCheck(ast2) == nil && parser.ZZSigNumeric(ast2, false) == sig1
		zzrt.Known(kf, same, "dump -> parse does not give back the literal")
		zzrt.Cover("known-region")
		return
	}
	zzrt.Assert(err == nil, "the dumped IDL parses")
	zzrt.Assert(zzCheck(ast2) == nil, "the dumped IDL passes the semantic check")
	if parser.ZZSigNumeric(ast2, false) != sig1 {
		zzrt.Printf("SRC %s DUMP %s\nSIG1 %s\nSIG2 %s\n", src, dumped, sig1, parser.ZZSigNumeric(ast2, false))
	}
	zzrt.Assert(parser.ZZSigNumeric(ast2, false) == sig1, "parse(dump(ast)) equals ast")
	zzrt.Cover("roundtrip")
}

func zzLiterals(ast *parser.Thrift) []string {
	var out []string
	var cv func(v *parser.ConstValue)
	cv = func(v *parser.ConstValue) {
		if v == nil || v.TypedValue == nil {
			return
		}
		if v.TypedValue.Literal != nil {
			out = append(out, *v.TypedValue.Literal)
		}
		for _, e := range v.TypedValue.List {
			cv(e)
		}
		for _, kv := range v.TypedValue.Map {
			cv(kv.Key)
			cv(kv.Value)
		}
	}
	ann := func(as parser.Annotations) {
		for _, a := range as {
			out = append(out, a.Values...)
		}
	}
	out = append(out, ast.CppIncludes...)
	for _, inc := range ast.Includes {
		out = append(out, inc.Path)
	}
	for _, n := range ast.Namespaces {
		ann(n.Annotations)
	}
	for _, td := range ast.Typedefs {
		ann(td.Annotations)
		if td.Type != nil {
			ann(td.Type.Annotations)
		}
	}
	for _, c := range ast.Constants {
		cv(c.Value)
		ann(c.Annotations)
	}
	for _, e := range ast.Enums {
		ann(e.Annotations)
		for _, v := range e.Values {
			ann(v.Annotations)
		}
	}
	for _, g := range [][]*parser.StructLike{ast.Structs, ast.Unions, ast.Exceptions} {
		for _, s := range g {
			ann(s.Annotations)
			for _, f := range s.Fields {
				ann(f.Annotations)
				cv(f.Default)
			}
		}
	}
	for _, s := range ast.Services {
		ann(s.Annotations)
		for _, f := range s.Functions {
			ann(f.Annotations)
		}
	}
	return out
}

// H_C17_numbers: integer / double constants and ids with free digits.
func H_C17_numbers(kind int) {
	d := zzrt.String("d", 2)
	for i := 0; i < len(d); i++ {
		zzrt.Assume(d[i] >= '0' && d[i] <= '9')
	}
	zzrt.Assume(d[0] != '0' && d[1] <= '5')
	var src string
	switch kind {
	case 0:
		src = "const i64 c = -" + d + "\n"
	case 1:
		src = "const double c = " + d[:1] + "." + d[1:] + "\n"
	case 2:
		src = "const double c = -" + d[:1] + "e" + d[1:] + "\n"
	case 3:
		src = "struct S { -" + d + ": optional i32 a = " + d + ", " + d + ": required list<i32> b = [" + d[:1] + "] }\n"
	case 4:
		src = "enum E { A = -" + d + ", B = 0x" + d + " }\n"
	case 5:
		src = "const i32 c = 0x" + d + "\n"
	}
	sig1, sig2, _, ok, err := zzRound(src)
	zzrt.Assert(ok, "source is accepted")
	zzrt.Assert(err == nil, "the dumped IDL is accepted")
	if kind == 1 || kind == 2 {
		// a double may be re-read as an integer literal of equal value: compare numerically
		zzrt.Assert(zzDoubleSigEq(sig1, sig2), "numeric value preserved")
	} else {
		zzrt.Assert(sig1 == sig2, "parse(dump(ast)) equals ast")
	}
	zzrt.Cover("end")
}

// zzDoubleSigEq compares signatures treating "1:d5" and "2:i5" constants as equal values.
func zzDoubleSigEq(a, b string) bool {
	norm := func(s string) string {
		s = strings.ReplaceAll(s, "= 2:i", "= N:")
		s = strings.ReplaceAll(s, "= 1:d", "= N:")
		s = strings.ReplaceAll(s, "= 0:d", "= N:")
		s = strings.ReplaceAll(s, "= 1:i", "= N:")
		return s
	}
	return norm(a) == norm(b)
}

// H_C17_structure: service shapes with free counts and flags.
func H_C17_structure() {
	nargs := zzrt.Choose("nargs", 3)
	nthrows := zzrt.Choose("nthrows", 4)
	oneway := nthrows == 0 && zzrt.Bool("oneway")
	void := oneway || zzrt.Bool("void")
	ext := zzrt.Bool("extends")
	req := zzrt.Choose("req", 3)
	var sb strings.Builder
	sb.WriteString("exception X { 1: string m }\nexception Y {}\nstruct S {\n")
	sb.WriteString([]string{"1: i32 a\n", "1: required i32 a = 5\n", "-1: optional list<string> a = [\"x\", 'y'] (k = 'v', k = \"w\", j = '')\n"}[req])
	sb.WriteString("}\nunion U {}\nservice B {}\nservice V ")
	if ext {
		sb.WriteString("extends B ")
	}
	sb.WriteString("{\n")
	if oneway {
		sb.WriteString("oneway ")
	}
	if void {
		sb.WriteString("void")
	} else {
		sb.WriteString("map<string, list<S>>")
	}
	sb.WriteString(" f(")
	for i := 0; i < nargs; i++ {
		sb.WriteString([]string{"1: i32 a", ", 2: optional S b"}[i])
	}
	sb.WriteString(")")
	if nthrows > 0 {
		sb.WriteString(" throws (")
		for i := 0; i < nthrows; i++ {
			sb.WriteString([]string{"1: X x", ", 2: Y y", ", 3: X z"}[i])
		}
		sb.WriteString(")")
	}
	sb.WriteString(" (api = 'g')\n void g()\n}\n")
	sig1, sig2, dumped, ok, err := zzRound(sb.String())
	zzrt.Assert(ok, "source is accepted")
	_ = dumped
	zzrt.Assert(err == nil, "the dumped IDL is accepted")
	zzrt.Assert(sig1 == sig2, "parse(dump(ast)) equals ast")
	zzrt.Cover("end")
}

func D_C17_1() string {
	_, s2, d, _, err := zzRound("namespace go a.b\ninclude \"x.thrift\"\ncpp_include \"<v>\"\ntypedef map<string,list<i32>> (a='b') T (c=\"d\")\nconst map<string,i32> M = {'a': 1, \"b\": 2}\nenum E { A = 1 (x='y'), B }\nstruct S { 1: required T t, 2: optional double d = 1.5 (k='v&w <x>') } (s='t')\nservice V { oneway void p(), i32 q(1: i32 a, 2: S s) throws (1: X x) }\nexception X {}\n")
	if err != nil {
		return "ERR " + err.Error() + d
	}
	return s2 + d
}

func zzIncludePaths(ast *parser.Thrift) []string {
	var out []string
	for _, inc := range ast.Includes {
		out = append(out, inc.Path)
	}
	return out
}
