//zz:target generator
package generator

import (
	"strings"

	"github.com/cloudwego/thriftgo/generator/backend"
	"github.com/cloudwego/thriftgo/parser"
	"github.com/cloudwego/thriftgo/plugin"

	zzrt "github.com/cloudwego/thriftgo/internal/zzverifrt"
)

// Generator.Generate driven with a stub backend and stub plugins whose responses are chosen
// by decision variables. The oracle does not mirror FileManager: it states what a user of
// the plugin protocol relies on (every file reaches the output under a name of its own, every
// patch reaches the file it was addressed to, errors and warnings surface, parameters arrive
// packed in command-line order).

type zzPlug struct {
	name    string
	res     *plugin.Response
	gotPP   []string
	gotGP   []string
	gotAST  *parser.Thrift
	invoked int
}

func (p *zzPlug) Name() string { return p.name }
func (p *zzPlug) Execute(req *plugin.Request) *plugin.Response {
	p.invoked++
	p.gotPP = append([]string(nil), req.PluginParameters...)
	p.gotGP = append([]string(nil), req.GeneratorParameters...)
	p.gotAST = req.AST
	return p.res
}

type zzSDK struct {
	params  []string
	res     *plugin.Response
	gotPP   []string
	invoked int
}

func (s *zzSDK) GetName() string               { return "sdk" }
func (s *zzSDK) GetPluginParameters() []string { return s.params }
func (s *zzSDK) Invoke(req *plugin.Request) *plugin.Response {
	s.invoked++
	s.gotPP = append([]string(nil), req.PluginParameters...)
	return s.res
}

type zzBackend struct {
	res   *plugin.Response
	plugs map[string]*zzPlug
	gotGP []string
}

func (b *zzBackend) Name() string                   { return "go" }
func (b *zzBackend) Lang() string                   { return "go" }
func (b *zzBackend) Options() []plugin.Option       { return nil }
func (b *zzBackend) BuiltinPlugins() []*plugin.Desc { return nil }
func (b *zzBackend) GetPlugin(d *plugin.Desc) plugin.Plugin {
	if p, ok := b.plugs[d.Name]; ok {
		return p
	}
	return nil
}
func (b *zzBackend) Generate(req *plugin.Request, log backend.LogFunc) *plugin.Response {
	b.gotGP = append([]string(nil), req.GeneratorParameters...)
	return b.res
}

type zzLog struct {
	warns []string
}

func (l *zzLog) funcs() backend.LogFunc {
	return backend.LogFunc{
		Info:  func(v ...interface{}) {},
		Infof: func(fmt string, v ...interface{}) {},
		Warn:  func(v ...interface{}) {},
		Warnf: func(fmt string, v ...interface{}) {},
		MultiWarn: func(ws []string) {
			l.warns = append(l.warns, ws...)
		},
	}
}

const zzPoint = "imports"

func zzFileText(token string, withPoint bool) string {
	s := "package x\n"
	if withPoint {
		s += "// " + plugin.InsertionPoint(zzPoint) + "\n"
	}
	return s + "// " + token + "\n"
}

type zzItem struct {
	gen     *plugin.Generated
	token   string
	isPatch bool
	target  string // token of the file a patch must end up in ("" = dropped together with a duplicate)
	dup     bool   // same name and same content as an earlier file: must not appear twice
}

func zzStr(s string) *string { return &s }

// zzResponse builds one plugin response of up to 2 items from a menu.
func zzResponse(who string, items *[]zzItem, baseTok string, maxItems int) *plugin.Response {
	res := plugin.NewResponse()
	n := zzrt.Choose(who+".n", maxItems+1)
	lastTok, lastDup := "", false
	for i := 0; i < n; i++ {
		tok := "<" + who + zzItoa(i) + ">"
		var it zzItem
		switch zzrt.Choose(who+".kind", 6) {
		case 0: // the very file the backend wrote: a duplicate, dropped
			it = zzItem{gen: &plugin.Generated{Name: zzStr("a.go"), Content: zzFileText(baseTok, true)}, token: baseTok, dup: true}
			lastTok, lastDup = baseTok, true
		case 1: // same name, other content: kept under another name
			it = zzItem{gen: &plugin.Generated{Name: zzStr("a.go"), Content: zzFileText(tok, true)}, token: tok}
			lastTok, lastDup = tok, false
		case 2: // a new file
			it = zzItem{gen: &plugin.Generated{Name: zzStr(who + ".go"), Content: zzFileText(tok, true)}, token: tok}
			lastTok, lastDup = tok, false
		case 3: // a patch addressed by name to the backend's file
			it = zzItem{gen: &plugin.Generated{Name: zzStr("a.go"), InsertionPoint: zzStr(zzPoint), Content: tok}, token: tok, isPatch: true, target: baseTok}
			lastTok, lastDup = baseTok, false
		case 4: // a patch for the file named before it in this response
			zzrt.Assume(lastTok != "")
			it = zzItem{gen: &plugin.Generated{InsertionPoint: zzStr(zzPoint), Content: tok}, token: tok, isPatch: true, target: lastTok}
			if lastDup {
				it.target = ""
			}
		case 5: // a name that looks like a renamed one
			it = zzItem{gen: &plugin.Generated{Name: zzStr("a_1.go"), Content: zzFileText(tok, true)}, token: tok}
			lastTok, lastDup = tok, false
		}
		res.Contents = append(res.Contents, it.gen)
		*items = append(*items, it)
	}
	return res
}

func zzItoa(i int) string {
	if i == 0 {
		return "0"
	}
	s := ""
	for ; i > 0; i /= 10 {
		s = string(rune('0'+i%10)) + s
	}
	return s
}

func zzSameStrings(a, b []string) bool {
	if len(a) != len(b) {
		return false
	}
	for i := range a {
		if a[i] != b[i] {
			return false
		}
	}
	return true
}

func H_C11_generate(nplug int) {
	var items []zzItem
	baseTok := "<base>"
	be := &zzBackend{plugs: map[string]*zzPlug{}}
	be.res = plugin.NewResponse()
	be.res.Contents = []*plugin.Generated{{Name: zzStr("a.go"), Content: zzFileText(baseTok, true)}}
	be.res.Warnings = []string{"bw"}
	items = append(items, zzItem{token: baseTok})

	out := &LangSpec{Language: "go", Options: []plugin.Option{{Name: zzrt.String("o1", 1), Desc: zzrt.String("d1", 1)}, {Name: "k"}, {Name: "k", Desc: "2"}}}
	var plugs []*zzPlug
	failing := -1
	// three plugins: one item per response and all-or-no options keep the choice space tractable
	maxItems, optChoices := 2, []int{0, 1, 2, 3}
	if nplug >= 3 {
		maxItems, optChoices = 1, []int{0, 3}
	}
	for i := 0; i < nplug; i++ {
		who := "p" + zzItoa(i)
		p := &zzPlug{name: who}
		p.res = zzResponse(who, &items, baseTok, maxItems)
		p.res.Warnings = []string{who + "w1", who + "w2"}
		if failing < 0 && zzrt.Bool(who+".fails") {
			p.res.Error = zzStr("boom " + who)
			failing = i
		}
		be.plugs[who] = p
		plugs = append(plugs, p)
		// 0..3 options: a plugin without options must see none (not the previous plugin's)
		all := []plugin.Option{{Name: who + "k", Desc: zzrt.String(who+"v", 1)}, {Name: "z"}, {Name: "a", Desc: "1"}}
		out.UsedPlugins = append(out.UsedPlugins, &plugin.Desc{Name: who, Options: all[:optChoices[zzrt.Choose(who+".nopt", len(optChoices))]]})
	}
	// optionally an in-process (SDK) plugin with parameters of its own runs before the external ones
	var sdk *zzSDK
	if nplug > 0 && zzrt.Bool("sdk") {
		sdk = &zzSDK{params: []string{"sdkp=1"}}
		sdk.res = plugin.NewResponse()
		sdk.res.Contents = []*plugin.Generated{{Name: zzStr("sdk.go"), Content: zzFileText("<sdk>", false)}}
		items = append(items, zzItem{token: "<sdk>"})
		out.SDKPlugins = []plugin.SDKPlugin{sdk}
	}
	ast := &parser.Thrift{Filename: "main.thrift"}
	req := &plugin.Request{Version: "v", Language: "go", OutputPath: "out", AST: ast}
	lg := &zzLog{}
	g := &Generator{}
	zzrt.Assert(g.RegisterBackend(be) == nil, "register backend")
	res := g.Generate(&Arguments{Out: out, Req: req, Log: lg.funcs()})

	// parameters, in command-line order
	zzrt.Assert(zzSameStrings(be.gotGP, plugin.Pack(out.Options)), "the backend sees the generator options in order")
	for i, p := range plugs {
		if failing >= 0 && i > failing {
			zzrt.Assert(p.invoked <= 1, "a plugin runs at most once") // (whether later plugins still run after a failure is not stated)
			continue
		}
		zzrt.Assert(p.invoked == 1, "each requested plugin runs exactly once")
		zzrt.Assert(zzSameStrings(p.gotPP, plugin.Pack(out.UsedPlugins[i].Options)), "plugin "+p.name+" sees its own options in order")
		zzrt.Assert(zzSameStrings(p.gotGP, plugin.Pack(out.Options)), "plugin "+p.name+" sees the generator options")
		zzrt.Assert(p.gotAST == ast, "plugin "+p.name+" sees the compiler's AST")
	}
	if sdk != nil {
		zzrt.Assert(sdk.invoked == 1 && zzSameStrings(sdk.gotPP, sdk.params), "the SDK plugin sees its own parameters")
	}
	// warnings are shown, in order
	wantW := []string{"bw"}
	for i, p := range plugs {
		if failing < 0 || i <= failing {
			wantW = append(wantW, p.res.Warnings...)
		}
	}
	zzrt.Assert(zzSameStrings(lg.warns, wantW), "every warning of the backend and of each plugin is shown")

	if failing >= 0 {
		zzrt.Assert(res.GetError() == "boom p"+zzItoa(failing), "a plugin's error is the result")
		zzrt.Assert(g.Persist(res) != nil, "Persist refuses an error response")
		zzrt.Cover("error")
		return
	}
	zzrt.Assert(res.GetError() == "", "no error without a failing plugin")
	// names are distinct (a later file would overwrite an earlier one on disk)
	for i, a := range res.Contents {
		zzrt.Assert(a.IsSetName() && a.GetName() != "", "every output has a name")
		for j := i + 1; j < len(res.Contents); j++ {
			zzrt.Assert(a.GetName() != res.Contents[j].GetName(), "two outputs share the name "+a.GetName())
		}
		zzrt.Assert(!strings.Contains(a.Content, "@@thriftgo_insertion_point"), "insertion points do not survive in the output")
	}
	// every file reaches the output exactly once; every patch reaches its file
	for _, it := range items {
		cnt, where := 0, ""
		for _, o := range res.Contents {
			if strings.Contains(o.Content, it.token) {
				cnt++
				where = o.Content
			}
		}
		switch {
		case !it.isPatch:
			zzrt.Assert(cnt == 1, "file "+it.token+" is written exactly once")
		case it.target == "":
			zzrt.Assert(cnt == 0, "the patch of a dropped duplicate is dropped with it")
		default:
			zzrt.Assert(cnt == 1, "patch "+it.token+" is applied exactly once")
			zzrt.Assert(strings.Contains(where, it.target), "patch "+it.token+" lands in the file it addresses")
		}
	}
	// patches of one file keep their order
	for _, o := range res.Contents {
		last := -1
		for _, it := range items {
			if it.isPatch && it.target != "" {
				if k := strings.Index(o.Content, it.token); k >= 0 {
					zzrt.Assert(k > last, "patches are inserted in the order they were delivered")
					last = k
				}
			}
		}
	}
	zzrt.Cover("ok")
}

// H_C11_unanchored: a response that starts with an unnamed patch has nothing to patch: error.
func H_C11_unanchored() {
	be := &zzBackend{plugs: map[string]*zzPlug{}}
	be.res = plugin.NewResponse()
	be.res.Contents = []*plugin.Generated{{InsertionPoint: zzStr(zzPoint), Content: zzrt.String("c", 2)}}
	g := &Generator{}
	g.RegisterBackend(be)
	lg := &zzLog{}
	res := g.Generate(&Arguments{Out: &LangSpec{Language: "go"}, Req: &plugin.Request{AST: &parser.Thrift{}}, Log: lg.funcs()})
	zzrt.Assert(res.GetError() != "", "a patch without a file is an error")
	lang := zzrt.String("lang", 2)
	zzrt.Assume(lang != "go")
	res = g.Generate(&Arguments{Out: &LangSpec{Language: lang}, Req: &plugin.Request{AST: &parser.Thrift{}}, Log: lg.funcs()})
	zzrt.Assert(res.GetError() != "", "an unknown language is an error")
	zzrt.Cover("end")
}
