package all

import (
	"github.com/apache/thrift/lib/go/thrift"

	nw "zzgen/c09/new"
	od "zzgen/c09/old"

	zzrt "zzgen/internal/zzverifrt"
)

func zzBytes(w interface{ Write(thrift.TProtocol) error }) []byte {
	buf := thrift.NewTMemoryBuffer()
	zzrt.Assert(w.Write(thrift.NewTBinaryProtocol(buf, true, true)) == nil, "Write succeeds")
	return buf.Bytes()
}

func zzProto(b []byte) thrift.TProtocol {
	buf := thrift.NewTMemoryBuffer()
	buf.Write(b)
	return thrift.NewTBinaryProtocol(buf, true, true)
}

func zzNewInner() *nw.Inner {
	in := &nw.Inner{A: zzrt.Int32("a")}
	if zzrt.Bool("set") {
		s := zzrt.String("s", 1)
		in.B = &s
	}
	if zzrt.Bool("set") {
		in.C = []int32{zzrt.Int32("c")}
	}
	return in
}

func zzNewRoot() *nw.Root {
	p := nw.NewRoot()
	p.R = zzrt.Int32("r")
	if zzrt.Bool("set") {
		s := zzrt.String("s", 2)
		p.S = &s
	}
	p.Inn = zzNewInner()
	p.Li = []*nw.Inner{zzNewInner()}
	p.E = nw.E(zzrt.Int32("e"))
	switch zzrt.Choose("arm", 3) {
	case 1:
		x := zzrt.Int32("x")
		p.Arm = &nw.Arm{X: &x}
	case 2:
		y := zzrt.String("y", 1)
		p.Arm = &nw.Arm{Y: &y}
	}
	p.M = map[string]*nw.Inner{zzrt.String("k", 1): {A: zzrt.Int32("a")}}
	if zzrt.Bool("set") {
		v := zzrt.Int64("added")
		p.Added = &v
	}
	p.Extra = &nw.Inner{A: zzrt.Int32("a")}
	if zzrt.Bool("set") {
		p.Mm = map[int32][]string{zzrt.Int32("mk"): {zzrt.String("mv", 1)}}
	}
	if zzrt.Bool("set") {
		p.Dd = zzrt.Float64("dd")
	}
	return p
}

func zzOldRoot() *od.Root {
	p := od.NewRoot()
	p.R = zzrt.Int32("r")
	if zzrt.Bool("set") {
		s := zzrt.String("s", 2)
		p.S = &s
	}
	p.Inn = &od.Inner{A: zzrt.Int32("a")}
	p.Li = []*od.Inner{{A: zzrt.Int32("a")}}
	p.E = od.E(zzrt.Int32("e"))
	if zzrt.Bool("set") {
		x := zzrt.Int32("x")
		p.Arm = &od.Arm{X: &x}
	}
	p.M = map[string]*od.Inner{zzrt.String("k", 1): {A: zzrt.Int32("a")}}
	return p
}

// zzCommonEq asserts that every field common to both versions holds the same value.
func zzCommonEq(o *od.Root, n *nw.Root, what string) {
	A := func(c bool, m string) { zzrt.Assert(c, what+": "+m) }
	A(o.R == n.R, "r")
	A((o.S == nil) == (n.S == nil), "presence of s")
	if o.S != nil && n.S != nil {
		A(*o.S == *n.S, "s")
	}
	A(o.Inn != nil && o.Inn.A == n.Inn.A, "inn.a")
	A(len(o.Li) == len(n.Li), "len(li)")
	for i := range n.Li {
		if i < len(o.Li) {
			A(o.Li[i].A == n.Li[i].A, "li[i].a")
		}
	}
	A(int64(o.E) == int64(n.E), "e")
	A((o.Arm == nil) == (n.Arm == nil), "presence of arm")
	if o.Arm != nil && n.Arm != nil {
		A((o.Arm.X == nil) == (n.Arm.X == nil), "presence of arm.x")
		if o.Arm.X != nil && n.Arm.X != nil {
			A(*o.Arm.X == *n.Arm.X, "arm.x")
		}
	}
	A(len(o.M) == len(n.M), "len(m)")
	for k, v := range n.M {
		ov, ok := o.M[k]
		A(ok, "m key")
		if ok {
			A(ov.A == v.A, "m[k].a")
		}
	}
}

// H_C09_new_to_old: data written by the newer schema is read by the older one.
func H_C09_new_to_old() {
	n := zzNewRoot()
	o := od.NewRoot()
	err := o.Read(zzProto(zzBytes(n)))
	zzrt.Assert(err == nil, "the older version reads data of the newer version without error")
	zzCommonEq(o, n, "old.Read(new.Write(v))")
	zzrt.Cover("end")
}

// H_C09_old_to_new: data of the older schema is read by the newer one; added fields take defaults.
func H_C09_old_to_new() {
	o := zzOldRoot()
	n := nw.NewRoot()
	err := n.Read(zzProto(zzBytes(o)))
	zzrt.Assert(err == nil, "the newer version reads data of the older version without error")
	zzCommonEq(o, n, "new.Read(old.Write(w))")
	zzrt.Assert(n.Added == nil && n.Extra == nil && n.Mm == nil && n.Dd == 1.5 && n.Oin == nil, "added fields take their defaults")
	zzrt.Assert(n.Inn.B == nil && n.Inn.C == nil, "added nested fields take their defaults")
	// added fields WITH a declared default, at every place a struct of the older data can sit:
	// a plain field, a list element, a map value
	dflt := func(in *nw.Inner, where string) {
		zzrt.Assert(in != nil, where)
		zzrt.Assert(!in.IsSetTag() && in.GetTag() == "none", where+": an added optional field with a default is unset and its getter gives the default")
	}
	dflt(n.Inn, "struct field")
	for _, e := range n.Li {
		dflt(e, "list element")
	}
	for _, e := range n.M {
		dflt(e, "map value")
	}
	zzrt.Assert(len(n.Li) == 1 && len(n.M) == 1, "containers of the older data")
	zzrt.Cover("end")
}

// H_C09_chain: new -> old -> new keeps every common field (added ones are lost unless kept, see H_C09_keep).
func H_C09_chain() {
	n := zzNewRoot()
	// a union whose only member is unknown to the older code cannot be re-written by it
	// (without keep_unknown_fields): outside what the statement promises
	zzrt.Assume(n.Arm == nil || n.Arm.Y == nil)
	o := od.NewRoot()
	zzrt.Assert(o.Read(zzProto(zzBytes(n))) == nil, "hop 1")
	n2 := nw.NewRoot()
	zzrt.Assert(n2.Read(zzProto(zzBytes(o))) == nil, "hop 2")
	zzCommonEq(o, n2, "chain")
	o2 := od.NewRoot()
	zzrt.Assert(o2.Read(zzProto(zzBytes(n2))) == nil, "hop 3")
	zzCommonEq(o2, n, "chain of three")
	zzrt.Cover("end")
}

func D_C09_1() string {
	s, b, x := "ss", "b", int32(7)
	n := nw.NewRoot()
	n.R, n.S, n.E = 5, &s, nw.E_B
	n.Inn = &nw.Inner{A: 1, B: &b, C: []int32{1, 2}}
	n.Li = []*nw.Inner{{A: 2}}
	n.Arm = &nw.Arm{X: &x}
	n.M = map[string]*nw.Inner{"k": {A: 3}}
	n.Extra = &nw.Inner{A: 4}
	o := od.NewRoot()
	err := o.Read(zzProto(zzBytes(n)))
	out := ""
	if err != nil {
		out = "ERR"
	}
	for _, c := range zzBytes(o) {
		out += string([]byte{"0123456789abcdef"[c>>4], "0123456789abcdef"[c&15]})
	}
	return out
}
