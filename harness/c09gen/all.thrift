namespace go c09.all
include "old.thrift"
include "new.thrift"
struct Pair { 1: old.Root o, 2: new.Root n }
