namespace go c09.old
enum E { A = 1 }
struct Inner { 1: i32 a }
union Arm { 1: i32 x }
struct Root {
  1: required i32 r
  2: optional string s
  3: Inner inn
  4: list<Inner> li
  5: E e
  6: optional Arm arm
  7: map<string, Inner> m
}
