namespace go c09.new
enum E { A = 1, B = 2 }
struct Inner { 1: i32 a, 2: optional string b, 3: optional list<i32> c, 4: optional bool flag, 5: optional map<string, i32> cnt, 6: optional map<i32, string> names, 8: optional string tag = "none" }
struct Empty {}
union Arm { 1: i32 x, 2: string y }
struct Root {
  1: required i32 r
  2: optional string s
  3: Inner inn
  4: list<Inner> li
  5: E e
  6: optional Arm arm
  7: map<string, Inner> m
  8: optional i64 added
  9: Inner extra
  10: map<i32, list<string>> mm
  11: optional double dd = 1.5
  12: optional Inner oin
  13: optional bool nb
  14: optional byte ny
  15: optional i16 ns
  16: optional E ne
  17: optional binary nbin
  18: optional set<i64> nset
  19: optional Empty emp
}
