//zz:target plugin
package plugin

import (
	"strings"

	"github.com/cloudwego/thriftgo/parser"
	"github.com/cloudwego/thriftgo/semantic"

	zzrt "github.com/cloudwego/thriftgo/internal/zzverifrt"
	_ "github.com/cloudwego/thriftgo/internal/zzskip"
)

// ---- value provider of the generated builders (zz_structs.go) ---------------------------------
//
// mode 0: every optional member absent, every container empty
// mode 1: every optional member present, every container of length 1
// mode 2, 3: alternating patterns (containers of length 0..2)
// mode 4: the members of the root node are symbolic (presence bits and lengths 0..1 are
//         decision variables), nested nodes follow pattern 2
type zzC struct {
	mode int
	seq  int
}

func (c *zzC) pattern(path string) int {
	if c.mode == 4 {
		if strings.Count(path, ".") <= 1 {
			return 4
		}
		return 2
	}
	return c.mode
}

func (c *zzC) opt(path string) bool {
	c.seq++
	switch c.pattern(path) {
	case 0:
		return false
	case 1:
		return true
	case 2:
		return c.seq%2 == 0
	case 3:
		return c.seq%2 == 1
	}
	return zzrt.Bool(path + "?")
}

// bool: every symbolic bool forks the codec (if v { 1 } else { 0 }); only the root node's are
// symbolic, the others alternate
func (c *zzC) bool(path string) bool {
	c.seq++
	if strings.Count(path, ".") <= 1 {
		return zzrt.Bool(path)
	}
	return c.seq%2 == 0
}

func (c *zzC) n(path string, d int) int {
	if d <= 0 {
		return 0
	}
	c.seq++
	switch c.pattern(path) {
	case 0:
		return 0
	case 1:
		return 1
	case 2:
		return c.seq % 3
	case 3:
		return (c.seq + 1) % 3
	}
	return zzrt.Choose(path+"#", 2)
}

func (c *zzC) str(path string) string {
	c.seq++
	return zzrt.String(path, c.seq%3)
}

func zzDec(d int) int {
	if d > 0 {
		return d - 1
	}
	return 0
}

func zzItoa(i int) string {
	if i == 0 {
		return "0"
	}
	s := ""
	for ; i > 0; i /= 10 {
		s = string(rune('0'+i%10)) + s
	}
	return s
}

// ---- codec round trips over arbitrary nodes -----------------------------------------------------

type zzNode interface {
	FastAppend(b []byte) []byte
	FastRead(b []byte) (int, error)
	BLength() int
}

func zzRoundTrip(a, b zzNode, what string) {
	bs := a.FastAppend(nil)
	zzrt.Assert(a.BLength() == len(bs), what+": BLength states the encoded size")
	n, err := b.FastRead(bs)
	zzrt.Assert(err == nil, what+": the encoding of a node decodes without error")
	zzrt.Assert(n == len(bs), what+": decoding consumes the whole encoding")
}

// H_C11_node: every AST / protocol node type alone, at recursion depth 2.
func H_C11_node(ti int, mode int) {
	c := &zzC{mode: mode}
	zzNodeCase(c, ti)
	zzrt.Cover("end")
}

// H_C11_request: a whole request with an arbitrary AST of include depth 2.
func H_C11_request(mode int) {
	c := &zzC{mode: mode}
	req := zzSym_Request(c, 3, "req")
	bs, err := MarshalRequest(req)
	zzrt.Assert(err == nil, "MarshalRequest")
	got, err := UnmarshalRequest(bs)
	zzrt.Assert(err == nil, "UnmarshalRequest of a marshalled request")
	zzEq_Request(req, got, "req")
	zzrt.Assert(!hasDataTrailerFeature(bs, featureCompressInclude), "a request without trailer is not taken for one with the trailer")
	zzrt.Cover("end")
}

func H_C11_response(mode int) {
	c := &zzC{mode: mode}
	res := zzSym_Response(c, 2, "res")
	bs, err := MarshalResponse(res)
	zzrt.Assert(err == nil, "MarshalResponse")
	got, err := UnmarshalResponse(bs)
	zzrt.Assert(err == nil, "UnmarshalResponse of a marshalled response")
	zzEq_Response(res, got, "res")
	zzrt.Cover("end")
}

// H_C11_truncated: partial plugin output. Every strict prefix of a valid response is
// rejected (the plugin died while writing) and never panics.
func H_C11_truncated(mode int) {
	c := &zzC{mode: mode}
	res := zzSym_Response(c, 2, "res")
	bs, _ := MarshalResponse(res)
	k := zzrt.Choose("cut", len(bs))
	_, err := UnmarshalResponse(bs[:k])
	zzrt.Assert(err != nil, "a truncated response is rejected")
	zzrt.Cover("end")
}

// H_C11_garbled: arbitrary bytes never crash the decoder.
func H_C11_garbled(n int) {
	bs := zzrt.Bytes("b", n)
	res, err := UnmarshalResponse(bs)
	zzrt.Assert((res == nil) == (err != nil), "UnmarshalResponse returns either a response or an error")
	zzrt.Cover("end")
}

// ---- the compiler's own ASTs --------------------------------------------------------------------

var zzPrograms = []map[string]string{
	// 0: diamond include graph, every definition kind, resolution results
	{
		"main.thrift": `include "l.thrift"
include "r.thrift"
include "dir/deep.thrift"
namespace go main.pkg
namespace * star
cpp_include "x.h"
typedef l.L LL (a = "1", a = "2")
typedef map<string, list<r.R>> M
const i32 CI = 7
const double CD = 1.5
const string CS = "s\"q"
const list<i32> CL = [1, 2, CI]
const map<string, E> CM = {"a": E.A, "b": 1}
const l.L CST = {"v": 3}
const bool CB = true
enum E { A = 1 (x = "y"), B }
struct S {
  1: required i32 a = 5 (go.tag = "t")
  2: optional LL b
  3: M c
  -4: deep.D d
  5: set<binary> e
} (k = "v")
union U { 1: i32 x; 2: string y }
exception X { 1: string msg }
service Base { void ping() }
service Svc extends Base {
  S call(1: S req, 2: l.L l) throws (1: X x)
  oneway void fire(1: i64 n)
  // comment
  list<E> es() (ann = "m")
} (sa = "sv")
service Svc2 extends l.LS { }
`,
		"l.thrift": `include "base.thrift"
namespace go l.pkg
struct L { 1: i32 v; 2: base.B b }
service LS { void lping() }
`,
		"r.thrift": `include "base.thrift"
struct R { 1: base.B b }
`,
		"base.thrift": `struct B { 1: string s = "d" }
`,
		"dir/deep.thrift": `include "../base.thrift"
struct D { 1: base.B b }
`,
	},
	// 1: no includes, unset optionals
	{
		"main.thrift": `struct Empty {}
enum None {}
service Nop {}
`,
	},
	// 2: the same file included along three routes, three levels deep
	{
		"main.thrift": `include "a.thrift"
include "b.thrift"
include "c.thrift"
struct M { 1: a.A a; 2: b.B b; 3: c.C c }
`,
		"a.thrift": `include "b.thrift"
include "c.thrift"
struct A { 1: b.B b; 2: c.C c }
`,
		"b.thrift": `include "c.thrift"
struct B { 1: c.C c }
`,
		"c.thrift": `struct C { 1: i32 v }
`,
	},
}

func zzCompile(i int) *parser.Thrift {
	ast, err := parser.ParseBatchString("main.thrift", zzPrograms[i], nil)
	if err != nil {
		panic("corpus does not parse: " + err.Error())
	}
	if _, err := semantic.NewChecker(semantic.Options{FixWarnings: true}).CheckAll(ast); err != nil {
		panic("corpus rejected: " + err.Error())
	}
	if err := semantic.ResolveSymbols(ast); err != nil {
		panic("corpus does not resolve: " + err.Error())
	}
	return ast
}

func zzRequestFor(ast *parser.Thrift) *Request {
	return &Request{
		Version:             zzrt.String("version", 3),
		GeneratorParameters: []string{zzrt.String("gp0", 2), zzrt.String("gp1", 0), "k=v"},
		PluginParameters:    []string{zzrt.String("pp0", 1), "a=b", "a=b"},
		Language:            "go",
		OutputPath:          zzrt.String("out", 2),
		Recursive:           zzrt.Bool("rec"),
		AST:                 ast,
	}
}

// zzSharing lists, for every include edge in DFS order, the identity of the *Thrift it
// leads to (index of first visit): equal lists = same include graph with the same sharing.
func zzSharing(ast *parser.Thrift) string {
	var seen []*parser.Thrift
	var sb strings.Builder
	var walk func(p *parser.Thrift)
	walk = func(p *parser.Thrift) {
		for _, inc := range p.Includes {
			idx := -1
			for i, s := range seen {
				if s == inc.Reference {
					idx = i
				}
			}
			if idx < 0 {
				seen = append(seen, inc.Reference)
				sb.WriteString("n" + zzItoa(len(seen)-1) + ":" + inc.Reference.Filename + "(")
				walk(inc.Reference)
				sb.WriteString(")")
			} else {
				sb.WriteString("r" + zzItoa(idx) + " ")
			}
		}
	}
	walk(ast)
	return sb.String()
}

// H_C11_parsed: what the plugin decodes equals what the compiler built, without and with
// include compression (compress: the steps of external.Execute around MarshalRequest).
func H_C11_parsed(prog int, compress int) {
	ast := zzCompile(prog)
	req := zzRequestFor(ast)
	before := zzSharing(ast)
	var bs []byte
	if compress == 1 {
		m := map[string]*parser.Thrift{}
		compressThriftInclude(req.AST, m)
		bs, _ = MarshalRequest(req)
		bs = appendDataTrailer(bs, featureCompressInclude)
		decompressThriftInclude(req.AST, m) // the revert of Execute
		zzrt.Assert(zzSharing(ast) == before, "the compiler's AST is restored after the request was sent")
		zzrt.Assert(hasDataTrailerFeature(bs, featureCompressInclude), "the trailer announces the compression")
	} else {
		bs, _ = MarshalRequest(req)
		zzrt.Assert(!hasDataTrailerFeature(bs, featureCompressInclude), "no trailer")
	}
	got, err := UnmarshalRequest(bs)
	zzrt.Assert(err == nil, "UnmarshalRequest")
	zzEq_Request(req, got, "req")
	if compress == 1 {
		zzrt.Assert(zzSharing(got.AST) == before, "shared includes are shared again after decompression")
		// and the compressed form is really smaller when something is shared
		plain, _ := MarshalRequest(req)
		zzrt.Assert(len(bs) <= len(plain)+1+len(pluginDataTrailer), "compression never grows the request")
	}
	zzrt.Cover("end")
}

// ---- option strings -----------------------------------------------------------------------------

// reference: name[:opt[,opt]*], opt = key[=value]; split at the first ':' and the first '='
func zzRefCompact(s string) (name string, opts []Option, hasOpts bool) {
	i := 0
	for i < len(s) && s[i] != ':' {
		i++
	}
	name = s[:i]
	if i == len(s) {
		return name, nil, false
	}
	rest := s[i+1:]
	start := 0
	for j := 0; j <= len(rest); j++ {
		if j == len(rest) || rest[j] == ',' {
			item := rest[start:j]
			k := 0
			for k < len(item) && item[k] != '=' {
				k++
			}
			if k == len(item) {
				opts = append(opts, Option{Name: item})
			} else {
				opts = append(opts, Option{Name: item[:k], Desc: item[k+1:]})
			}
			start = j + 1
		}
	}
	return name, opts, true
}

func H_C11_compact(n int) {
	s := zzrt.String("s", n)
	d, err := ParseCompactArguments(s)
	if n == 0 {
		zzrt.Assert(err != nil && d == nil, "the empty string is rejected")
		zzrt.Cover("end")
		return
	}
	zzrt.Assert(err == nil && d != nil, "a non-empty option string is accepted")
	name, opts, _ := zzRefCompact(s)
	zzrt.Assert(d.Name == name, "plugin name")
	zzrt.Assert(len(d.Options) == len(opts), "number of options")
	for i := range opts {
		if i < len(d.Options) {
			zzrt.Assert(d.Options[i].Name == opts[i].Name && d.Options[i].Desc == opts[i].Desc, "option "+zzItoa(i)+" in command-line order")
		}
	}
	packed := Pack(d.Options)
	zzrt.Assert(len(packed) == len(opts), "Pack keeps every option")
	for i := range opts {
		if i < len(packed) {
			zzrt.Assert(packed[i] == opts[i].Name+"="+opts[i].Desc, "Pack keeps the order and the key=value form")
		}
	}
	zzrt.Cover("end")
}

// H_C11_version: supportDataTrailer(v) <=> v is vMAJOR.MINOR.PATCH[-suffix] >= v0.4.2
func H_C11_version(shape int) {
	dig := func(name string) (string, int) {
		b := zzrt.Byte(name)
		zzrt.Assume(b >= '0' && b <= '9')
		return string(rune(b)), int(b - '0')
	}
	a, ma := dig("major")
	b, mi := dig("minor")
	c, pa := dig("patch")
	var v string
	want := ma > 0 || mi > 4 || (mi == 4 && pa >= 2)
	switch shape {
	case 0:
		v = "v" + a + "." + b + "." + c
	case 1:
		v = "v" + a + "." + b + "." + c + "-0.20240101000000-abcdef012345"
	case 2: // two-digit patch
		d, pb := dig("patch2")
		v = "v" + a + "." + b + "." + c + d
		want = ma > 0 || mi > 4 || (mi == 4 && pa*10+pb >= 2)
	case 3: // not a released version
		v = a + "." + b + "." + c
		want = false
	case 4:
		v = "v" + a + "." + b
		want = false
	case 5:
		v = ""
		want = false
	case 6:
		v = "(devel)"
		want = false
	}
	zzrt.Assert(supportDataTrailer(v) == want, "supportDataTrailer("+v+")")
	zzrt.Cover("end")
}

// H_C11_trailer: the trailer is recognised on arbitrary payloads, and only there.
func H_C11_trailer(n int) {
	data := zzrt.Bytes("d", n)
	f := zzrt.Byte("feature")
	withT := appendDataTrailer(append([]byte(nil), data...), f)
	zzrt.Assert(hasDataTrailerFeature(withT, featureCompressInclude) == (f&featureCompressInclude != 0), "feature bit read back")
	zzrt.Assert(len(withT) == n+1+len(pluginDataTrailer), "trailer length")
	// a thrift struct encoding ends with STOP (0); it can never be mistaken for a trailer
	if n > 0 {
		data[n-1] = 0
		zzrt.Assert(!hasDataTrailerFeature(data, featureCompressInclude), "no trailer on a plain encoding")
	}
	zzrt.Cover("end")
}

// ---- concrete differential (engine vs native build) -----------------------------------------------

func zzSum(bs []byte) string {
	s := 0
	for i, b := range bs {
		_ = i
		s += int(b)
	}
	return zzItoa(len(bs)) + "/" + zzItoa(s)
}

// D_C11_corpus: order-independent digests of the marshalled requests (the Name2Category map is
// written in map order), the sharing structure after a round trip, and the small kernels.
func D_C11_corpus() string {
	var sb strings.Builder
	for i := range zzPrograms {
		ast := zzCompile(i)
		req := &Request{Version: "0.4.1", GeneratorParameters: []string{"a=b", "c="}, PluginParameters: []string{"x=y"}, Language: "go", OutputPath: "gen", Recursive: true, AST: ast}
		bs, _ := MarshalRequest(req)
		m := map[string]*parser.Thrift{}
		compressThriftInclude(req.AST, m)
		cs, _ := MarshalRequest(req)
		cs = appendDataTrailer(cs, featureCompressInclude)
		got, err := UnmarshalRequest(cs)
		sb.WriteString(zzSum(bs) + " " + zzSum(cs) + " ")
		if err != nil {
			sb.WriteString("ERR " + err.Error())
		} else {
			sb.WriteString(zzSharing(got.AST))
		}
		sb.WriteString("\n")
	}
	for _, v := range []string{"v0.4.2", "v0.4.1", "v0.3.99", "v1.0.0", "v0.10.0", "v0.4.2-0.2024-abc", "0.4.2", "v0.4", "", "(devel)", "v0.4.x", "vv.4.2", "v0.4.2.1"} {
		if supportDataTrailer(v) {
			sb.WriteString("1")
		} else {
			sb.WriteString("0")
		}
	}
	for _, s := range []string{"p", "p:", "p:a", "p:a=b,c,d=e=f", ":x", "a:b:c", "p:,,", "p=/x/y:k=v"} {
		d, err := ParseCompactArguments(s)
		if err != nil {
			sb.WriteString("\nERR")
			continue
		}
		sb.WriteString("\n" + d.Name + "|" + strings.Join(Pack(d.Options), ";"))
	}
	_, err := UnmarshalResponse([]byte{11, 0, 1, 0, 0, 0, 9, 'x'})
	if err != nil {
		sb.WriteString("\n" + err.Error())
	}
	return sb.String()
}
