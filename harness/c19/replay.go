//zz:target generator
package generator

import (
	"encoding/json"
	"fmt"
	"os"
	"runtime"
	"strconv"
	"strings"
	"sync"
	"time"

	"github.com/cloudwego/thriftgo/generator/backend"
	zzrt "github.com/cloudwego/thriftgo/internal/zzverifrt"
)

// zzSequencer makes environment callbacks follow the model's order as far as the real
// schedule allows (a callback whose turn does not come within the patience proceeds anyway).
type zzSequencer struct {
	mu       sync.Mutex
	order    []string
	done     map[string]bool
	patience time.Duration
	log      []string
	returned bool
}

func (s *zzSequencer) wait(ev string) {
	deadline := time.Now().Add(s.patience)
	for {
		s.mu.Lock()
		ready := true
		for _, o := range s.order {
			if o == ev {
				break
			}
			if !s.done[o] {
				ready = false
				break
			}
		}
		known := false
		for _, o := range s.order {
			if o == ev {
				known = true
			}
		}
		if ready || !known || time.Now().After(deadline) {
			s.done[ev] = true
			s.log = append(s.log, ev)
			s.mu.Unlock()
			return
		}
		s.mu.Unlock()
		time.Sleep(2 * time.Millisecond)
	}
}

type zzReplayPP struct {
	seq  *zzSequencer
	fail []bool
}

func (p *zzReplayPP) PostProcess(path string, content []byte) ([]byte, error) {
	j, _ := strconv.Atoi(strings.TrimPrefix(path, "path"))
	p.seq.wait("pp:" + strconv.Itoa(j))
	if j < len(p.fail) && p.fail[j] {
		return nil, zzErr
	}
	return content, nil
}

// zzRandSched is a randomised token scheduler over the Yield points of the instrumented
// OnFinished: at most one goroutine runs between two scheduling decisions; a goroutine that
// does not come back to a yield point within a short time is taken to be blocked or finished.
type zzRandSched struct {
	mu      sync.Mutex
	waiting map[string]chan struct{}
	arrive  chan struct{}
	rng     uint64
	stop    bool
}

func (s *zzRandSched) yield(thread string) {
	s.mu.Lock()
	if s.stop {
		s.mu.Unlock()
		return
	}
	ch := make(chan struct{})
	s.waiting[thread] = ch
	s.mu.Unlock()
	select {
	case s.arrive <- struct{}{}:
	default:
	}
	select {
	case <-ch:
	case <-time.After(300 * time.Millisecond):
	}
}

func (s *zzRandSched) loop(done chan struct{}) {
	for {
		select {
		case <-done:
			s.mu.Lock()
			s.stop = true
			for _, ch := range s.waiting {
				close(ch)
			}
			s.waiting = map[string]chan struct{}{}
			s.mu.Unlock()
			return
		case <-s.arrive:
		case <-time.After(time.Millisecond):
		}
		// let stragglers arrive
		time.Sleep(200 * time.Microsecond)
		s.mu.Lock()
		if len(s.waiting) > 0 {
			names := make([]string, 0, len(s.waiting))
			for n := range s.waiting {
				names = append(names, n)
			}
			// deterministic order, then pseudo random pick
			for i := 1; i < len(names); i++ {
				for j := i; j > 0 && names[j] < names[j-1]; j-- {
					names[j], names[j-1] = names[j-1], names[j]
				}
			}
			s.rng = s.rng*6364136223846793005 + 1442695040888963407
			pick := names[int((s.rng>>33)%uint64(len(names)))]
			close(s.waiting[pick])
			delete(s.waiting, pick)
		}
		s.mu.Unlock()
	}
}

// ZZReplayC19 searches, over randomised schedules of the instrumented real code, for a run that
// shows the property violated in the model (environment callbacks follow the model's order).
func ZZReplayC19() string {
	last := ""
	for attempt := 0; attempt < 400; attempt++ {
		sched := &zzRandSched{waiting: map[string]chan struct{}{}, arrive: make(chan struct{}, 1), rng: uint64(attempt)*2654435761 + 12345}
		done := make(chan struct{})
		zzrt.YieldHook = sched.yield
		go sched.loop(done)
		last = zzReplayC19Once()
		close(done)
		zzrt.YieldHook = nil
		if strings.Contains(last, "P1:") || strings.Contains(last, "P2:") || strings.Contains(last, "P3:") || strings.Contains(last, "P4:") || strings.Contains(last, "P5") {
			return last + fmt.Sprintf(" (randomised schedule #%d)", attempt)
		}
	}
	return last
}

func zzReplayC19Once() string {
	b, err := os.ReadFile(os.Getenv("ZZVERIF_MODEL"))
	if err != nil {
		return "no model: " + err.Error()
	}
	var m zzReplayModel
	if err := json.Unmarshal(b, &m); err != nil {
		return "bad model: " + err.Error()
	}
	seq := &zzSequencer{order: m.EnvOrder, done: map[string]bool{}, patience: 60 * time.Millisecond}
	var pp backend.PostProcessor
	if m.WithPP {
		pp = &zzReplayPP{seq: seq, fail: m.FailPP}
	}
	p := &asyncPostProcess{pp: pp, concurrency: m.K}
	for j := 0; j < m.J; j++ {
		p.Add("path"+strconv.Itoa(j), "content"+strconv.Itoa(j))
	}
	var mu sync.Mutex
	written := make([]int, m.J)
	wrong := ""
	inflight := 0
	afterReturn := 0
	returned := false
	failedRun := false
	before := runtime.NumGoroutine()
	type result struct{ err error }
	resc := make(chan result, 1)
	panicc := make(chan string, 1)
	go func() {
		defer func() {
			if r := recover(); r != nil {
				panicc <- fmt.Sprint(r)
			}
		}()
		err := p.OnFinished(func(path string, content []byte) error {
			j, _ := strconv.Atoi(strings.TrimPrefix(path, "path"))
			seq.wait("fbegin:" + strconv.Itoa(j))
			mu.Lock()
			inflight++
			if returned {
				afterReturn++
			}
			if string(content) != "content"+strconv.Itoa(j) {
				wrong = fmt.Sprintf("job %d written with content %q", j, content)
			}
			mu.Unlock()
			seq.wait("fend:" + strconv.Itoa(j))
			mu.Lock()
			defer mu.Unlock()
			inflight--
			if returned {
				afterReturn++
			}
			if j < len(m.FailF) && m.FailF[j] {
				failedRun = true
				return zzErr
			}
			written[j]++
			return nil
		})
		resc <- result{err}
	}()
	var out []string
	select {
	case r := <-resc:
		mu.Lock()
		returned = true
		infl := inflight
		mu.Unlock()
		seq.mu.Lock()
		seq.done["return"] = true
		seq.mu.Unlock()
		time.Sleep(80 * time.Millisecond)
		mu.Lock()
		defer mu.Unlock()
		if r.err == nil {
			out = append(out, "returned=nil")
			for j, w := range written {
				if w != 1 {
					out = append(out, fmt.Sprintf("P2:job%d-written-%d-times", j, w))
				}
			}
			if failedRun {
				out = append(out, "P3:failure-lost")
			}
			for j, f := range m.FailPP {
				if m.WithPP && f && j < m.J && seq.done["pp:"+strconv.Itoa(j)] {
					out = append(out, "P3:pp-failure-lost")
				}
			}
		} else {
			out = append(out, "returned=error")
		}
		if infl > 0 || afterReturn > 0 {
			out = append(out, fmt.Sprintf("P4:write-in-flight-at-return(inflight=%d,after=%d)", infl, afterReturn))
		}
		for j, w := range written {
			if w > 1 {
				out = append(out, fmt.Sprintf("P5a:job%d-written-twice", j))
			}
		}
		if wrong != "" {
			out = append(out, "P2:"+wrong)
		}
		if n := runtime.NumGoroutine(); n > before+1 {
			out = append(out, fmt.Sprintf("P5c:goroutines-left-blocked(%d)", n-before-1))
		}
	case msg := <-panicc:
		out = append(out, "P5b:panic:"+msg)
	case <-time.After(2 * time.Second):
		out = append(out, "P1:deadlock(OnFinished did not return within 2s)")
	}
	return strings.Join(out, " ")
}
