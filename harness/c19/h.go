//zz:target generator
package generator

import (
	"errors"
	"sort"
	"strconv"
	"strings"
	"sync"

	"github.com/cloudwego/thriftgo/generator/backend"

	zzrt "github.com/cloudwego/thriftgo/internal/zzverifrt"
)

var zzErr = errors.New("injected failure")

type zzPP struct{}

func (zzPP) PostProcess(path string, content []byte) ([]byte, error) {
	if zzrt.EnvCall("pp|" + path + "|" + string(content)) {
		return nil, zzErr
	}
	return content, nil
}

// H_C19_extract runs asyncPostProcess.OnFinished in the executor's thread-modular recording
// mode: J jobs, post-processor present or not, concurrency K (as returned by GOMAXPROCS).
func H_C19_extract(J, withPP, K int) {
	zzrt.Record(true)
	var pp backend.PostProcessor
	if withPP == 1 {
		pp = zzPP{}
	}
	p := &asyncPostProcess{pp: pp, concurrency: K}
	for j := 0; j < J; j++ {
		p.Add("path"+strconv.Itoa(j), "content"+strconv.Itoa(j))
	}
	err := p.OnFinished(func(path string, content []byte) error {
		if zzrt.EnvCall("f|" + path + "|" + string(content)) {
			return zzErr
		}
		return nil
	})
	zzrt.RecReturn(err != nil)
}

func D_C19_1() string {
	calls := ""
	var mu sync.Mutex
	var got []string
	p := &asyncPostProcess{concurrency: 1}
	p.Add("a", "1")
	p.Add("b", "2")
	err := p.OnFinished(func(path string, content []byte) error {
		mu.Lock()
		got = append(got, path+string(content)+";")
		mu.Unlock()
		return nil
	})
	// the set of writes, not their order (which a schedule may choose), is compared
	sort.Strings(got)
	calls = strings.Join(got, "")
	if err != nil {
		calls += "ERR"
	}
	p2 := &asyncPostProcess{concurrency: 1}
	p2.Add("a", "1")
	err = p2.OnFinished(func(path string, content []byte) error { return zzErr })
	if err != nil {
		calls += "E2"
	}
	return calls
}

// ---------------------------------------------------------------------------------------------
// native replay of a schedule found by the SMT model

type zzReplayModel struct {
	J        int      `json:"J"`
	WithPP   bool     `json:"with_pp"`
	K        int      `json:"K"`
	FailPP   []bool   `json:"fail_pp"`
	FailF    []bool   `json:"fail_f"`
	EnvOrder []string `json:"env_order"` // e.g. "pp:0", "fbegin:1", "fend:1", "return"
}
