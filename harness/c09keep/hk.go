package all

import (
	nw "zzgen/c09/new"
	od "zzgen/c09/old"

	zzrt "zzgen/internal/zzverifrt"
)

func zzInnerEq(a, b *nw.Inner, what string) {
	A := func(c bool, m string) { zzrt.Assert(c, what+": "+m) }
	A((a == nil) == (b == nil), "presence")
	if a == nil || b == nil {
		return
	}
	A(a.A == b.A, "a")
	A((a.B == nil) == (b.B == nil), "presence of b")
	if a.B != nil && b.B != nil {
		A(*a.B == *b.B, "b")
	}
	A((a.C == nil) == (b.C == nil) && len(a.C) == len(b.C), "presence/length of c")
	for i := range a.C {
		if i < len(b.C) {
			A(a.C[i] == b.C[i], "c[i]")
		}
	}
}

// H_C09_keep: with keep_unknown_fields the older code re-writes everything: the newer schema
// decodes the re-written bytes to the original value, and CarryingUnknownFields is exact.
func H_C09_keep() {
	n := zzNewRoot()
	o := od.NewRoot()
	zzrt.Assert(o.Read(zzProto(zzBytes(n))) == nil, "old reads new")
	zzCommonEq(o, n, "old.Read(new.Write(v))")
	n2 := nw.NewRoot()
	zzrt.Assert(n2.Read(zzProto(zzBytes(o))) == nil, "new reads what old re-wrote")
	A := zzrt.Assert
	A(n2.R == n.R, "r")
	A((n2.S == nil) == (n.S == nil) && (n.S == nil || *n2.S == *n.S), "s")
	zzInnerEq(n2.Inn, n.Inn, "inn")
	A(len(n2.Li) == len(n.Li), "len(li)")
	if len(n2.Li) == len(n.Li) {
		for i := range n.Li {
			zzInnerEq(n2.Li[i], n.Li[i], "li[i]")
		}
	}
	A(int64(n2.E) == int64(n.E), "e")
	A((n2.Arm == nil) == (n.Arm == nil), "presence of arm")
	if n.Arm != nil && n2.Arm != nil {
		A((n2.Arm.X == nil) == (n.Arm.X == nil) && (n.Arm.X == nil || *n2.Arm.X == *n.Arm.X), "arm.x")
		A((n2.Arm.Y == nil) == (n.Arm.Y == nil) && (n.Arm.Y == nil || *n2.Arm.Y == *n.Arm.Y), "arm.y (member unknown to the older code)")
	}
	A(len(n2.M) == len(n.M), "len(m)")
	for k, v := range n.M {
		zzInnerEq(n2.M[k], v, "m[k]")
	}
	A((n2.Added == nil) == (n.Added == nil) && (n.Added == nil || *n2.Added == *n.Added), "added")
	zzInnerEq(n2.Extra, n.Extra, "extra")
	A(len(n2.Mm) == len(n.Mm), "len(mm)")
	for k, v := range n.Mm {
		w, ok := n2.Mm[k]
		A(ok && len(w) == len(v) && (len(v) == 0 || w[0] == v[0]), "mm[k]")
	}
	dn, d2 := n.Dd, n2.Dd
	A(dn != dn || d2 == dn, "dd")
	// carrying: the nested Inner carries unknown fields exactly when b or c was present
	A(o.Inn.CarryingUnknownFields() == (n.Inn.B != nil || n.Inn.C != nil || n.Inn.IsSetTag()), "nested struct reports unknown fields exactly when it carries them")
	A(o.CarryingUnknownFields(), "root carries the added default-requiredness fields")
	if n.Arm != nil {
		A(o.Arm != nil && o.Arm.CarryingUnknownFields() == (n.Arm.Y != nil), "union reports the unknown member")
	}
	zzrt.Cover("end")
}

// H_C09_keep_none: data of the same version carries nothing unknown.
func H_C09_keep_none() {
	o := zzOldRoot()
	o2 := od.NewRoot()
	zzrt.Assert(o2.Read(zzProto(zzBytes(o))) == nil, "old reads old")
	zzrt.Assert(!o2.CarryingUnknownFields() && !o2.Inn.CarryingUnknownFields(), "nothing unknown in data of the same version")
	zzrt.Cover("end")
}


// H_C09_keep_long: an added (unknown to the older code) list of n elements, n around the
// nesting budget of the unknown-field codec, survives read + re-write by the older code.
func H_C09_keep_long(n int) {
	nr := nw.NewRoot()
	nr.R = zzrt.Int32("r")
	c := make([]int32, n)
	for i := range c {
		c[i] = int32(i)
	}
	c[0], c[n-1] = zzrt.Int32("first"), zzrt.Int32("last")
	nr.Inn = &nw.Inner{A: 1, C: c}
	nr.Extra = &nw.Inner{A: 2, C: c[:n/2]}
	mm := map[int32][]string{}
	var strs []string
	for i := 0; i < n; i++ {
		strs = append(strs, "s")
	}
	mm[5] = strs
	nr.Mm = mm
	o := od.NewRoot()
	zzrt.Assert(o.Read(zzProto(zzBytes(nr))) == nil, "the older version reads a long unknown list without error")
	n2 := nw.NewRoot()
	zzrt.Assert(n2.Read(zzProto(zzBytes(o))) == nil, "the newer version reads what the older version re-wrote")
	zzrt.Assert(len(n2.Inn.C) == n && n2.Inn.C[0] == c[0] && n2.Inn.C[n-1] == c[n-1] && n2.Inn.C[n/2] == int32(n/2), "long list preserved")
	zzrt.Assert(n2.Extra != nil && len(n2.Extra.C) == n/2, "long list inside an unknown struct preserved")
	zzrt.Assert(len(n2.Mm[5]) == n, "long list inside an unknown map preserved")
	zzrt.Cover("end")
}


// H_C09_keep_kinds: every kind of added field, each of them possibly the LAST unknown field of its
// struct (a bool, a byte and an empty struct are the shortest stored forms), survives read +
// re-write by the older code.
func H_C09_keep_kinds() {
	n := nw.NewRoot()
	n.R = zzrt.Int32("r")
	n.Inn = &nw.Inner{A: zzrt.Int32("a")}
	if zzrt.Bool("set") {
		f := zzrt.Bool("flag")
		n.Inn.Flag = &f
	}
	n.Extra = &nw.Inner{A: 1}
	if zzrt.Bool("set") {
		v := zzrt.Bool("nb")
		n.Nb = &v
	}
	if zzrt.Bool("set") {
		v := zzrt.Int8("ny")
		n.Ny = &v
	}
	if zzrt.Bool("set") {
		v := zzrt.Int16("ns")
		n.Ns = &v
	}
	if zzrt.Bool("set") {
		v := nw.E(zzrt.Int32("ne"))
		n.Ne = &v
	}
	if zzrt.Bool("set") {
		n.Nbin = zzrt.Bytes("nbin", 1)
	}
	if zzrt.Bool("set") {
		n.Nset = []int64{zzrt.Int64("nset")}
	}
	if zzrt.Bool("set") {
		n.Emp = &nw.Empty{}
	}
	o := od.NewRoot()
	zzrt.Assert(o.Read(zzProto(zzBytes(n))) == nil, "old reads new")
	n2 := nw.NewRoot()
	zzrt.Assert(n2.Read(zzProto(zzBytes(o))) == nil, "new reads what old re-wrote")
	A := zzrt.Assert
	A(n2.R == n.R && n2.Inn != nil && n2.Inn.A == n.Inn.A, "common fields")
	A((n2.Inn.Flag == nil) == (n.Inn.Flag == nil) && (n.Inn.Flag == nil || *n2.Inn.Flag == *n.Inn.Flag), "bool added to a nested struct (its last unknown field)")
	A((n2.Nb == nil) == (n.Nb == nil) && (n.Nb == nil || *n2.Nb == *n.Nb), "added bool")
	A((n2.Ny == nil) == (n.Ny == nil) && (n.Ny == nil || *n2.Ny == *n.Ny), "added byte")
	A((n2.Ns == nil) == (n.Ns == nil) && (n.Ns == nil || *n2.Ns == *n.Ns), "added i16")
	A((n2.Ne == nil) == (n.Ne == nil) && (n.Ne == nil || *n2.Ne == *n.Ne), "added enum")
	A((n2.Nbin == nil) == (n.Nbin == nil) && string(n2.Nbin) == string(n.Nbin), "added binary")
	A(len(n2.Nset) == len(n.Nset) && (len(n.Nset) == 0 || n2.Nset[0] == n.Nset[0]), "added set")
	A((n2.Emp == nil) == (n.Emp == nil), "added struct without members")
	A(o.Inn.CarryingUnknownFields() == (n.Inn.Flag != nil || n.Inn.IsSetTag()), "nested struct carries exactly what was added")
	zzrt.Cover("end")
}


// H_C09_keep_fill: the unknown-field store is an append-only byte buffer that grows geometrically:
// what precedes an unknown container decides how much room is left when its header is
// appended. An unknown string of n bytes (and optionally a list) precedes unknown maps.
func H_C09_keep_fill(n int) {
	nr := nw.NewRoot()
	nr.R = zzrt.Int32("r")
	b := zzrt.String("b", n)
	in := &nw.Inner{A: zzrt.Int32("a"), B: &b}
	if zzrt.Bool("set") {
		in.C = []int32{zzrt.Int32("c")}
	}
	in.Cnt = map[string]int32{zzrt.String("ck", 1): zzrt.Int32("cv")}
	if zzrt.Bool("set") {
		in.Names = map[int32]string{zzrt.Int32("nk"): zzrt.String("nv", 2)}
	}
	nr.Inn = in
	nr.Extra = &nw.Inner{A: 1}
	o := od.NewRoot()
	zzrt.Assert(o.Read(zzProto(zzBytes(nr))) == nil, "old reads new")
	n2 := nw.NewRoot()
	zzrt.Assert(n2.Read(zzProto(zzBytes(o))) == nil, "new reads what old re-wrote")
	A := zzrt.Assert
	A(n2.Inn != nil && n2.Inn.A == in.A && n2.Inn.B != nil && *n2.Inn.B == b, "string before the maps")
	A(len(n2.Inn.C) == len(in.C) && (len(in.C) == 0 || n2.Inn.C[0] == in.C[0]), "list before the maps")
	A(len(n2.Inn.Cnt) == 1, "string-keyed map kept")
	for k, v := range in.Cnt {
		w, ok := n2.Inn.Cnt[k]
		A(ok && w == v, "string-keyed map entry")
	}
	A(len(n2.Inn.Names) == len(in.Names), "int-keyed map kept")
	for k, v := range in.Names {
		w, ok := n2.Inn.Names[k]
		A(ok && w == v, "int-keyed map entry")
	}
	zzrt.Cover("end")
}
