//zz:target tool/trimmer/trim
package trim

import (
	"strings"

	"github.com/cloudwego/thriftgo/parser"
	"github.com/cloudwego/thriftgo/semantic"

	zzrt "github.com/cloudwego/thriftgo/internal/zzverifrt"
)

// ---- the program model -----------------------------------------------------------------------
// struct-likes: name -> (file, names of struct-likes its fields mention directly or through
// typedefs/containers)
type zzSL struct {
	file string
	name string
	deps []string // qualified by file: "t.T2"
}

var zzSLs = []zzSL{
	{"base", "BaseReq", []string{"base.Deep"}},
	{"base", "Deep", nil},
	{"base", "BaseUnused", nil},
	{"t", "T1", []string{"t.T2"}},
	{"t", "T2", nil},
	{"t", "T3", nil},
	{"t", "TU", []string{"t.T1"}},
	{"t", "TE", []string{"t.T3"}},
	{"t", "T4", []string{"t.T5"}},
	{"t", "T5", nil},
	{"t", "Unused", nil},
	{"a", "L1", nil}, // its field type is free
	{"a", "L2", nil},
	{"a", "L3", nil},
	{"a", "L4", nil},
	{"a", "LX", []string{"a.L5", "t.T6"}}, // preserved exception: what its fields need is kept too
	{"a", "L5", nil},
	{"a", "LU", []string{"a.L6"}}, // preserved union
	{"a", "L6", nil},
	{"t", "T6", nil},
}

// type spellings usable in a.thrift with the struct-likes they reach directly
type zzSpell struct {
	text string
	deps []string
}

var zzSpells = []zzSpell{
	{"i32", nil},
	{"L2", []string{"a.L2"}},
	{"t.T1", []string{"t.T1"}},
	{"t.TD", []string{"t.T2"}},        // typedef T2 TD
	{"t.TL", []string{"t.T3"}},        // typedef list<T3> TL
	{"map<string, t.TU>", []string{"t.TU"}},
	{"list<L3>", []string{"a.L3"}},
	{"t.TEn", nil},
	{"set<t.T4>", []string{"t.T4"}},
	{"LD", []string{"a.L4"}}, // local typedef L4 LD
}

const zzBase = "struct Deep {}\nstruct BaseReq { 1: Deep d }\nstruct BaseUnused { 1: i32 x }\nservice Base { void ping(1: BaseReq r) }\n"
const zzT = "enum TEn { A }\ntypedef T2 TD\ntypedef list<T3> TL\nconst i32 TC = 1\nstruct T1 { 1: T2 t }\nstruct T2 {}\nstruct T3 {}\nunion TU { 1: T1 a }\nexception TE { 1: T3 x }\nstruct T4 { 1: map<i32, T5> m }\nstruct T5 {}\nstruct T6 {}\nstruct Unused { 1: i32 y }\n"

func zzMain(ft, ret, arg int, thr bool, preserveL2 bool, extends bool) string {
	var sb strings.Builder
	sb.WriteString("include \"base.thrift\"\ninclude \"t.thrift\"\ntypedef L4 LD\n")
	sb.WriteString("struct L1 { 1: " + zzSpells[ft].text + " f }\n")
	if preserveL2 {
		sb.WriteString("// @preserve\n")
	}
	sb.WriteString("struct L2 { 1: i32 z }\nstruct L3 {}\nstruct L4 {}\n")
	if preserveL2 {
		sb.WriteString("// @preserve\n")
	}
	sb.WriteString("exception LX { 1: L5 d, 2: t.T6 x }\nstruct L5 {}\n")
	if preserveL2 {
		sb.WriteString("# @preserve\n")
	}
	sb.WriteString("union LU { 1: L6 u }\nstruct L6 {}\n")
	sb.WriteString("service S ")
	if extends {
		sb.WriteString("extends base.Base ")
	}
	sb.WriteString("{\n  " + zzSpells[ret].text + " m1(1: " + zzSpells[arg].text + " a)")
	if thr {
		sb.WriteString(" throws (1: t.TE e)")
	}
	sb.WriteString("\n  void m2(1: L1 x)\n}\n")
	return sb.String()
}

func zzParse3(main string) *parser.Thrift {
	ast, err := parser.ParseBatchString("a.thrift", map[string]string{"a.thrift": main, "base.thrift": zzBase, "t.thrift": zzT}, nil)
	if err != nil {
		panic("model does not parse: " + err.Error())
	}
	if _, err := semantic.NewChecker(semantic.Options{FixWarnings: true}).CheckAll(ast); err != nil {
		panic("model rejected: " + err.Error())
	}
	if err := semantic.ResolveSymbols(ast); err != nil {
		panic("model rejected: " + err.Error())
	}
	return ast
}

func zzClosure(seed []string, l1deps []string) map[string]bool {
	seen := map[string]bool{}
	work := append([]string{}, seed...)
	for len(work) > 0 {
		n := work[0]
		work = work[1:]
		if seen[n] {
			continue
		}
		seen[n] = true
		if n == "a.L1" {
			work = append(work, l1deps...)
		}
		for _, s := range zzSLs {
			if s.file+"."+s.name == n {
				work = append(work, s.deps...)
			}
		}
	}
	return seen
}

func zzStructNames(ast *parser.Thrift, prefix string, out map[string]bool, seen map[*parser.Thrift]bool) {
	if ast == nil || seen[ast] {
		return
	}
	seen[ast] = true
	pre := strings.TrimSuffix(ast.Filename, ".thrift")
	for _, g := range [][]*parser.StructLike{ast.Structs, ast.Unions, ast.Exceptions} {
		for _, s := range g {
			out[pre+"."+s.Name] = true
		}
	}
	for _, inc := range ast.Includes {
		zzStructNames(inc.Reference, prefix, out, seen)
	}
}

// H_C16_trim: the field type of L1, the result and argument types of m1 are free choices among
// 10 spellings; throws / @preserve / force / extends / method filter are free.
// (filter: 0 none, 1 "S.m2", 2 "m1", 3 "Base.ping", 4 "S.ping", 5 "S.m2"+"Base.p.*"; ft and arg are harness arguments so that the tiers can bound them)
func H_C16_trim(filter, ft, arg int) {
	ret := zzrt.Choose("ret", len(zzSpells))
	thr, pres, force, ext := zzrt.Bool("thr"), zzrt.Bool("preserve"), zzrt.Bool("force"), zzrt.Bool("extends")
	ast := zzParse3(zzMain(ft, ret, arg, thr, pres, ext))
	var methods []string
	switch filter {
	case 1:
		methods = []string{"S.m2"}
	case 2:
		methods = []string{"m1"}
	case 3: // a method of the base service in the included file, by its own service name
		methods = []string{"Base.ping"}
	case 4: // the same method through the derived service
		methods = []string{"S.ping"}
	case 5: // a local method and a regexp over the base service
		methods = []string{"S.m2", "Base.p.*"}
	}
	if filter >= 3 {
		zzrt.Assume(ext)
	}
	_, err := doTrimAST(ast, methods, force, false, false, nil, nil)
	zzrt.Assert(err == nil, "the trimmed IDL passes the semantic check")

	// reference: what must be kept
	var seed []string
	m1, m2 := filter == 0 || filter == 2, filter == 0 || filter == 1 || filter == 5
	if m1 {
		seed = append(seed, zzSpells[ret].deps...)
		seed = append(seed, zzSpells[arg].deps...)
		if thr {
			seed = append(seed, "t.TE")
		}
	}
	if m2 {
		seed = append(seed, "a.L1")
	}
	if ext && (filter == 0 || filter >= 3) {
		seed = append(seed, "base.BaseReq") // the base method is kept: so is what it needs, in the base file
	}
	// all typedefs are kept, hence their targets (t.thrift is kept whenever it is still included)
	seed = append(seed, "a.L4")
	if pres && !force {
		seed = append(seed, "a.L2", "a.LX", "a.LU")
	}
	want := zzClosure(seed, zzSpells[ft].deps)
	if want["t.T1"] || want["t.T2"] || want["t.T3"] || want["t.TU"] || want["t.TE"] || want["t.T4"] || want["t.T5"] || true {
		// t.thrift stays included because it holds typedefs, an enum and a constant: their targets stay
		for k := range zzClosure([]string{"t.T2", "t.T3"}, nil) {
			want[k] = true
		}
	}
	got := map[string]bool{}
	zzStructNames(ast, "", got, map[*parser.Thrift]bool{})
	for _, s := range zzSLs {
		n := s.file + "." + s.name
		if want[n] {
			zzrt.Assert(got[n], "a struct-like needed by a kept method, typedef or preserved struct is kept: "+n)
		} else if s.file != "base" || ext {
			// (when base.thrift is not reachable any more it is dropped as a whole)
			zzrt.Assert(!got[n], "a struct-like that nothing kept refers to is removed: "+n)
		}
	}
	// kept methods
	var fns []string
	for _, sv := range ast.Services {
		if sv.Name == "S" {
			for _, f := range sv.Functions {
				fns = append(fns, f.Name)
			}
		}
	}
	wantFns := ""
	if m1 {
		wantFns += "m1,"
	}
	if m2 {
		wantFns += "m2,"
	}
	zzrt.Assert(strings.Join(fns, ",")+"," == wantFns || (len(fns) == 0 && wantFns == ""), "exactly the matching methods remain")
	// typedefs, enums, constants of kept files are all kept
	zzrt.Assert(len(ast.Typedefs) == 1, "local typedef kept")
	for _, inc := range ast.Includes {
		if inc.Path == "t.thrift" {
			zzrt.Assert(len(inc.Reference.Typedefs) == 2 && len(inc.Reference.Enums) == 1 && len(inc.Reference.Constants) == 1, "typedefs, enums and constants of an included file are kept")
		}
	}
	// trimming again changes nothing
	sig1 := parser.ZZSig(ast, false)
	_, err = doTrimAST(ast, methods, force, false, false, nil, nil)
	zzrt.Assert(err == nil, "trimming the result again succeeds")
	if ext && (filter == 1 || filter == 2) {
		// the base service is cut off by the method filter but its include is only removed by a second run
		zzrt.Known("KF-C16-stale-base-include", parser.ZZSig(ast, false) == sig1, "with a method filter that matches no method of the base service the 'extends' is removed but the include of the base file (now empty) is kept; a second trim removes it")
	} else {
		zzrt.Assert(parser.ZZSig(ast, false) == sig1, "trimming the result again changes nothing")
	}
	zzrt.Cover("end")
}

func D_C16_1() string {
	ast := zzParse3(zzMain(2, 5, 6, true, true, true))
	_, err := doTrimAST(ast, nil, false, false, false, nil, nil)
	if err != nil {
		return "ERR " + err.Error()
	}
	return parser.ZZSig(ast, false)
}

func D_C16_2() string {
	ast := zzParse3(zzMain(0, 0, 8, false, true, false))
	_, err := doTrimAST(ast, []string{"m1"}, true, false, false, nil, nil)
	if err != nil {
		return "ERR " + err.Error()
	}
	return parser.ZZSig(ast, false)
}

// ---- method filters over names that are prefixes of each other ------------------------------------

const zzPrefixIDL = "struct Q1 {}\nstruct R1 {}\nstruct Q2 {}\nstruct R2 {}\nstruct Q3 {}\nstruct Q4 {}\n" +
	"service Svc {\n  R1 Get(1: Q1 q)\n  R2 GetAll(1: Q2 q)\n  void Put(1: Q3 q)\n  void PutGet(1: Q4 q)\n}\n"

// H_C16_prefix: a plain method name selects exactly that method (not the methods it is a prefix
// of, nor the ones that are a prefix of it); a regexp selects every method it matches; the
// struct-likes of the removed methods go, those of the kept ones stay.
func H_C16_prefix(filter int) {
	filters := []struct {
		pat  string
		want string
	}{
		{"Svc.Get", "Get"},
		{"Svc.GetAll", "GetAll"},
		{"Get", "Get"},
		{"Svc.Get.*", "Get,GetAll"},
		{"Svc.Put", "Put"},
		{"Svc.PutGet", "PutGet"},
		{"Svc.Put.*", "Put,PutGet"},
	}
	ft := filters[filter]
	ast, err := parser.ParseString("p.thrift", zzPrefixIDL)
	zzrt.Assert(err == nil, "model parses")
	if _, err := semantic.NewChecker(semantic.Options{FixWarnings: true}).CheckAll(ast); err != nil {
		panic("model rejected: " + err.Error())
	}
	if err := semantic.ResolveSymbols(ast); err != nil {
		panic("model rejected: " + err.Error())
	}
	_, err = doTrimAST(ast, []string{ft.pat}, zzrt.Bool("force"), false, false, nil, nil)
	zzrt.Assert(err == nil, "the trimmed IDL passes the semantic check")
	var fns []string
	for _, f := range ast.Services[0].Functions {
		fns = append(fns, f.Name)
	}
	zzrt.Assert(strings.Join(fns, ",") == ft.want, "exactly the matching methods remain (names that are prefixes of each other): filter "+ft.pat)
	needs := map[string][]string{"Get": {"Q1", "R1"}, "GetAll": {"Q2", "R2"}, "Put": {"Q3"}, "PutGet": {"Q4"}}
	want := map[string]bool{}
	for _, f := range fns {
		for _, n := range needs[f] {
			want[n] = true
		}
	}
	got := map[string]bool{}
	for _, s := range ast.Structs {
		got[s.Name] = true
	}
	for _, n := range []string{"Q1", "R1", "Q2", "R2", "Q3", "Q4"} {
		zzrt.Assert(got[n] == want[n], "a struct-like is kept iff a kept method needs it: "+n)
	}
	zzrt.Cover("end")
}
