include "inc/common.thrift"
include "shared.thrift"
include "ver.v1.thrift"
namespace go c15.mn
namespace java jm
// struct comment
struct S {
  1: required i32 a = 5 (k1 = "v1", k1 = "v2", k2 = "w")
  2: optional map<string, list<common.CE>> m
  3: shared.Sh sh
  -1: common.CT ct
  5: set<binary> bins
  6: E e = E.B
  7: list<U> us
  8: byte b
  9: optional TS ts
  10: ver.v1.V vv
  11: map<ver.v1.VE, ver.v1.VT> vm
} (sk = "sv")
union U { 1: i64 x; 2: string y }
exception X { 1: string msg (m = "") }
enum E { A = 1 (ea = "1"), B, C = 10 }
typedef S TS (tk = "tv")
typedef map<i32, TS> TM
typedef E TE
const i32 CI = -7
const double CD = 1.5
const string CS = "str"
const bool CB = true
const list<i32> CL = [1, 2]
const map<string, i32> CM = {"a": 1, "b": 2}
const E CE = E.A
const S CT = {"a": 3}
service Base extends shared.SharedSvc { void ping() }
service Svc extends Base {
  S call(1: S req, 2: common.CS cs) throws (1: X x, 2: common.CX cx) (ma = "mv")
  oneway void fire(1: i64 n)
  list<E> es()
} (sva = "x")
service Svc3 extends ver.v1.VS { }
