namespace go c15.shared
struct Sh { 1: string s }
service SharedSvc { i32 base() }
