package mn

import (
	"reflect"

	"github.com/cloudwego/thriftgo/generator/golang/extension/meta"
	"github.com/cloudwego/thriftgo/parser"
	"github.com/cloudwego/thriftgo/semantic"
	"github.com/cloudwego/thriftgo/thrift_reflection"

	zzrt "zzgen/internal/zzverifrt"

	"zzgen/c15/common"
	"zzgen/c15/shared"
	"zzgen/c15/ver"
)

var _ = zzrt.Run

// helpers the generated comparators (zz_structs.go) expect
type zzC struct{ seq int }

func (c *zzC) opt(path string) bool  { c.seq++; return c.seq%2 == 0 }
func (c *zzC) bool(path string) bool { c.seq++; return c.seq%2 == 0 }
func (c *zzC) n(path string, d int) int {
	if d <= 0 {
		return 0
	}
	c.seq++
	return c.seq % 3
}
func (c *zzC) str(path string) string { c.seq++; return zzrt.String(path, c.seq%3) }
func zzDec(d int) int {
	if d > 0 {
		return d - 1
	}
	return 0
}
func zzItoa(i int) string {
	if i == 0 {
		return "0"
	}
	s := ""
	for ; i > 0; i /= 10 {
		s = string(rune('0'+i%10)) + s
	}
	return s
}
func zzRoundTrip(a, b interface{}, what string) {
	bs, err := meta.Marshal(a)
	zzrt.Assert(err == nil, what+": meta.Marshal")
	zzrt.Assert(meta.Unmarshal(bs, b) == nil, what+": meta.Unmarshal")
}

func zzCompile() *parser.Thrift {
	ast, err := parser.ParseBatchString("main.thrift", zzIDLText, nil)
	if err != nil {
		panic("corpus does not parse: " + err.Error())
	}
	if _, err := semantic.NewChecker(semantic.Options{FixWarnings: true}).CheckAll(ast); err != nil {
		panic("corpus rejected: " + err.Error())
	}
	if err := semantic.ResolveSymbols(ast); err != nil {
		panic("corpus does not resolve: " + err.Error())
	}
	return ast
}

func zzNoExtra(fd *thrift_reflection.FileDescriptor) *thrift_reflection.FileDescriptor {
	cp := *fd
	cp.Extra = nil
	return &cp
}

// H_C15_embedded: the descriptor embedded in the generated package (gzip + meta bytes written by
// the real generator) is the descriptor of the IDL, for the main file and the included ones.
func H_C15_embedded() {
	ast := zzCompile()
	zzEq_FileDescriptor(thrift_reflection.GetFileDescriptor(ast), zzNoExtra(GetFileDescriptorForMain()), "main")
	zzEq_FileDescriptor(thrift_reflection.GetFileDescriptor(ast.Includes[0].Reference), zzNoExtra(common.GetFileDescriptorForCommon()), "common")
	zzEq_FileDescriptor(thrift_reflection.GetFileDescriptor(ast.Includes[1].Reference), zzNoExtra(shared.GetFileDescriptorForShared()), "shared")
	zzEq_FileDescriptor(thrift_reflection.GetFileDescriptor(ast.Includes[2].Reference), zzNoExtra(ver.GetFileDescriptorForVerV1()), "ver.v1")
	zzrt.Assert(GetFileDescriptorForMain().Filepath == "main.thrift" && common.GetFileDescriptorForCommon().Filepath == "inc/common.thrift", "file paths as given on the command line")
	zzrt.Assert(thrift_reflection.LookupFD("main.thrift") == GetFileDescriptorForMain(), "registered under its path")
	zzrt.Assert(thrift_reflection.LookupFD("shared.thrift") == shared.GetFileDescriptorForShared(), "a file included twice is registered once")
	zzrt.Cover("end")
}

// H_C15_gotypes: each generated Go type maps to its own descriptor and back.
func H_C15_gotypes() {
	fd := GetFileDescriptorForMain()
	type sl struct {
		inst interface {
			GetDescriptor() *thrift_reflection.StructDescriptor
			GetTypeDescriptor() *thrift_reflection.TypeDescriptor
		}
		nilp interface{}
		name string
		typ  reflect.Type
		want *thrift_reflection.StructDescriptor
	}
	for _, c := range []sl{
		{&S{}, (*S)(nil), "S", reflect.TypeOf(S{}), fd.GetStructDescriptor("S")},
		{&U{}, (*U)(nil), "U", reflect.TypeOf(U{}), fd.GetUnionDescriptor("U")},
		{&X{}, (*X)(nil), "X", reflect.TypeOf(X{}), fd.GetExceptionDescriptor("X")},
		{&common.CS{}, (*common.CS)(nil), "CS", reflect.TypeOf(common.CS{}), common.GetFileDescriptorForCommon().GetStructDescriptor("CS")},
		{&common.CX{}, (*common.CX)(nil), "CX", reflect.TypeOf(common.CX{}), common.GetFileDescriptorForCommon().GetExceptionDescriptor("CX")},
		{&shared.Sh{}, (*shared.Sh)(nil), "Sh", reflect.TypeOf(shared.Sh{}), shared.GetFileDescriptorForShared().GetStructDescriptor("Sh")},
	} {
		zzrt.Assert(c.want != nil && c.want.Name == c.name, "descriptor of "+c.name+" exists")
		zzrt.Assert(c.inst.GetDescriptor() == c.want, c.name+".GetDescriptor is its own descriptor")
		zzrt.Assert(thrift_reflection.GetStructDescriptorByGoType(c.nilp) == c.want, "Go type "+c.name+" -> descriptor")
		zzrt.Assert(c.want.GetGoType() == c.typ, "descriptor "+c.name+" -> Go type")
		td := c.inst.GetTypeDescriptor()
		zzrt.Assert(td.Name == c.name && td.Filepath == c.want.Filepath, c.name+".GetTypeDescriptor names the type in its own file")
	}
	// enums
	e := fd.GetEnumDescriptor("E")
	zzrt.Assert(e != nil && E_A.GetDescriptor() == e, "E.GetDescriptor")
	zzrt.Assert(thrift_reflection.GetEnumDescriptorByGoType((*E)(nil)) == e && e.GetGoType() == reflect.TypeOf(E(0)), "E <-> descriptor")
	ce := common.GetFileDescriptorForCommon().GetEnumDescriptor("CE")
	zzrt.Assert(thrift_reflection.GetEnumDescriptorByGoType((*common.CE)(nil)) == ce && ce.GetGoType() == reflect.TypeOf(common.CE(0)), "common.CE <-> descriptor")
	zzrt.Assert(thrift_reflection.GetEnumDescriptorByGoType((*S)(nil)) == nil && thrift_reflection.GetStructDescriptorByGoType((*E)(nil)) == nil, "no descriptor of the wrong kind")
	// typedefs
	for _, c := range []struct {
		nilp  interface{}
		alias string
		typ   reflect.Type
	}{{(*TS)(nil), "TS", reflect.TypeOf((*TS)(nil)).Elem()}, {(*TM)(nil), "TM", reflect.TypeOf((*TM)(nil)).Elem()}, {(*TE)(nil), "TE", reflect.TypeOf((*TE)(nil)).Elem()}} {
		td := fd.GetTypedefDescriptor(c.alias)
		zzrt.Assert(td != nil && td.Alias == c.alias, "typedef descriptor "+c.alias)
		zzrt.Assert(thrift_reflection.GetTypedefDescriptorByGoType(c.nilp) == td, "Go type "+c.alias+" -> typedef descriptor")
		zzrt.Assert(td.GetGoType() == c.typ, "typedef descriptor "+c.alias+" -> Go type")
	}
	// the Go type of a type expression
	s := fd.GetStructDescriptor("S")
	gt, err := s.GetFieldByName("sh").Type.GetGoType()
	zzrt.Assert(err == nil && gt == reflect.TypeOf(shared.Sh{}), "shared.Sh as a field type")
	gt, err = s.GetFieldByName("e").Type.GetGoType()
	zzrt.Assert(err == nil && gt == reflect.TypeOf(E(0)), "E as a field type")
	zzrt.Cover("end")
}

// H_C15_cross: lookups through the default registry cross package borders.
func H_C15_cross() {
	fd := GetFileDescriptorForMain()
	s := fd.GetStructDescriptor("S")
	d, err := s.GetFieldByName("sh").Type.GetStructDescriptor()
	zzrt.Assert(err == nil && d == shared.GetFileDescriptorForShared().GetStructDescriptor("Sh"), "shared.Sh")
	td, err := s.GetFieldByName("ct").Type.GetTypedefDescriptor()
	zzrt.Assert(err == nil && td == common.GetFileDescriptorForCommon().GetTypedefDescriptor("CT"), "common.CT")
	d, err = td.Type.GetStructDescriptor()
	zzrt.Assert(err == nil && d == shared.GetFileDescriptorForShared().GetStructDescriptor("Sh"), "CT -> shared.Sh relative to common's includes")
	svc := fd.GetServiceDescriptor("Svc")
	zzrt.Assert(svc.GetParent().GetParent() == shared.GetFileDescriptorForShared().GetServiceDescriptor("SharedSvc"), "base service across files")
	zzrt.Assert(len(svc.GetAllMethods()) == 5, "all methods")
	id := zzrt.Int32("id")
	f := s.GetFieldById(id)
	zzrt.Assert((f != nil) == (id == 1 || id == 2 || id == 3 || id == -1 || (id >= 5 && id <= 11)), "GetFieldById")
	// an included file whose base name contains a dot
	vfd := ver.GetFileDescriptorForVerV1()
	d, err = s.GetFieldByName("vv").Type.GetStructDescriptor()
	zzrt.Assert(err == nil && d != nil && d == vfd.GetStructDescriptor("V"), "ver.v1.V")
	gt, err := s.GetFieldByName("vv").Type.GetGoType()
	zzrt.Assert(err == nil && gt == reflect.TypeOf(ver.V{}), "Go type of ver.v1.V")
	ed, err := s.GetFieldByName("vm").Type.KeyType.GetEnumDescriptor()
	zzrt.Assert(err == nil && ed != nil && ed == vfd.GetEnumDescriptor("VE"), "ver.v1.VE")
	zzrt.Assert(fd.GetServiceDescriptor("Svc3").GetParent() == vfd.GetServiceDescriptor("VS"), "base service ver.v1.VS")
	zzrt.Cover("end")
}
