include "../shared.thrift"
namespace go c15.common
enum CE { P = 0, Q = 5 }
typedef shared.Sh CT
struct CS { 1: i32 v }
exception CX { 1: i32 code }
