namespace go c15.ver
struct V { 1: i32 n }
enum VE { ONE = 1 }
typedef V VT
service VS { void vping() }
