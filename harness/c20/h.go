//zz:target generator/golang
package golang

import (
	"strings"

	"github.com/cloudwego/thriftgo/generator/backend"

	zzrt "github.com/cloudwego/thriftgo/internal/zzverifrt"
)

// The feature each documented option name switches (written from the README's description of
// every option; independent of the struct tags the implementation reads by reflection).
type zzOptField struct {
	name string
	get  func(f *Features) *bool
}

var zzOptFields = []zzOptField{
	{"json_enum_as_text", func(f *Features) *bool { return &f.MarshalEnumToText }},
	{"enum_marshal", func(f *Features) *bool { return &f.MarshalEnum }},
	{"enum_unmarshal", func(f *Features) *bool { return &f.UnmarshalEnum }},
	{"gen_setter", func(f *Features) *bool { return &f.GenerateSetter }},
	{"gen_db_tag", func(f *Features) *bool { return &f.GenDatabaseTag }},
	{"omitempty_for_optional", func(f *Features) *bool { return &f.GenOmitEmptyTag }},
	{"use_type_alias", func(f *Features) *bool { return &f.TypedefAsTypeAlias }},
	{"validate_set", func(f *Features) *bool { return &f.ValidateSet }},
	{"value_type_in_container", func(f *Features) *bool { return &f.ValueTypeForSIC }},
	{"scan_value_for_enum", func(f *Features) *bool { return &f.ScanValueForEnum }},
	{"reorder_fields", func(f *Features) *bool { return &f.ReorderFields }},
	{"typed_enum_string", func(f *Features) *bool { return &f.TypedEnumString }},
	{"keep_unknown_fields", func(f *Features) *bool { return &f.KeepUnknownFields }},
	{"gen_deep_equal", func(f *Features) *bool { return &f.GenDeepEqual }},
	{"compatible_names", func(f *Features) *bool { return &f.CompatibleNames }},
	{"reserve_comments", func(f *Features) *bool { return &f.ReserveComments }},
	{"nil_safe", func(f *Features) *bool { return &f.NilSafe }},
	{"frugal_tag", func(f *Features) *bool { return &f.FrugalTag }},
	{"unescape_double_quote", func(f *Features) *bool { return &f.EscapeDoubleInTag }},
	{"gen_type_meta", func(f *Features) *bool { return &f.GenerateTypeMeta }},
	{"gen_json_tag", func(f *Features) *bool { return &f.GenerateJSONTag }},
	{"always_gen_json_tag", func(f *Features) *bool { return &f.AlwaysGenerateJSONTag }},
	{"snake_style_json_tag", func(f *Features) *bool { return &f.SnakeTyleJSONTag }},
	{"lower_camel_style_json_tag", func(f *Features) *bool { return &f.LowerCamelCaseJSONTag }},
	{"with_reflection", func(f *Features) *bool { return &f.WithReflection }},
	{"enum_as_int_32", func(f *Features) *bool { return &f.EnumAsINT32 }},
	{"code_ref_slim", func(f *Features) *bool { return &f.CodeRefSlim }},
	{"code_ref", func(f *Features) *bool { return &f.CodeRef }},
	{"exp_code_ref", func(f *Features) *bool { return &f.ExpCodeRef }},
	{"keep_code_ref_name", func(f *Features) *bool { return &f.KeepCodeRefName }},
	{"trim_idl", func(f *Features) *bool { return &f.TrimIDL }},
	{"enable_nested_struct", func(f *Features) *bool { return &f.EnableNestedStruct }},
	{"json_stringer", func(f *Features) *bool { return &f.JSONStringer }},
	{"with_field_mask", func(f *Features) *bool { return &f.WithFieldMask }},
	{"field_mask_halfway", func(f *Features) *bool { return &f.FieldMaskHalfway }},
	{"field_mask_zero_required", func(f *Features) *bool { return &f.FieldMaskZeroRequired }},
	{"thrift_streaming", func(f *Features) *bool { return &f.ThriftStreaming }},
	{"no_default_serdes", func(f *Features) *bool { return &f.NoDefaultSerdes }},
	{"no_alias_type_reflection_method", func(f *Features) *bool { return &f.NoAliasTypeReflectionMethod }},
	{"enable_ref_interface", func(f *Features) *bool { return &f.EnableRefInterface }},
	{"use_option", func(f *Features) *bool { return &f.UseOption }},
	{"streamx", func(f *Features) *bool { return &f.StreamX }},
	{"no_fmt", func(f *Features) *bool { return &f.NoFmt }},
	{"skip_empty", func(f *Features) *bool { return &f.SkipEmpty }},
	{"no_processor", func(f *Features) *bool { return &f.NoProcessor }},
	{"get_enum_annotation", func(f *Features) *bool { return &f.GetEnumAnnotation }},
	{"apache_warning", func(f *Features) *bool { return &f.ApacheWarning }},
	{"apache_adaptor", func(f *Features) *bool { return &f.ApacheAdaptor }},
	{"skip_go_gen", func(f *Features) *bool { return &f.SkipGoGen }},
}

// zzDocDefault is generated from README.md by the check (option name -> documented default).
func zzDocumented(name string) (def bool, ok bool) {
	for _, d := range zzReadmeOptions {
		if d.name == name {
			return d.def, true
		}
	}
	return false, false
}

func zzIndex(name string) int {
	for i, o := range zzOptFields {
		if o.name == name {
			return i
		}
	}
	return -1
}

// zzExpectedFeatures: documented defaults with the given assignments applied in order.
func zzExpectedFeatures(assign [][2]interface{}) Features {
	var f Features
	for _, o := range zzOptFields {
		def, _ := zzDocumented(o.name) // an undocumented (deprecated) option is off by default
		*o.get(&f) = def
	}
	for _, a := range assign {
		*zzOptFields[a[0].(int)].get(&f) = a[1].(bool)
	}
	return f
}

// zzInvalid: combinations documented as invalid.
func zzInvalid(f Features) bool {
	return (f.ApacheWarning && f.ApacheAdaptor) || (f.WithFieldMask && !f.WithReflection) ||
		(f.SnakeTyleJSONTag && f.LowerCamelCaseJSONTag) || (!f.GenerateJSONTag && f.AlwaysGenerateJSONTag)
}

func zzSameFeatures(a, b Features) bool { return a == b }

// H_C20_value: option i given with a free value string of n bytes (n = -1: bare name).
func H_C20_value(i, n int) {
	o := zzOptFields[i]
	arg := o.name
	val := ""
	if n >= 0 {
		val = zzrt.String("v", n)
		arg += "=" + val
	}
	cu := NewCodeUtils(backend.DummyLogFunc())
	err := cu.HandleOptions([]string{arg})
	isBool := val == "" || val == "true" || val == "false"
	if !isBool {
		zzrt.Assert(err != nil, "a value that is not a boolean is rejected")
		zzrt.Cover("rejected")
		return
	}
	want := zzExpectedFeatures([][2]interface{}{{i, val != "false"}})
	if zzInvalid(want) {
		zzrt.Assert(err != nil, "an option combination documented as invalid is rejected")
		zzrt.Cover("invalid")
		return
	}
	zzrt.Assert(err == nil, "a documented option with a boolean value is accepted")
	zzrt.Assert(zzSameFeatures(cu.Features(), want), "the option sets exactly its own feature; every other feature keeps its documented default")
	zzrt.Cover("accepted")
}

func zzValStr(k int) (string, bool) {
	switch k {
	case 0:
		return "", true
	case 1:
		return "=true", true
	default:
		return "=false", false
	}
}

// H_C20_pair: options i then j with values chosen among {bare, =true, =false}.
func H_C20_pair(i, j int) {
	ki, kj := zzrt.Choose("vi", 3), zzrt.Choose("vj", 3)
	si, bi := zzValStr(ki)
	sj, bj := zzValStr(kj)
	cu := NewCodeUtils(backend.DummyLogFunc())
	err := cu.HandleOptions([]string{zzOptFields[i].name + si, zzOptFields[j].name + sj})
	want := zzExpectedFeatures([][2]interface{}{{i, bi}, {j, bj}})
	if zzInvalid(want) {
		zzrt.Assert(err != nil, "an option combination documented as invalid is rejected")
		zzrt.Cover("invalid")
		return
	}
	zzrt.Assert(err == nil, "documented options are accepted")
	zzrt.Assert(zzSameFeatures(cu.Features(), want), "each option sets exactly its own feature whatever precedes or follows it")
	zzrt.Cover("accepted")
}

// H_C20_triple: option i surrounded by two other options chosen freely from the table.
func H_C20_triple(i int) {
	n := len(zzOptFields)
	a, b := zzrt.Choose("a", n), zzrt.Choose("b", n)
	pos := zzrt.Choose("pos", 3)
	ka, ki, kb := zzrt.Choose("va", 3), zzrt.Choose("vi", 3), zzrt.Choose("vb", 3)
	sa, ba := zzValStr(ka)
	si, bi := zzValStr(ki)
	sb, bb := zzValStr(kb)
	items := [][2]interface{}{{a, ba}, {b, bb}}
	args := []string{zzOptFields[a].name + sa, zzOptFields[b].name + sb}
	// insert option i at pos
	item := [2]interface{}{i, bi}
	arg := zzOptFields[i].name + si
	items = append(items[:pos], append([][2]interface{}{item}, items[pos:]...)...)
	args = append(args[:pos], append([]string{arg}, args[pos:]...)...)
	cu := NewCodeUtils(backend.DummyLogFunc())
	err := cu.HandleOptions(args)
	want := zzExpectedFeatures(items)
	if zzInvalid(want) {
		zzrt.Assert(err != nil, "an option combination documented as invalid is rejected")
		return
	}
	zzrt.Assert(err == nil, "documented options are accepted")
	zzrt.Assert(zzSameFeatures(cu.Features(), want), "last write wins; unrelated features keep their defaults")
	zzrt.Cover("accepted")
}

// H_C20_keyed: naming_style / template / use_package with a free value of n bytes.
func H_C20_keyed(which, n int) {
	v := zzrt.String("v", n)
	cu := NewCodeUtils(backend.DummyLogFunc())
	switch which {
	case 0:
		err := cu.HandleOptions([]string{"naming_style=" + v})
		ok := v == "thriftgo" || v == "golint" || v == "apache"
		zzrt.Assert((err == nil) == ok, "naming_style accepts exactly the documented styles")
		if ok {
			zzrt.Assert(cu.NamingStyle().Name() == v, "the chosen style is in effect")
			zzrt.Cover("accepted")
		} else {
			zzrt.Cover("rejected")
		}
	case 1:
		// the implication template=slim => no deep-equal holds wherever the two options stand
		lists := [][]string{
			{"template=" + v, "gen_deep_equal"},
			{"gen_deep_equal", "template=" + v},
			{"gen_deep_equal=true", "template=" + v, "naming_style=golint"},
			{"gen_deep_equal", "package_prefix=x/y", "template=" + v, "use_package=a=b"},
			{"template=" + v, "gen_setter", "gen_deep_equal=true"},
		}
		err := cu.HandleOptions(lists[zzrt.Choose("order", len(lists))])
		ok := v == "slim" || v == "raw_struct" || v == "default"
		zzrt.Assert((err == nil) == ok, "template accepts exactly the documented templates")
		if ok {
			zzrt.Assert(cu.Template() == v, "the chosen template is in effect")
			zzrt.Assert(cu.Features().GenDeepEqual == (v != "slim"), "the slim template silently disables gen_deep_equal")
			zzrt.Cover("accepted")
		} else {
			zzrt.Cover("rejected")
		}
	case 2:
		err := cu.HandleOptions([]string{"use_package=" + v})
		ok := strings.Contains(v, "=")
		zzrt.Assert((err == nil) == ok, "use_package needs path=replacement")
		if ok {
			zzrt.Cover("accepted")
		} else {
			zzrt.Cover("rejected")
		}
	}
	zzrt.Assert(zzSameFeatures(cu.Features(), zzExpectedFeatures(nil)) || which == 1, "keyed options do not touch boolean features")
}

// H_C20_documented: every option of the README table is known to the backend and vice versa.
func H_C20_documented() {
	for _, d := range zzReadmeOptions {
		if d.name == "ignore_initialisms" {
			continue // documented boolean that is not a Features member (naming)
		}
		zzrt.Assert(zzIndex(d.name) >= 0, "README option is known: "+d.name)
		cu := NewCodeUtils(backend.DummyLogFunc())
		zzrt.Assert(cu.HandleOptions([]string{d.name}) == nil || zzInvalid(zzExpectedFeatures([][2]interface{}{{zzIndex(d.name), true}})), "README option is accepted: "+d.name)
	}
	zzrt.Assert(zzSameFeatures(NewCodeUtils(backend.DummyLogFunc()).Features(), zzExpectedFeatures(nil)), "defaults equal the documented defaults")
	zzrt.Cover("end")
}

func D_C20_1() string {
	cu := NewCodeUtils(backend.DummyLogFunc())
	err := cu.HandleOptions([]string{"gen_setter", "code_ref_slim=true", "validate_set=false", "naming_style=golint", "template=slim", "gen_deep_equal", "use_package=a=b"})
	f := cu.Features()
	out := ""
	for _, o := range zzOptFields {
		if *o.get(&f) {
			out += o.name + ","
		}
	}
	if err != nil {
		out += "ERR " + err.Error()
	}
	e2 := NewCodeUtils(backend.DummyLogFunc()).HandleOptions([]string{"gen_setter=1"})
	e3 := NewCodeUtils(backend.DummyLogFunc()).HandleOptions([]string{"with_field_mask"})
	return out + "|" + cu.Template() + "|" + cu.NamingStyle().Name() + "|" + e2.Error() + "|" + e3.Error()
}
