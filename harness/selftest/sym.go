package selftest

import (
	"encoding/binary"
	"strconv"
	"strings"

	zzrt "verif/harness/zzrt"
)

// S_* : assertions hold on every path. V_* : a violation exists (and must replay natively).

func S_binary_roundtrip() {
	b := zzrt.Bytes("b", 4)
	x := binary.BigEndian.Uint32(b)
	c := make([]byte, 4)
	binary.BigEndian.PutUint32(c, x)
	for i := range b {
		zzrt.Assert(b[i] == c[i], "roundtrip byte")
	}
	y := binary.LittleEndian.Uint16(b[1:])
	zzrt.Assert(byte(y) == b[1] && byte(y>>8) == b[2], "little endian")
	zzrt.Cover("end")
}

func V_abs() {
	x := zzrt.Int32("x")
	y := x
	if y < 0 {
		y = -y
	}
	zzrt.Assert(y >= 0, "abs is non-negative")
}

func V_strmatch() {
	s := zzrt.String("s", 3)
	if strings.HasPrefix(s, "ab") && s[2] == 'c' {
		zzrt.Fail("found abc")
	}
}

func S_atoi() {
	s := zzrt.String("d", 2)
	for i := 0; i < len(s); i++ {
		zzrt.Assume(s[i] >= '0' && s[i] <= '9')
	}
	n, err := strconv.Atoi(s)
	zzrt.Assert(err == nil, "digits parse")
	zzrt.Assert(n == int(s[0]-'0')*10+int(s[1]-'0'), "value")
	zzrt.Cover("end")
}

func V_atoi_sign() {
	s := zzrt.String("d", 2)
	n, err := strconv.Atoi(s)
	zzrt.Assert(err != nil || n >= 0, "a 2-byte string never parses to a negative number")
}

func S_map_symkey() {
	m := map[string]int{"aa": 1, "bb": 2}
	k := zzrt.String("k", 2)
	v, ok := m[k]
	if ok {
		zzrt.Assert((k == "aa" && v == 1) || (k == "bb" && v == 2), "hit")
		zzrt.Cover("hit")
	} else {
		zzrt.Assert(k != "aa" && k != "bb", "miss")
		zzrt.Cover("miss")
	}
	mi := map[int32]string{}
	i := zzrt.Int32("i")
	mi[i] = "x"
	mi[5] = "y"
	zzrt.Assert(len(mi) == 1 || i != 5, "len")
	zzrt.Assert(mi[i] == "x" || i == 5, "value")
}

func S_index_sym() {
	a := [4]int{10, 20, 30, 40}
	i := zzrt.Int("i")
	zzrt.Assume(i >= 0 && i < 4)
	v := a[i]
	zzrt.Assert(v == 10*(i+1), "table")
	s := []byte("wxyz")
	j := zzrt.Byte("j")
	if int(j) < len(s) {
		zzrt.Assert(s[j] == 'w'+j, "bytes")
		zzrt.Cover("inrange")
	}
}

func V_index_oob() {
	a := []int{1, 2, 3}
	i := zzrt.Int("i")
	zzrt.Assume(i >= 0 && i <= 3)
	_ = a[i] // panics for i == 3
}

func S_shifts_div() {
	x := zzrt.Uint32("x")
	n := zzrt.Byte("n")
	y := x << (n & 31) >> (n & 31)
	zzrt.Assert(y <= x, "shift out and back never grows")
	d := zzrt.Int32("d")
	if d != 0 {
		q := int32(100) / d
		r := int32(100) % d
		zzrt.Assert(q*d+r == 100, "division identity")
	}
	var big uint = uint(zzrt.Byte("s")) + 60
	z := uint64(1) << big
	zzrt.Assert(z == 0 || big < 64, "oversized shift is zero")
	i8 := zzrt.Int8("i8")
	zzrt.Assert(int64(i8) >= -128 && int64(i8) <= 127 && uint8(i8) == uint8(int32(i8)), "conversions")
}

func V_div_zero() {
	d := zzrt.Int32("d")
	zzrt.Assume(d >= -1 && d <= 1)
	_ = 10 / d
}

type pair struct {
	a int16
	s string
}

func S_struct_eq() {
	p := pair{zzrt.Int16("a"), zzrt.String("s", 1)}
	q := pair{zzrt.Int16("b"), zzrt.String("t", 1)}
	if p == q {
		zzrt.Assert(p.a == q.a && p.s == q.s, "struct eq")
		zzrt.Cover("eq")
	} else {
		zzrt.Assert(p.a != q.a || p.s != q.s, "struct ne")
		zzrt.Cover("ne")
	}
	var i, j interface{} = p, q
	zzrt.Assert((i == j) == (p == q), "iface eq")
}

func S_runes() {
	s := zzrt.String("s", 2)
	n := 0
	for range s {
		n++
	}
	zzrt.Assert(n >= 1 && n <= 2, "rune count")
	rs := []rune(s)
	zzrt.Assert(len(rs) == n, "rune slice")
	if s[0] < 0x80 && s[1] < 0x80 {
		zzrt.Assert(string(rs) == s, "ascii roundtrip")
		zzrt.Cover("ascii")
	}
	up := strings.ToUpper(s)
	if s[0] >= 'a' && s[0] <= 'z' && s[1] < 0x80 {
		zzrt.Assert(up[0] == s[0]-32, "upper")
		zzrt.Cover("upper")
	}
}

func S_float() {
	f := zzrt.Float64("f")
	g := zzrt.Float64("g")
	if f < g {
		zzrt.Assert(!(g < f) && f != g, "order")
		zzrt.Cover("lt")
	}
	if f != f {
		zzrt.Cover("nan")
	}
}

// Sym lists the symbolic programs with the expected verdict.
func Sym() map[string]func() {
	return map[string]func(){
		"S_binary_roundtrip": S_binary_roundtrip, "V_abs": V_abs, "V_strmatch": V_strmatch, "S_atoi": S_atoi, "V_atoi_sign": V_atoi_sign,
		"S_map_symkey": S_map_symkey, "S_index_sym": S_index_sym, "V_index_oob": V_index_oob, "S_shifts_div": S_shifts_div,
		"V_div_zero": V_div_zero, "S_struct_eq": S_struct_eq, "S_runes": S_runes, "S_float": S_float,
	}
}
