// Package selftest holds programs that are run both natively and inside the symbolic
// executor; results must agree (translator validation).
package selftest

import (
	"bytes"
	"encoding/binary"
	"errors"
	"fmt"
	"math"
	"sort"
	"strconv"
	"strings"
	"unicode"
	"unicode/utf8"
)

type shape interface {
	Area() int
	Name() string
}

type rect struct{ w, h int }
type sq struct{ s int }

func (r rect) Area() int    { return r.w * r.h }
func (r rect) Name() string { return "rect" }
func (s *sq) Area() int     { return s.s * s.s }
func (s *sq) Name() string  { return "sq" }

type node struct {
	val         int
	left, right *node
}

func (n *node) insert(v int) *node {
	if n == nil {
		return &node{val: v}
	}
	if v < n.val {
		n.left = n.left.insert(v)
	} else {
		n.right = n.right.insert(v)
	}
	return n
}

func (n *node) walk(f func(int)) {
	if n == nil {
		return
	}
	n.left.walk(f)
	f(n.val)
	n.right.walk(f)
}

type myErr struct{ code int }

func (e *myErr) Error() string { return "myErr " + strconv.Itoa(e.code) }

var sentinel = errors.New("sentinel")

func T_arith() string {
	var sb strings.Builder
	var a int8 = 127
	a++
	var b uint8 = 0
	b--
	var c int32 = math.MinInt32
	c = -c
	d := int64(-7) / 2
	e := int64(-7) % 2
	f := uint32(1) << 31
	g := int32(f)
	h := uint64(1)<<63 | 5
	i := int16(h)
	var sh uint = 70
	j := 1 << (sh % 64)
	k := int8(-128) >> 3
	l := uint16(0xff00) >> 4
	m := 5 &^ 3
	fmt.Fprintf(&sb, "%d %d %d %d %d %d %d %d %d %d %d %d %d", a, b, c, d, e, f, g, h, i, j, k, l, m)
	x := 3.5
	y := float32(x) * 1.1
	sb.WriteString(strconv.FormatFloat(float64(y), 'g', -1, 32))
	sb.WriteString(fmt.Sprint(int(x), uint8(b+200)+100, math.Float64bits(1.5), math.Float64frombits(0x4000000000000000)))
	return sb.String()
}

func T_strings() string {
	s := "héllo, wörld"
	var parts []string
	for i, r := range s {
		if r > 127 {
			parts = append(parts, fmt.Sprintf("%d:%c", i, r))
		}
	}
	rs := []rune(s)
	bs := []byte(s)
	out := strings.Join(parts, ",") + "|" + string(rs[1:4]) + "|" + string(bs[:3]) + "|" + strings.ToUpper(s) + "|" +
		strings.Replace(s, "l", "L", 2) + "|" + strings.TrimSpace("  x y ") + "|" + strings.Repeat("ab", 3)
	out += fmt.Sprint(strings.Index(s, "wör"), strings.LastIndex(s, "l"), strings.Contains(s, "xyz"), strings.HasPrefix(s, "hé"),
		strings.Split("a,b,,c", ","), strings.Fields(" a  b c "), utf8.RuneCountInString(s), strings.EqualFold("Go", "GO"),
		strings.Title("foo bar"), strings.TrimLeft("xxabc", "x"), strings.TrimSuffix("abc.go", ".go"), len(s), s < "i", s[1])
	out += strconv.Quote("a\"b\n\x00é") + strconv.Itoa(-45) + fmt.Sprintf("%q %v %5d|%-5s|%05.2f %x %t %T", "q", []int{1, 2}, 42, "ab", 3.14159, 255, true, bs)
	n, err := strconv.Atoi("12x")
	out += fmt.Sprint(n, err)
	n2, err2 := strconv.ParseInt("-0x1f", 0, 64)
	out += fmt.Sprint(n2, err2)
	f, _ := strconv.ParseFloat("1e3", 64)
	out += fmt.Sprint(f, unicode.IsUpper('A'), unicode.IsLetter('é'), unicode.IsDigit('x'), unicode.ToLower('Q'))
	return out
}

func T_slices_maps() string {
	a := []int{5, 2, 8, 1}
	b := a[1:3]
	b = append(b, 99) // overwrites a[3]
	c := append(b, 100) // new backing
	c[0] = -1
	sort.Ints(a)
	m := map[string][]int{}
	m["x"] = append(m["x"], 1)
	m["y"] = append(m["y"], 2, 3)
	delete(m, "zz")
	keys := make([]string, 0)
	for k := range m {
		keys = append(keys, k)
	}
	sort.Strings(keys)
	type pt struct{ x, y int }
	pm := map[pt]string{{1, 2}: "a", {3, 4}: "b"}
	v, ok := pm[pt{3, 4}]
	_, ok2 := pm[pt{9, 9}]
	var arr [4]int
	arr2 := arr
	arr2[1] = 7
	parr := &arr
	parr[2] = 9
	s3 := arr[:]
	s3[0] = 1
	copy(s3[1:], []int{4, 5, 6, 7})
	var nilm map[string]int
	mi := map[interface{}]int{1: 1, "a": 2, pt{1, 1}: 3}
	people := []struct {
		n string
		a int
	}{{"bob", 30}, {"al", 25}, {"cy", 30}}
	sort.Slice(people, func(i, j int) bool { return people[i].a < people[j].a })
	return fmt.Sprint(a, b, c, keys, m["y"], v, ok, ok2, arr, arr2, s3, len(nilm), nilm["q"], mi[pt{1, 1}], mi["a"], cap(b) >= 3, people[0].n, len(c))
}

func T_iface_closures() string {
	shapes := []shape{rect{2, 3}, &sq{4}}
	total := 0
	names := ""
	for _, s := range shapes {
		total += s.Area()
		names += s.Name()
		if r, ok := s.(rect); ok {
			total += r.w
		}
		switch v := s.(type) {
		case *sq:
			total += v.s * 100
		}
	}
	var root *node
	for _, v := range []int{5, 3, 8, 1, 4} {
		root = root.insert(v)
	}
	var out []int
	root.walk(func(v int) { out = append(out, v) })
	counter := func() func() int {
		c := 0
		return func() int { c++; return c }
	}()
	counter()
	counter()
	f := (*sq).Area
	g := shapes[0].Area
	var e error = &myErr{7}
	wrapped := fmt.Errorf("ctx: %w", e)
	var me *myErr
	as := errors.As(wrapped, &me)
	is := errors.Is(fmt.Errorf("x: %w", sentinel), sentinel)
	var nilshape shape
	return fmt.Sprint(total, names, out, counter(), f(&sq{3}), g(), wrapped, as, me.code, is, nilshape == nil, e != nil, errors.Unwrap(wrapped) == e)
}

func divide(a, b int) (res int, err error) {
	defer func() {
		if r := recover(); r != nil {
			err = fmt.Errorf("recovered: %v", r)
		}
	}()
	return a / b, nil
}

func deferOrder() (s string) {
	for i := 0; i < 3; i++ {
		defer func(i int) { s += strconv.Itoa(i) }(i)
	}
	return "x"
}

func mustIdx(a []int, i int) (v int, msg string) {
	defer func() {
		if r := recover(); r != nil {
			if e, ok := r.(error); ok {
				msg = e.Error()
			} else {
				msg = fmt.Sprint(r)
			}
		}
	}()
	return a[i], ""
}

func T_defer_panic() string {
	r1, e1 := divide(6, 3)
	r2, e2 := divide(1, 0)
	_, m := mustIdx([]int{1, 2}, 5)
	var np *node
	m2 := func() (msg string) {
		defer func() { msg = fmt.Sprint(recover()) }()
		return strconv.Itoa(np.val)
	}()
	m3 := func() (msg string) {
		defer func() { msg = fmt.Sprint(recover()) }()
		var s shape
		return s.Name()
	}()
	m4 := func() (msg string) {
		defer func() { msg = fmt.Sprint(recover()) }()
		var i interface{} = "str"
		return strconv.Itoa(i.(int))
	}()
	m5 := func() (msg string) {
		defer func() { msg = fmt.Sprint(recover()) }()
		panic(fmt.Errorf("custom %d", 5))
	}()
	return fmt.Sprint(r1, e1, r2, e2, m, "|", m2, "|", m3, "|", m4, "|", m5, "|", deferOrder())
}

func T_bytes_binary() string {
	var buf bytes.Buffer
	buf.WriteString("hello")
	buf.WriteByte(' ')
	buf.Write([]byte{0x41, 0x42})
	b := make([]byte, 8)
	binary.BigEndian.PutUint32(b, 0xdeadbeef)
	binary.LittleEndian.PutUint16(b[4:], 0x1234)
	x := binary.BigEndian.Uint64(b)
	var tmp [binary.MaxVarintLen64]byte
	n := binary.PutUvarint(tmp[:], 300)
	u, _ := binary.Uvarint(tmp[:n])
	return fmt.Sprint(buf.String(), buf.Len(), b, x, n, u, bytes.Equal(b[:2], []byte{0xde, 0xad}), bytes.IndexByte(b, 0xbe), bytes.Contains(buf.Bytes(), []byte("lo A")),
		bytes.Compare([]byte("a"), []byte("b")), string(bytes.ToUpper([]byte("abc"))), bytes.HasSuffix(buf.Bytes(), []byte("AB")))
}

type stack[T any] struct{ items []T }

func (s *stack[T]) push(x T) { s.items = append(s.items, x) }
func (s *stack[T]) pop() T {
	x := s.items[len(s.items)-1]
	s.items = s.items[:len(s.items)-1]
	return x
}

func mapKeys[K comparable, V any](m map[K]V) []K {
	r := make([]K, 0, len(m))
	for k := range m {
		r = append(r, k)
	}
	return r
}

func T_generics_chan() string {
	s := &stack[string]{}
	s.push("a")
	s.push("b")
	x := s.pop()
	ks := mapKeys(map[int]bool{3: true})
	ch := make(chan int)
	done := make(chan struct{})
	sum := 0
	go func() {
		for v := range ch {
			sum += v
		}
		close(done)
	}()
	for i := 1; i <= 4; i++ {
		ch <- i
	}
	close(ch)
	<-done
	bc := make(chan string, 2)
	bc <- "p"
	bc <- "q"
	sel := ""
	select {
	case v := <-bc:
		sel = v
	default:
		sel = "none"
	}
	return fmt.Sprint(x, ks, sum, sel, len(bc), min(3, 1, 2), max(2.5, 1.0))
}

type embedded struct {
	rect
	tag string
}

type color int

const (
	red color = iota
	green
)

func (c color) String() string { return [...]string{"R", "G"}[c] }

func T_struct_misc() string {
	e := embedded{rect{2, 5}, "t"}
	e2 := e
	e2.w = 9
	pe := &e
	pe.h = 7
	arr := [3]rect{{1, 1}, {2, 2}}
	arr[2] = arr[1]
	arr[2].w = 5
	type pair struct {
		a [2]int
		r rect
	}
	p1 := pair{[2]int{1, 2}, rect{3, 4}}
	p2 := p1
	p2.a[0] = 100
	eq := p1 == pair{[2]int{1, 2}, rect{3, 4}}
	var ifc interface{} = p1
	eq2 := ifc == interface{}(p2)
	lbl := ""
outer:
	for i := 0; i < 3; i++ {
		for j := 0; j < 3; j++ {
			if j == 2 {
				continue outer
			}
			if i == 2 {
				break outer
			}
			lbl += strconv.Itoa(i*10 + j)
		}
	}
	sw := ""
	for _, v := range []int{1, 2, 3, 4} {
		switch {
		case v == 1:
			sw += "one"
			fallthrough
		case v == 2:
			sw += "two"
		case v > 3:
			sw += "big"
		default:
			sw += "d"
		}
	}
	return fmt.Sprint(e.Area(), e2.Area(), arr, p1, p2, eq, eq2, lbl, sw, green, fmt.Sprintf("%v %d %s", red, green, green))
}

// All returns the concrete programs.
func All() map[string]func() string {
	return map[string]func() string{
		"T_arith": T_arith, "T_strings": T_strings, "T_slices_maps": T_slices_maps, "T_iface_closures": T_iface_closures,
		"T_defer_panic": T_defer_panic, "T_bytes_binary": T_bytes_binary, "T_generics_chan": T_generics_chan, "T_struct_misc": T_struct_misc,
	}
}
