package selftest

import (
	"errors"
	"fmt"
	"strconv"
	"strings"
)

func D1() string { return strconv.FormatFloat(float64(float32(3.5)*1.1), 'g', -1, 32) }
func D2() string {
	s := "héllo, wörld"
	return strings.ToUpper(s)
}
func D3() string { return strings.Replace("héllo, wörld", "l", "L", 2) + strings.Title("foo bar") }
func D4() string {
	return fmt.Sprint(errors.Is(fmt.Errorf("x: %w", sentinel), sentinel))
}
func D5() string {
	s := "héllo, wörld"
	return fmt.Sprint(strings.Index(s, "wör"), strings.LastIndex(s, "l"), strings.Contains(s, "xyz"), strings.HasPrefix(s, "hé"),
		strings.Split("a,b,,c", ","), strings.Fields(" a  b c "))
}
func D6() string {
	return strconv.Quote("a\"b\n\x00é") + strconv.Itoa(-45) + fmt.Sprintf("%q %v %5d|%-5s|%05.2f %x %t", "q", []int{1, 2}, 42, "ab", 3.14159, 255, true)
}

var tbl = [8]uint8{1: 1, 3: 1}
type fi struct{ a, b uint; c int }
var f32 = fi{23, 8, -127}

func D7() string { return fmt.Sprint(tbl[1], tbl[2], tbl[3], f32.a, f32.b, f32.c) }
func D8() string {
	n := 0
	for i := 0; i < len(tbl); i++ {
		n += int(tbl[i])
	}
	x := &f32
	return fmt.Sprint(n, x.a, strings.Fields(" a b"), strconv.FormatFloat(3.5, 'g', -1, 32))
}
