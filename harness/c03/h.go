//zz:target parser
package parser

import (
	"strconv"
	"strings"

	zzrt "github.com/cloudwego/thriftgo/internal/zzverifrt"
)

// ---------------------------------------------------------------------------------------------
// 1. totality: context prefix + n free bytes + suffix

var zzCtx = [][2]string{
	{"", ""},
	{"include \"", "\"\n"},
	{"namespace go ", "\n"},
	{"namespace ", " x\n"},
	{"const i32 c = ", "\n"},
	{"const string s = \"", "\"\n"},
	{"const string s = '", "'\n"},
	{"const list<i32> l = [", "]\n"},
	{"const map<string,i32> m = {", "}\n"},
	{"typedef ", " T\n"},
	{"typedef map<", "> T\n"},
	{"enum E {", "}\n"},
	{"enum E { A = ", " }\n"},
	{"struct S {", "}\n"},
	{"struct S { 1: ", " f }\n"},
	{"struct S { ", ": i32 f }\n"},
	{"struct S { 1: i32 f = ", " }\n"},
	{"struct S { 1: i32 f (", ") }\n"},
	{"struct S { 1: i32 f (a = \"", "\") }\n"},
	{"struct S { 1: i32 f ", " 2: i32 g }\n"},
	{"union U {", "}\n"},
	{"exception X {", "}\n"},
	{"service V {", "}\n"},
	{"service V extends ", " {}\n"},
	{"service V { void f(", ") }\n"},
	{"service V { void f() throws (", ") }\n"},
	{"service V { ", " f() }\n"},
	{"service V { oneway void f() ", " }\n"},
	{"struct S {} (", ")\n"},
	{"/*", "*/ struct S {}\n"},
	{"#", "\nstruct S {}\n"},
	{"struct S { 1: i32 f //", "\n}\n"},
	{"const double d = ", "\n"},
	{"const i32 c = 0x", "\n"},
}

func H_C03_total(ctx int, n int) {
	s := zzrt.String("s", n)
	for i := 0; i < len(s); i++ {
		zzrt.Assume(s[i] < 0x80)
	}
	ast, err := ParseString("a.thrift", zzCtx[ctx][0]+s+zzCtx[ctx][1])
	zzrt.Assert((ast == nil) != (err == nil), "exactly one of AST and error")
	if err == nil {
		zzrt.Cover("accepted")
	} else {
		zzrt.Cover("rejected")
	}
}

// H_C03_total8: one free byte >= 0x80 (rune decoding) followed by n-1 free ASCII bytes.
func H_C03_total8(ctx int, n int) {
	s := zzrt.String("s", n)
	zzrt.Assume(s[0] >= 0x80)
	for i := 1; i < len(s); i++ {
		zzrt.Assume(s[i] < 0x80)
	}
	ast, err := ParseString("a.thrift", zzCtx[ctx][0]+s+zzCtx[ctx][1])
	zzrt.Assert((ast == nil) != (err == nil), "exactly one of AST and error")
	zzrt.Cover("end")
}

// ---------------------------------------------------------------------------------------------
// 2. numbering: explicit ids / enum values in every spelling, implicit = previous+1

// zzNumber returns a spelling of an integer with free digits together with its value.
// kind: 0 none, 1 one decimal digit, 2 two decimal digits (no leading zero), 3 negative one
// digit, 4 "+" one digit, 5 hex 0x + one hex digit, 6 hex 0x + two hex digits, 7 octal 0o + one digit.
func zzNumber(name string, kind int) (text string, val int64) {
	switch kind {
	case 1, 3, 4:
		d := zzrt.Byte(name)
		zzrt.Assume(d >= '0' && d <= '9')
		v := int64(d - '0')
		switch kind {
		case 3:
			return "-" + string([]byte{d}), -v
		case 4:
			return "+" + string([]byte{d}), v
		}
		return string([]byte{d}), v
	case 2:
		d1, d2 := zzrt.Byte(name), zzrt.Byte(name)
		zzrt.Assume(d1 >= '1' && d1 <= '9' && d2 >= '0' && d2 <= '9')
		return string([]byte{d1, d2}), int64(d1-'0')*10 + int64(d2-'0')
	case 5, 6:
		n := kind - 4
		v := int64(0)
		b := make([]byte, n)
		for i := 0; i < n; i++ {
			h := zzrt.Byte(name)
			zzrt.Assume((h >= '0' && h <= '9') || (h >= 'a' && h <= 'f') || (h >= 'A' && h <= 'F'))
			var x int64
			switch {
			case h <= '9':
				x = int64(h - '0')
			case h >= 'a':
				x = int64(h-'a') + 10
			default:
				x = int64(h-'A') + 10
			}
			v = v*16 + x
			b[i] = h
		}
		return "0x" + string(b), v
	case 7:
		d := zzrt.Byte(name)
		zzrt.Assume(d >= '0' && d <= '7')
		return "0o" + string([]byte{d}), int64(d - '0')
	}
	return "", 0
}

var zzFieldHolders = [][2]string{
	{"struct S {\n", "}\n"},
	{"union S {\n", "}\n"},
	{"exception S {\n", "}\n"},
	{"service V { void f(\n", ") }\n"},
	{"service V { void f() throws (\n", ") }\n"},
}

func zzFieldsOf(ast *Thrift, holder int) []*Field {
	switch holder {
	case 0:
		return ast.Structs[0].Fields
	case 1:
		return ast.Unions[0].Fields
	case 2:
		return ast.Exceptions[0].Fields
	case 3:
		return ast.Services[0].Functions[0].Arguments
	default:
		return ast.Services[0].Functions[0].Throws
	}
}

// H_C03_ids: three fields; the spelling kind of each id is k0,k1,k2 (0 = implicit).
func H_C03_ids(holder, k0, k1, k2 int) {
	kinds := []int{k0, k1, k2}
	names := []string{"a", "b", "c"}
	src := zzFieldHolders[holder][0]
	want := make([]int64, 3)
	prev := int64(0)
	for i, k := range kinds {
		txt, v := zzNumber("d", k)
		if k == 0 {
			v = prev + 1
		} else {
			src += txt + ": "
		}
		want[i] = v
		prev = v
		src += "i32 " + names[i] + "\n"
	}
	src += zzFieldHolders[holder][1]
	ast, err := ParseString("a.thrift", src)
	zzrt.Assert(err == nil, "document with numbered fields parses")
	fs := zzFieldsOf(ast, holder)
	zzrt.Assert(len(fs) == 3, "three fields")
	for i := range fs {
		zzrt.Assert(fs[i].Name == names[i], "field name and order")
		zzrt.Assert(int64(fs[i].ID) == want[i], "field id = written value, or previous+1 (first: 1)")
	}
	zzrt.Cover("end")
}

// H_C03_enum: three enum values with spelling kinds k0,k1,k2 (0 = implicit).
func H_C03_enum(k0, k1, k2 int) {
	kinds := []int{k0, k1, k2}
	names := []string{"A", "B", "C"}
	src := "enum E {\n"
	want := make([]int64, 3)
	prev := int64(-1)
	for i, k := range kinds {
		txt, v := zzNumber("d", k)
		src += names[i]
		if k == 0 {
			v = prev + 1
		} else {
			src += " = " + txt
		}
		want[i] = v
		prev = v
		src += "\n"
	}
	src += "}\n"
	ast, err := ParseString("a.thrift", src)
	zzrt.Assert(err == nil, "document with enum values parses")
	vs := ast.Enums[0].Values
	zzrt.Assert(len(vs) == 3, "three values")
	for i := range vs {
		zzrt.Assert(vs[i].Name == names[i], "enum value name and order")
		zzrt.Assert(vs[i].Value == want[i], "enum value = written value, or previous+1 (first: 0)")
	}
	zzrt.Cover("end")
}

// ---------------------------------------------------------------------------------------------
// 3. literals: only the delimiter in use is unescaped

// zzUnescape is the documented rule (docs/string-literals-in-the-IDL.md): a backslash is
// dropped exactly when it precedes the delimiter in use; `\\` is kept and shields the next byte.
func zzUnescape(body string, q byte) string {
	out := make([]byte, 0, len(body))
	for i := 0; i < len(body); i++ {
		c := body[i]
		if c == '\\' && i+1 < len(body) {
			if body[i+1] == '\\' {
				out = append(out, c, c)
				i++
				continue
			}
			if body[i+1] == q {
				continue
			}
		}
		out = append(out, c)
	}
	return string(out)
}

// H_C03_literal: literal body of n free ASCII bytes at position pos, quote q (0: ", 1: ').
func H_C03_literal(pos, q, n int) {
	quote := []byte{'"', '\''}[q]
	qs := string([]byte{quote})
	body := zzrt.String("b", n)
	for i := 0; i < len(body); i++ {
		zzrt.Assume(body[i] < 0x80)
	}
	lit := qs + body + qs
	var src string
	switch pos {
	case 0:
		src = "const string s = " + lit + "\n"
	case 1:
		src = "struct S { 1: string f = " + lit + " }\n"
	case 2:
		src = "struct S { 1: string f (k = " + lit + ") }\n"
	case 3:
		src = "include " + lit + "\n"
	case 4:
		src = "struct S { 1: string f } (a = " + lit + ", a = " + lit + ")\n"
	}
	ast, err := ParseString("a.thrift", src)
	if err != nil {
		zzrt.Cover("rejected")
		return
	}
	// the literal must have been the whole of what we wrote: exactly one definition
	var got string
	ok := false
	switch pos {
	case 0:
		if len(ast.Constants) == 1 && ast.Constants[0].Value.Type == ConstType_ConstLiteral {
			got, ok = ast.Constants[0].Value.TypedValue.GetLiteral(), true
		}
	case 1:
		if len(ast.Structs) == 1 && len(ast.Structs[0].Fields) == 1 && ast.Structs[0].Fields[0].Default != nil && ast.Structs[0].Fields[0].Default.Type == ConstType_ConstLiteral {
			got, ok = ast.Structs[0].Fields[0].Default.TypedValue.GetLiteral(), true
		}
	case 2:
		if len(ast.Structs) == 1 && len(ast.Structs[0].Fields) == 1 && len(ast.Structs[0].Fields[0].Annotations) == 1 && len(ast.Structs[0].Fields[0].Annotations[0].Values) == 1 {
			got, ok = ast.Structs[0].Fields[0].Annotations[0].Values[0], true
		}
	case 3:
		if len(ast.Includes) == 1 {
			got, ok = ast.Includes[0].Path, true
		}
	case 4:
		if len(ast.Structs) == 1 && len(ast.Structs[0].Annotations) == 1 && len(ast.Structs[0].Annotations[0].Values) == 2 {
			zzrt.Assert(ast.Structs[0].Annotations[0].Values[0] == ast.Structs[0].Annotations[0].Values[1], "repeated key accumulates both values")
			got, ok = ast.Structs[0].Annotations[0].Values[1], true
		}
	}
	if !ok {
		// the free bytes closed the literal early and formed other syntax: outside this harness
		zzrt.Cover("other-shape")
		return
	}
	// if the body contains an unescaped delimiter the shapes above cannot match with one literal,
	// except when the remainder happens to parse; compare only when the body is a single literal
	if zzSingleLiteral(body, quote) {
		zzrt.Assert(got == zzUnescape(body, quote), "literal text: only the delimiter in use is unescaped")
		zzrt.Cover("compared")
	}
}

// zzSingleLiteral reports whether body contains no unescaped delimiter and does not end in
// an unpaired backslash (so that the closing quote really closes it), per the grammar
// EscapeLiteralChar <- '\\' ["'].
func zzSingleLiteral(body string, q byte) bool {
	for i := 0; i < len(body); i++ {
		c := body[i]
		if c == '\\' && i+1 < len(body) && (body[i+1] == '"' || body[i+1] == '\'') {
			i++
			continue
		}
		if c == q {
			return false
		}
		if c == '\\' && i+1 == len(body) {
			return false
		}
	}
	return true
}

// ---------------------------------------------------------------------------------------------
// 4. annotations with repeated keys accumulate in order

func H_C03_annotations() {
	keys := []string{"k", "j"}
	n := 3
	src := "struct S { 1: i32 f ("
	var ks [3]int
	for i := 0; i < n; i++ {
		ks[i] = zzrt.Choose("key", 2)
		src += keys[ks[i]] + " = \"v" + strconv.Itoa(i) + "\""
		switch zzrt.Choose("sep", 3) {
		case 0:
			src += ", "
		case 1:
			src += "; "
		default:
			src += " "
		}
	}
	src += ") }\n"
	ast, err := ParseString("a.thrift", src)
	zzrt.Assert(err == nil, "annotated field parses")
	anns := ast.Structs[0].Fields[0].Annotations
	// reference: group by key in order of first appearance, values in order
	var wantKeys []string
	wantVals := map[string][]string{}
	for i := 0; i < n; i++ {
		k := keys[ks[i]]
		if _, ok := wantVals[k]; !ok {
			wantKeys = append(wantKeys, k)
		}
		wantVals[k] = append(wantVals[k], "v"+strconv.Itoa(i))
	}
	zzrt.Assert(len(anns) == len(wantKeys), "one annotation per distinct key")
	for i, a := range anns {
		zzrt.Assert(a.Key == wantKeys[i], "keys in order of first appearance")
		zzrt.Assert(strings.Join(a.Values, "|") == strings.Join(wantVals[a.Key], "|"), "values accumulate in order")
	}
	zzrt.Cover("end")
}

// ---------------------------------------------------------------------------------------------
// 5. layout independence: whitespace / separators / comments at token boundaries

// the document as a token list; "\x01" marks a list-separator position (',' ';' or nothing),
// tokens are joined by a layout hole.
var zzDoc = []string{
	"namespace", "go", "a.b", "include", "\"x.thrift\"",
	"typedef", "map", "<", "string", ",", "list", "<", "i32", ">", ">", "T", "(", "k", "=", "'v'", ")",
	"const", "list", "<", "i32", ">", "C", "=", "[", "1", "\x01", "-2", "\x01", "0x1F", "\x01", "]", "\x01",
	"const", "map", "<", "string", ",", "double", ">", "M", "=", "{", "\"a\"", ":", "1.5", "\x01", "'b'", ":", "2e3", "\x01", "}",
	"enum", "E", "{", "A", "=", "1", "\x01", "B", "\x01", "C", "=", "5", "(", "a", "=", "\"b\"", ")", "\x01", "}",
	"struct", "S", "{", "1", ":", "required", "i32", "a", "=", "3", "\x01", "optional", "T", "b", "\x01", "5", ":", "x.Y", "c", "(", "k", "=", "\"v\"", "\x01", "k", "=", "'w'", ")", "\x01", "}", "(", "s", "=", "\"t\"", ")",
	"union", "U", "{", "1", ":", "string", "s", "\x01", "2", ":", "binary", "b", "}",
	"exception", "X", "{", "1", ":", "string", "msg", "}",
	"service", "V", "extends", "x.W", "{",
	"oneway", "void", "ping", "(", ")", "\x01",
	"list", "<", "S", ">", "get", "(", "1", ":", "i64", "id", "\x01", "2", ":", "set", "<", "string", ">", "tags", ")", "throws", "(", "1", ":", "X", "e", "\x01", ")", "(", "api", "=", "\"g\"", ")", "\x01",
	"}",
}

func zzRender(hole int, fill string, sepPos int, sep string) string {
	var sb strings.Builder
	nsep := 0
	for i, tok := range zzDoc {
		if tok == "\x01" {
			if nsep == sepPos {
				sb.WriteString(sep)
			} else {
				sb.WriteString(",")
			}
			nsep++
			continue
		}
		if i == hole {
			sb.WriteString(fill)
		} else if i > 0 {
			sb.WriteString(" ")
		}
		sb.WriteString(tok)
	}
	sb.WriteString("\n")
	return sb.String()
}

func zzCanonical() string {
	ast, err := ParseString("a.thrift", zzRender(-1, "", -1, ""))
	if err != nil {
		panic("canonical document does not parse: " + err.Error())
	}
	return ZZSig(ast, false)
}

func zzNumSep() int {
	n := 0
	for _, t := range zzDoc {
		if t == "\x01" {
			n++
		}
	}
	return n
}

// H_C03_layout_ws: the hole before token `hole` is filled with 1+n free whitespace bytes.
func H_C03_layout_ws(hole, n int) {
	if hole <= 0 || hole >= len(zzDoc) || zzDoc[hole] == "\x01" {
		return
	}
	ws := zzrt.String("w", n)
	for i := 0; i < len(ws); i++ {
		c := ws[i]
		zzrt.Assume(c == ' ' || c == '\t' || c == '\v' || c == '\r' || c == '\n')
	}
	ast, err := ParseString("a.thrift", zzRender(hole, " "+ws, -1, ""))
	zzrt.Assert(err == nil, "re-laid-out document parses")
	zzrt.Assert(ZZSig(ast, false) == zzCanonical(), "AST is independent of whitespace")
	zzrt.Cover("end")
}

// H_C03_layout_comment: the hole is filled with a comment of the given style with n free bytes.
func H_C03_layout_comment(hole, style, n int) {
	if hole <= 0 || hole >= len(zzDoc) || zzDoc[hole] == "\x01" {
		return
	}
	body := zzrt.String("c", n)
	for i := 0; i < len(body); i++ {
		c := body[i]
		zzrt.Assume(c < 0x80 && c != '\r' && c != '\n')
		if style == 2 {
			zzrt.Assume(c != '*' && c != '/')
		}
	}
	var fill string
	switch style {
	case 0:
		fill = " #" + body + "\n"
	case 1:
		fill = " //" + body + "\n"
	default:
		fill = " /*" + body + "*/ "
	}
	ast, err := ParseString("a.thrift", zzRender(hole, fill, -1, ""))
	zzrt.Assert(err == nil, "document with a comment parses")
	zzrt.Assert(ZZSig(ast, false) == zzCanonical(), "AST is independent of comments")
	zzrt.Cover("end")
}

// H_C03_layout_sep: list separator number sepPos is ',' ';' or absent.
func H_C03_layout_sep(sepPos int) {
	if sepPos >= zzNumSep() {
		return
	}
	sep := []string{",", ";", " "}[zzrt.Choose("sep", 3)]
	ast, err := ParseString("a.thrift", zzRender(-1, "", sepPos, sep))
	zzrt.Assert(err == nil, "document with alternative separator parses")
	zzrt.Assert(ZZSig(ast, false) == zzCanonical(), "AST is independent of the list separator")
	zzrt.Cover("end")
}

// differential programs
func zzSigOf(src string) string {
	ast, err := ParseString("a.thrift", src)
	if err != nil {
		return "ERR " + err.Error()
	}
	return ZZSig(ast, false)
}

func D_C03_canonical() string { return zzCanonical() }
func D_C03_misc() string {
	return zzSigOf("struct A { 0x10: i32 a, 2: i32 b, i32 c }\nenum E { A = 0x10, B, C = -1, D }\n") +
		zzSigOf("const string s = 'a\\\"b'\nconst string t = \"a\\\"b\"\nconst string u = \"\"\n") +
		zzSigOf("struct { }") + zzSigOf("service S { void f(1: i32 a, 2: string b) throws (1: E e) (x='y'); }") +
		zzSigOf("const map<string, list<i32>> m = {'a': [1, 2], \"b\": []}\nconst double d = -1.5e-3\n")
}
func D_C03_unicode() string { return zzSigOf("const string s = \"héllo→\" // ünï\nstruct S { 1: string f = 'ß' }\n") }

// ---------------------------------------------------------------------------------------------
// 6. double constants in every spelling (digits enumerated through the solver)

func zzPow10(e int) float64 {
	r := 1.0
	for i := 0; i < e; i++ {
		r *= 10
	}
	for i := 0; i > e; i-- {
		r /= 10
	}
	return r
}

// H_C03_double: form 0: A.B  1: AeC  2: A.BeC  3: -A.B  4: AE+C  5: Ae-C  6: .B  7: +A.BE-C
func H_C03_double(form int) {
	a, b, c := zzrt.Choose("a", 10), zzrt.Choose("b", 10), zzrt.Choose("c", 4)
	da, db, dc := string([]byte{'0' + byte(a)}), string([]byte{'0' + byte(b)}), string([]byte{'0' + byte(c)})
	var txt string
	var want float64
	ab := float64(a) + float64(b)/10
	switch form {
	case 0:
		txt, want = da+"."+db, ab
	case 1:
		txt, want = da+"e"+dc, float64(a)*zzPow10(c)
	case 2:
		txt, want = da+"."+db+"e"+dc, ab*zzPow10(c)
	case 3:
		txt, want = "-"+da+"."+db, -ab
	case 4:
		txt, want = da+"E+"+dc, float64(a)*zzPow10(c)
	case 5:
		txt, want = da+"e-"+dc, float64(a)*zzPow10(-c)
	case 6:
		txt, want = "."+db, float64(b)/10
	default:
		txt, want = "+"+da+"."+db+"E-"+dc, ab*zzPow10(-c)
	}
	ast, err := ParseString("a.thrift", "const double d = "+txt+"\nstruct S { 1: double f = "+txt+" }\n")
	zzrt.Assert(err == nil, "double constant parses")
	v := ast.Constants[0].Value
	zzrt.Assert(v.Type == ConstType_ConstDouble && v.TypedValue.Double != nil, "is a double constant")
	got := *v.TypedValue.Double
	diff := got - want
	if diff < 0 {
		diff = -diff
	}
	zzrt.Assert(diff <= 1e-9*(1+want*want), "double constant has the written value")
	got2 := *ast.Structs[0].Fields[0].Default.TypedValue.Double
	zzrt.Assert(got2 == got, "default value agrees")
	zzrt.Cover("end")
}
