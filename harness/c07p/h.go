//zz:target plugin
package plugin

import (
	"github.com/cloudwego/thriftgo/parser"
	"github.com/cloudwego/thriftgo/semantic"

	zzrt "github.com/cloudwego/thriftgo/internal/zzverifrt"
)

// What a plugin is sent on stdin: MarshalRequest of the compiler's request, computed with
// insertion-order map iteration and with perturbed iteration orders.

var zzC07Files = map[string]string{
	"main.thrift": `include "a.thrift"
include "b.thrift"
namespace go c07.p
struct S { 1: a.A x (k1 = "1", k2 = "2"); 2: b.B y }
enum E { P = 1 }
const map<string, i32> CM = {"a": 1, "b": 2}
service Svc { void f() }
`,
	"a.thrift": "include \"b.thrift\"\nstruct A { 1: b.B v }\n",
	"b.thrift": "struct B { 1: i32 v }\nstruct B2 { 1: i32 v }\n",
}

func zzC07Request(clearNames bool) []byte {
	ast, err := parser.ParseBatchString("main.thrift", zzC07Files, nil)
	if err != nil {
		panic("corpus does not parse: " + err.Error())
	}
	if _, err := semantic.NewChecker(semantic.Options{FixWarnings: true}).CheckAll(ast); err != nil {
		panic("corpus rejected: " + err.Error())
	}
	if err := semantic.ResolveSymbols(ast); err != nil {
		panic("corpus does not resolve: " + err.Error())
	}
	if clearNames {
		var walk func(a *parser.Thrift)
		walk = func(a *parser.Thrift) {
			a.Name2Category = nil
			for _, inc := range a.Includes {
				walk(inc.Reference)
			}
		}
		walk(ast)
	}
	req := &Request{Version: "v", GeneratorParameters: []string{"a=b", "c=d"}, PluginParameters: []string{"x=y"}, Language: "go", OutputPath: "out", Recursive: true, AST: ast}
	m := map[string]*parser.Thrift{}
	compressThriftInclude(req.AST, m)
	bs, _ := MarshalRequest(req)
	decompressThriftInclude(req.AST, m)
	plain, _ := MarshalRequest(req)
	return append(bs, plain...)
}

func H_C07_request(budget int) {
	zzrt.NondetMapOrderBudget(0)
	want0 := zzC07Request(true)
	want1 := zzC07Request(false)
	zzrt.NondetMapOrderBudget(budget)
	got0 := zzC07Request(true)
	got1 := zzC07Request(false)
	zzrt.NondetMapOrderBudget(0)
	zzrt.Cover("end")
	zzrt.Assert(string(got0) == string(want0), "the request bytes (symbol tables aside) depend on map iteration order")
	zzrt.Known("KF-C07-plugin-request-symbol-table-order", string(got1) == string(want1),
		"parser.Thrift.Name2Category (map<string,Category>, filled by semantic.ResolveSymbols for every file) is written by the generated codec in map iteration order, so the request a plugin reads on stdin differs from run to run as soon as a file declares two names")
}
