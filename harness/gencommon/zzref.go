package PKGNAME

// Reference codec for the Thrift binary protocol, driven by schema tables printed from the
// IDL model (independent of the generator under test), and a generic value tree.

import (
	"math"

	zzrt "zzgen/internal/zzverifrt"
)

type zzKind int

const (
	zzBool zzKind = iota
	zzByte
	zzI16
	zzI32
	zzI64
	zzDouble
	zzString
	zzBinary
	zzList
	zzSet
	zzMap
	zzStructK
	zzEnum
)

type zzType struct {
	K    zzKind
	Elem *zzType
	Key  *zzType
	St   *zzStruct
}

type zzField struct {
	ID   int16
	Name string
	Req  int // 0 default, 1 required, 2 optional
	T    *zzType
}

type zzStruct struct {
	Name   string
	Union  bool
	Fields []zzField
}

type zzFV struct {
	ID int16
	V  *zzVal
}

// zzVal is a value of any Thrift type.
type zzVal struct {
	I  int64    // bool (0/1), byte, i16, i32, i64, enum
	F  uint64   // double (bit pattern)
	S  string   // string, binary
	L  []*zzVal // list/set elements; map values
	K  []*zzVal // map keys
	Fs []zzFV   // struct: the fields that are present
}

func zzWire(t *zzType) byte {
	switch t.K {
	case zzBool:
		return 2
	case zzByte:
		return 3
	case zzDouble:
		return 4
	case zzI16:
		return 6
	case zzI32, zzEnum:
		return 8
	case zzI64:
		return 10
	case zzString, zzBinary:
		return 11
	case zzStructK:
		return 12
	case zzMap:
		return 13
	case zzSet:
		return 14
	case zzList:
		return 15
	}
	panic("zzWire")
}

func zzPut16(b []byte, v uint16) []byte { return append(b, byte(v>>8), byte(v)) }
func zzPut32(b []byte, v uint32) []byte {
	return append(b, byte(v>>24), byte(v>>16), byte(v>>8), byte(v))
}
func zzPut64(b []byte, v uint64) []byte {
	return append(b, byte(v>>56), byte(v>>48), byte(v>>40), byte(v>>32), byte(v>>24), byte(v>>16), byte(v>>8), byte(v))
}

// zzEnc appends the reference encoding of v.
func zzEnc(b []byte, t *zzType, v *zzVal) []byte {
	switch t.K {
	case zzBool, zzByte:
		return append(b, byte(v.I))
	case zzI16:
		return zzPut16(b, uint16(v.I))
	case zzI32, zzEnum:
		return zzPut32(b, uint32(v.I))
	case zzI64:
		return zzPut64(b, uint64(v.I))
	case zzDouble:
		return zzPut64(b, v.F)
	case zzString, zzBinary:
		b = zzPut32(b, uint32(len(v.S)))
		return append(b, v.S...)
	case zzList, zzSet:
		b = append(b, zzWire(t.Elem))
		b = zzPut32(b, uint32(len(v.L)))
		for _, e := range v.L {
			b = zzEnc(b, t.Elem, e)
		}
		return b
	case zzMap:
		b = append(b, zzWire(t.Key), zzWire(t.Elem))
		b = zzPut32(b, uint32(len(v.L)))
		for i := range v.L {
			b = zzEnc(b, t.Key, v.K[i])
			b = zzEnc(b, t.Elem, v.L[i])
		}
		return b
	case zzStructK:
		for _, f := range t.St.Fields {
			for _, fv := range v.Fs {
				if fv.ID == f.ID {
					b = append(b, zzWire(f.T))
					b = zzPut16(b, uint16(f.ID))
					b = zzEnc(b, f.T, fv.V)
				}
			}
		}
		return append(b, 0)
	}
	panic("zzEnc")
}

type zzReader struct {
	b   []byte
	bad bool
}

func (r *zzReader) take(n int) []byte {
	if r.bad || n < 0 || n > len(r.b) {
		r.bad = true
		return make([]byte, n&0xff)
	}
	x := r.b[:n]
	r.b = r.b[n:]
	return x
}

func (r *zzReader) u8() byte    { return r.take(1)[0] }
func (r *zzReader) u16() uint16 { x := r.take(2); return uint16(x[0])<<8 | uint16(x[1]) }
func (r *zzReader) u32() uint32 {
	x := r.take(4)
	return uint32(x[0])<<24 | uint32(x[1])<<16 | uint32(x[2])<<8 | uint32(x[3])
}
func (r *zzReader) u64() uint64 {
	x := r.take(8)
	return uint64(x[0])<<56 | uint64(x[1])<<48 | uint64(x[2])<<40 | uint64(x[3])<<32 | uint64(x[4])<<24 | uint64(x[5])<<16 | uint64(x[6])<<8 | uint64(x[7])
}

// zzDec decodes a value of type t strictly: every field must be declared with the declared
// wire type; nothing else may appear. Structural bytes are expected to be concrete.
func zzDec(r *zzReader, t *zzType) *zzVal {
	v := &zzVal{}
	if r.bad {
		return v
	}
	switch t.K {
	case zzBool:
		v.I = int64(r.u8())
	case zzByte:
		v.I = int64(int8(r.u8()))
	case zzI16:
		v.I = int64(int16(r.u16()))
	case zzI32, zzEnum:
		v.I = int64(int32(r.u32()))
	case zzI64:
		v.I = int64(r.u64())
	case zzDouble:
		v.F = r.u64()
	case zzString, zzBinary:
		n := int(int32(r.u32()))
		v.S = string(r.take(n))
	case zzList, zzSet:
		if r.u8() != zzWire(t.Elem) {
			r.bad = true
			return v
		}
		n := int(int32(r.u32()))
		if n < 0 || n > len(r.b) {
			r.bad = true
			return v
		}
		v.L = make([]*zzVal, 0, n)
		for i := 0; i < n && !r.bad; i++ {
			v.L = append(v.L, zzDec(r, t.Elem))
		}
	case zzMap:
		kt, vt := r.u8(), r.u8()
		n := int(int32(r.u32()))
		if n < 0 || n > len(r.b) {
			r.bad = true
			return v
		}
		if n > 0 && (kt != zzWire(t.Key) || vt != zzWire(t.Elem)) {
			r.bad = true
			return v
		}
		for i := 0; i < n && !r.bad; i++ {
			v.K = append(v.K, zzDec(r, t.Key))
			v.L = append(v.L, zzDec(r, t.Elem))
		}
	case zzStructK:
		for !r.bad {
			wt := r.u8()
			if wt == 0 {
				break
			}
			id := int16(r.u16())
			var fd *zzField
			for i := range t.St.Fields {
				if t.St.Fields[i].ID == id {
					fd = &t.St.Fields[i]
				}
			}
			if fd == nil || zzWire(fd.T) != wt {
				r.bad = true // undeclared field or wrong wire type
				return v
			}
			for _, fv := range v.Fs {
				if fv.ID == id {
					r.bad = true // field written twice
					return v
				}
			}
			v.Fs = append(v.Fs, zzFV{ID: id, V: zzDec(r, fd.T)})
		}
	}
	return v
}

func (v *zzVal) field(id int16) *zzVal {
	for _, fv := range v.Fs {
		if fv.ID == id {
			return fv.V
		}
	}
	return nil
}

// zzLeafEq is the (possibly symbolic) equality of two scalar leaves.
func zzLeafEq(t *zzType, a, b *zzVal) bool {
	switch t.K {
	case zzDouble:
		return a.F == b.F
	case zzString, zzBinary:
		return a.S == b.S
	}
	return a.I == b.I
}

// zzAssertEq asserts that got equals want (value equality of Thrift values: a struct field
// is present in got iff it is present in want). Each leaf is one assertion.
func zzAssertEq(t *zzType, got, want *zzVal, what string) {
	switch t.K {
	case zzList, zzSet:
		zzrt.Assert(len(got.L) == len(want.L), what+": number of elements")
		for i := range want.L {
			if i < len(got.L) {
				zzAssertEq(t.Elem, got.L[i], want.L[i], what)
			}
		}
	case zzMap:
		zzrt.Assert(len(got.L) == len(want.L), what+": number of map entries")
		for i := range want.K {
			found := -1
			for j := range got.K {
				if zzKeyEq(t.Key, got.K[j], want.K[i]) {
					found = j
					break
				}
			}
			zzrt.Assert(found >= 0, what+": map key present")
			if found >= 0 {
				zzAssertEq(t.Elem, got.L[found], want.L[i], what)
			}
		}
	case zzStructK:
		for _, f := range t.St.Fields {
			g, w := got.field(f.ID), want.field(f.ID)
			zzrt.Assert((g != nil) == (w != nil), what+": presence of field "+f.Name+" of "+t.St.Name)
			if g != nil && w != nil {
				zzAssertEq(f.T, g, w, what)
			}
		}
		zzrt.Assert(len(got.Fs) == len(want.Fs), what+": no extra fields in "+t.St.Name)
	default:
		zzrt.Assert(zzLeafEq(t, got, want), what+": scalar value")
	}
}

// zzKeyEq decides key equality (forks when symbolic).
func zzKeyEq(t *zzType, a, b *zzVal) bool {
	switch t.K {
	case zzStructK:
		for _, f := range t.St.Fields {
			x, y := a.field(f.ID), b.field(f.ID)
			if (x == nil) != (y == nil) {
				return false
			}
			if x != nil && !zzKeyEq(f.T, x, y) {
				return false
			}
		}
		return true
	case zzList, zzSet:
		if len(a.L) != len(b.L) {
			return false
		}
		for i := range a.L {
			if !zzKeyEq(t.Elem, a.L[i], b.L[i]) {
				return false
			}
		}
		return true
	case zzMap:
		return false
	}
	return zzLeafEq(t, a, b)
}

// zzValEq is structural equality as a boolean (forks at every symbolic leaf); nil and empty
// containers are the same value.
func zzValEq(t *zzType, a, b *zzVal) bool {
	switch t.K {
	case zzList, zzSet:
		if len(a.L) != len(b.L) {
			return false
		}
		for i := range a.L {
			if !zzValEq(t.Elem, a.L[i], b.L[i]) {
				return false
			}
		}
		return true
	case zzMap:
		if len(a.L) != len(b.L) {
			return false
		}
		for i := range a.K {
			found := false
			for j := range b.K {
				if zzKeyEq(t.Key, a.K[i], b.K[j]) {
					if !zzValEq(t.Elem, a.L[i], b.L[j]) {
						return false
					}
					found = true
					break
				}
			}
			if !found {
				return false
			}
		}
		return true
	case zzStructK:
		for _, f := range t.St.Fields {
			x, y := a.field(f.ID), b.field(f.ID)
			if (x == nil) != (y == nil) {
				return false
			}
			if x != nil && !zzValEq(f.T, x, y) {
				return false
			}
		}
		return true
	}
	return zzLeafEq(t, a, b)
}

func zzBits(f float64) uint64     { return math.Float64bits(f) }
func zzFromBits(u uint64) float64 { return math.Float64frombits(u) }

func zzB2I(b bool) int64 {
	if b {
		return 1
	}
	return 0
}

// ---------------------------------------------------------------------------------------------
// symbolic leaves

func zzSymStr(n int) string { return zzrt.String("s", n) }

// zzLen is the container / string length used by the builders (a harness argument).
var zzLen = 1

// zzInnerAlt: a container that sits directly inside a container gets length 0, 1, 0, 1 ... by
// position (the first inner container of a value is empty) instead of zzLen. zzAlt is reset by
// the harness before each value, so two values built one after the other have the same shape.
var zzInnerAlt bool
var zzNest, zzAlt int

func zzCLen() int {
	if zzInnerAlt && zzNest > 0 {
		zzAlt++
		return (zzAlt - 1) % 2
	}
	return zzLen
}

// zzDepth bounds recursion through optional self references.
var zzDepth = 1

// zzPresenceBudget: symbolic presence decisions per value in the perturbation harnesses.
var zzPresenceBudget = 4

// ---------------------------------------------------------------------------------------------
// perturbed encodings

type zzMod struct {
	Skip     bool
	SkipID   int16 // field left out
	Insert   bool
	InsertAt int    // number of declared fields written before the extra bytes
	Extra    []byte // a complete extra field (header + payload)
	Retag    bool
	RetagID  int16  // field whose header+payload are replaced by RetagBytes
	RetagBytes []byte
	SkipSet  map[int16]bool // fields left out (any subset)
}

// zzEncMod encodes the struct v with the perturbations of m.
func zzEncMod(t *zzType, v *zzVal, m zzMod) []byte {
	var b []byte
	n := 0
	for _, f := range t.St.Fields {
		fv := v.field(f.ID)
		if fv == nil {
			continue
		}
		if m.Insert && n == m.InsertAt {
			b = append(b, m.Extra...)
		}
		n++
		if m.Skip && f.ID == m.SkipID {
			continue
		}
		if m.SkipSet[f.ID] {
			continue
		}
		if m.Retag && f.ID == m.RetagID {
			b = append(b, m.RetagBytes...)
			continue
		}
		b = append(b, zzWire(f.T))
		b = zzPut16(b, uint16(f.ID))
		b = zzEnc(b, f.T, fv)
	}
	if m.Insert && n <= m.InsertAt {
		b = append(b, m.Extra...)
	}
	return append(b, 0)
}

// zzPayload returns a minimal valid payload of wire type wt with symbolic content.
func zzPayload(wt byte) []byte {
	switch wt {
	case 2, 3:
		return []byte{zzrt.Byte("x")}
	case 6:
		return zzrt.Bytes("x", 2)
	case 8:
		return zzrt.Bytes("x", 4)
	case 4, 10:
		return zzrt.Bytes("x", 8)
	case 11:
		return append([]byte{0, 0, 0, 2}, zzrt.Bytes("x", 2)...)
	case 12: // struct with one i32 field with a symbolic id and value, then STOP
		b := []byte{8}
		b = append(b, zzrt.Bytes("x", 2)...)
		b = append(b, zzrt.Bytes("x", 4)...)
		return append(b, 0)
	case 13: // map<i32, string> with one entry
		b := []byte{8, 11, 0, 0, 0, 1}
		b = append(b, zzrt.Bytes("x", 4)...)
		// the one byte of the string value is free among the bytes that are not a wire type: if a
		// reader loses its place inside the map, the next "field type" it sees is invalid and the
		// read ends there instead of forking over every wire type
		sv := zzrt.Byte("x")
		zzrt.Assume(sv >= 0x20)
		return append(b, 0, 0, 0, 1, sv)
	case 14, 15: // set/list<i16> with two elements
		b := []byte{6, 0, 0, 0, 2}
		return append(b, zzrt.Bytes("x", 4)...)
	}
	panic("zzPayload")
}

var zzWireTypes = []byte{2, 3, 4, 6, 8, 10, 11, 12, 13, 14, 15}

// zzField makes a complete field (header + payload) of wire type wt and the given id.
func zzFieldBytes(wt byte, id int16) []byte {
	b := []byte{wt}
	b = zzPut16(b, uint16(id))
	return append(b, zzPayload(wt)...)
}

func (t *zzType) hasField(id int16) bool {
	for _, f := range t.St.Fields {
		if f.ID == id {
			return true
		}
	}
	return false
}

// zzAssertEqExcept is zzAssertEq for structs ignoring field `except`.
func zzAssertEqExcept(t *zzType, got, want *zzVal, except int16, what string) {
	for _, f := range t.St.Fields {
		if f.ID == except {
			continue
		}
		g, w := got.field(f.ID), want.field(f.ID)
		zzrt.Assert((g != nil) == (w != nil), what+": presence of field "+f.Name+" of "+t.St.Name)
		if g != nil && w != nil {
			zzAssertEq(f.T, g, w, what)
		}
	}
}

// ---------------------------------------------------------------------------------------------
// leaf providers: symbolic (the checks) or a fixed pseudo random sequence (translator validation)

type zzLeaves interface {
	Bool(name string) bool
	Int8(name string) int8
	Int16(name string) int16
	Int32(name string) int32
	Int64(name string) int64
	Float64(name string) float64
	String(name string, n int) string
	Bytes(name string, n int) []byte
	Choose(name string, n int) int
	Assume(c bool)
}

type zzSymLeaves struct{}

func (zzSymLeaves) Bool(n string) bool             { return zzrt.Bool(n) }
func (zzSymLeaves) Int8(n string) int8             { return zzrt.Int8(n) }
func (zzSymLeaves) Int16(n string) int16           { return zzrt.Int16(n) }
func (zzSymLeaves) Int32(n string) int32           { return zzrt.Int32(n) }
func (zzSymLeaves) Int64(n string) int64           { return zzrt.Int64(n) }
func (zzSymLeaves) Float64(n string) float64       { return zzrt.Float64(n) }
func (zzSymLeaves) String(n string, k int) string  { return zzrt.String(n, k) }
func (zzSymLeaves) Bytes(n string, k int) []byte   { return zzrt.Bytes(n, k) }
func (zzSymLeaves) Choose(n string, k int) int     { return zzrt.Choose(n, k) }
func (zzSymLeaves) Assume(c bool)                  { zzrt.Assume(c) }

type zzFixedLeaves struct{ s uint64 }

func (f *zzFixedLeaves) next() uint64 {
	f.s = f.s*6364136223846793005 + 1442695040888963407
	return f.s >> 11
}
func (f *zzFixedLeaves) Bool(string) bool       { return f.next()&1 == 1 }
func (f *zzFixedLeaves) Int8(string) int8       { return int8(f.next()) }
func (f *zzFixedLeaves) Int16(string) int16     { return int16(f.next()) }
func (f *zzFixedLeaves) Int32(string) int32     { return int32(f.next()) }
func (f *zzFixedLeaves) Int64(string) int64     { return int64(f.next() * 2654435761) }
func (f *zzFixedLeaves) Float64(string) float64 { return float64(int32(f.next())) / 8 }
func (f *zzFixedLeaves) String(_ string, n int) string {
	b := make([]byte, n)
	for i := range b {
		b[i] = byte(f.next())
	}
	return string(b)
}
func (f *zzFixedLeaves) Bytes(_ string, n int) []byte { return []byte(f.String("", n)) }
func (f *zzFixedLeaves) Choose(_ string, n int) int   { return int(f.next() % uint64(n)) }
func (f *zzFixedLeaves) Assume(c bool)                {}

var zzL zzLeaves = zzSymLeaves{}

// zzBudgetLeaves: symbolic leaves, but only the first k presence decisions ("set") are decision
// variables; the following ones alternate. Used by the harnesses that perturb an encoding
// (unknown / retagged / missing field), where presence x position x wire type would otherwise
// multiply.
type zzBudgetLeaves struct {
	zzSymLeaves
	k, n int
}

func (b *zzBudgetLeaves) Bool(name string) bool {
	if name != "set" {
		return zzrt.Bool(name)
	}
	if b.k > 0 {
		b.k--
		return zzrt.Bool(name)
	}
	b.n++
	return b.n%2 == 1
}

// zzWithPresenceBudget runs f with at most k symbolic presence decisions.
func zzWithPresenceBudget(k int, f func()) {
	saved := zzL
	zzL = &zzBudgetLeaves{k: k}
	defer func() { zzL = saved }()
	f()
}

const zzHexDigits = "0123456789abcdef"

func zzHex(b []byte) string {
	out := make([]byte, 0, 2*len(b))
	for _, c := range b {
		out = append(out, zzHexDigits[c>>4], zzHexDigits[c&15])
	}
	return string(out)
}

// zzSymLeavesFree is zzSymLeaves without the "set elements are distinct" assumption.
type zzSymLeavesFree struct {
	zzSymLeaves
	k, n int // presence budget as in zzBudgetLeaves (k < 0: unlimited)
}

func (zzSymLeavesFree) Assume(c bool) {}

func (f *zzSymLeavesFree) Bool(name string) bool {
	if name != "set" || f.k < 0 {
		return zzrt.Bool(name)
	}
	if f.k > 0 {
		f.k--
		return zzrt.Bool(name)
	}
	f.n++
	return f.n%2 == 1
}

func zzIsContainer(t *zzType) bool { return t.K == zzList || t.K == zzSet || t.K == zzMap }

// zzSameValue is the equality of the DeepEqual statement: structural, an absent optional
// scalar/struct differs from every present one, nil and empty containers are the same value,
// doubles compare by value (NaN excluded by the caller).
func zzSameValue(t *zzType, a, b *zzVal) bool {
	switch t.K {
	case zzDouble:
		return zzFromBits(a.F) == zzFromBits(b.F)
	case zzList, zzSet:
		if len(a.L) != len(b.L) {
			return false
		}
		for i := range a.L {
			if !zzSameValue(t.Elem, a.L[i], b.L[i]) {
				return false
			}
		}
		return true
	case zzMap:
		if len(a.L) != len(b.L) {
			return false
		}
		for i := range a.K {
			found := false
			for j := range b.K {
				if zzSameValue(t.Key, a.K[i], b.K[j]) {
					if !zzSameValue(t.Elem, a.L[i], b.L[j]) {
						return false
					}
					found = true
					break
				}
			}
			if !found {
				return false
			}
		}
		return true
	case zzStructK:
		empty := &zzVal{}
		for _, f := range t.St.Fields {
			x, y := a.field(f.ID), b.field(f.ID)
			if zzIsContainer(f.T) || f.T.K == zzBinary {
				if x == nil {
					x = empty
				}
				if y == nil {
					y = empty
				}
			}
			if (x == nil) != (y == nil) {
				return false
			}
			if x != nil && !zzSameValue(f.T, x, y) {
				return false
			}
		}
		return true
	}
	return zzLeafEq(t, a, b)
}

// zzHasNaN reports whether a value contains a NaN double.
func zzHasNaN(t *zzType, v *zzVal) bool {
	switch t.K {
	case zzDouble:
		f := zzFromBits(v.F)
		return f != f
	case zzList, zzSet:
		for _, e := range v.L {
			if zzHasNaN(t.Elem, e) {
				return true
			}
		}
	case zzMap:
		for i := range v.L {
			if zzHasNaN(t.Key, v.K[i]) || zzHasNaN(t.Elem, v.L[i]) {
				return true
			}
		}
	case zzStructK:
		for _, f := range t.St.Fields {
			if x := v.field(f.ID); x != nil && zzHasNaN(f.T, x) {
				return true
			}
		}
	}
	return false
}

// zzSetDup reports whether some set-typed field of the struct value (at top level) holds two equal elements.
func zzSetDup(t *zzType, v *zzVal) bool {
	for _, f := range t.St.Fields {
		if f.T.K != zzSet {
			continue
		}
		x := v.field(f.ID)
		if x == nil {
			continue
		}
		for i := range x.L {
			for j := 0; j < i; j++ {
				if zzSameValue(f.T.Elem, x.L[i], x.L[j]) {
					return true
				}
			}
		}
	}
	return false
}

func zzHasSet(t *zzType) bool {
	for _, f := range t.St.Fields {
		if f.T.K == zzSet {
			return true
		}
	}
	return false
}

// zzRecLeaves records the presence decisions (Bool("set"), Choose("arm")) of a build.
type zzRecLeaves struct {
	zzSymLeaves
	bools   []bool
	chooses []int
	budget  int // > 0: only the first budget presence decisions are decision variables, the rest alternate
	fixed   int
}

func (r *zzRecLeaves) Bool(n string) bool {
	if n != "set" {
		return zzrt.Bool(n)
	}
	var b bool
	if r.budget > 0 && len(r.bools) >= r.budget {
		r.fixed++
		b = r.fixed%2 == 1
	} else {
		b = zzrt.Bool(n)
	}
	r.bools = append(r.bools, b)
	return b
}

func (r *zzRecLeaves) Choose(n string, k int) int {
	c := zzrt.Choose(n, k)
	r.chooses = append(r.chooses, c)
	return c
}

// zzMirrorLeaves replays recorded presence decisions except decision number flip, which is
// drawn afresh; all scalar leaves are fresh symbolic values.
type zzMirrorLeaves struct {
	zzSymLeaves
	rec  *zzRecLeaves
	flip int
	nb   int
	nc   int
}

func (m *zzMirrorLeaves) Bool(n string) bool {
	if n != "set" {
		return zzrt.Bool(n)
	}
	i := m.nb
	m.nb++
	if i == m.flip || i >= len(m.rec.bools) {
		return zzrt.Bool(n)
	}
	return m.rec.bools[i]
}

func (m *zzMirrorLeaves) Choose(n string, k int) int {
	i := m.nc
	m.nc++
	if i >= len(m.rec.chooses) || len(m.rec.bools)+i == m.flip {
		return zzrt.Choose(n, k)
	}
	return m.rec.chooses[i]
}

// zzTypeOffsets returns the offsets (relative to base) of every TYPE byte of the reference
// encoding of v: field headers, list/set element types, map key/value types.
func zzTypeOffsets(t *zzType, v *zzVal, base int, out *[]int) int {
	switch t.K {
	case zzBool, zzByte:
		return base + 1
	case zzI16:
		return base + 2
	case zzI32, zzEnum:
		return base + 4
	case zzI64, zzDouble:
		return base + 8
	case zzString, zzBinary:
		return base + 4 + len(v.S)
	case zzList, zzSet:
		*out = append(*out, base)
		off := base + 5
		for _, e := range v.L {
			off = zzTypeOffsets(t.Elem, e, off, out)
		}
		return off
	case zzMap:
		*out = append(*out, base, base+1)
		off := base + 6
		for i := range v.L {
			off = zzTypeOffsets(t.Key, v.K[i], off, out)
			off = zzTypeOffsets(t.Elem, v.L[i], off, out)
		}
		return off
	case zzStructK:
		off := base
		for _, f := range t.St.Fields {
			fv := v.field(f.ID)
			if fv == nil {
				continue
			}
			*out = append(*out, off)
			off = zzTypeOffsets(f.T, fv, off+3, out)
		}
		*out = append(*out, off) // STOP
		return off + 1
	}
	panic("zzTypeOffsets")
}
