// Package zzskip is a safe-Go model of gopkg's BinaryProtocol.Skip (which walks raw
// pointers and cannot be executed by the engine). Contract: the length of the value of wire
// type t at the head of b, or an error when b is too short or malformed.
package zzskip

import (
	"github.com/cloudwego/gopkg/protocol/thrift"
)

var errShort = thrift.NewProtocolException(thrift.INVALID_DATA, "buffer too short")
var errLen = thrift.NewProtocolException(thrift.INVALID_DATA, "invalid data length")
var errDepth = thrift.NewProtocolException(thrift.DEPTH_LIMIT, "depth limit exceeded")

func fixed(t byte) int {
	switch t {
	case 2, 3:
		return 1
	case 6:
		return 2
	case 8:
		return 4
	case 4, 10:
		return 8
	}
	return 0
}

func i32(b []byte) int32 {
	return int32(uint32(b[0])<<24 | uint32(b[1])<<16 | uint32(b[2])<<8 | uint32(b[3]))
}

// Skip mirrors BinaryProtocol.Skip.
func Skip(b []byte, t byte) (int, error) {
	if len(b) == 0 {
		return 0, errShort
	}
	return skip(b, t, 64)
}

func skipstr(b []byte) (int, error) {
	if len(b) >= 4 {
		n := int(i32(b))
		if n < 0 {
			return 0, errLen
		}
		if 4+n <= len(b) {
			return 4 + n, nil
		}
	}
	return 0, errShort
}

func skip(b []byte, t byte, depth int) (int, error) {
	if depth == 0 {
		return 0, errDepth
	}
	if n := fixed(t); n > 0 {
		if n > len(b) {
			return 0, errShort
		}
		return n, nil
	}
	switch t {
	case 11:
		return skipstr(b)
	case 13:
		if len(b) < 6 {
			return 0, errShort
		}
		kt, vt, sz := b[0], b[1], i32(b[2:])
		if sz < 0 {
			return 0, errLen
		}
		ksz, vsz := fixed(kt), fixed(vt)
		if ksz > 0 && vsz > 0 {
			total := int(sz) * (ksz + vsz)
			if 6+total > len(b) {
				return 0, errShort
			}
			return 6 + total, nil
		}
		i := 6
		for j := int32(0); j < sz; j++ {
			if i >= len(b) {
				return 0, errShort
			}
			n, err := skipElem(b[i:], kt, ksz, depth)
			if err != nil {
				return i, err
			}
			i += n
			if i >= len(b) {
				return 0, errShort
			}
			n, err = skipElem(b[i:], vt, vsz, depth)
			if err != nil {
				return i, err
			}
			i += n
		}
		return i, nil
	case 14, 15:
		if len(b) < 5 {
			return 0, errShort
		}
		vt, sz := b[0], i32(b[1:])
		if sz < 0 {
			return 0, errLen
		}
		vsz := fixed(vt)
		if vsz > 0 {
			total := int(sz) * vsz
			if 5+total > len(b) {
				return 0, errShort
			}
			return 5 + total, nil
		}
		i := 5
		for j := int32(0); j < sz; j++ {
			if i >= len(b) {
				return 0, errShort
			}
			n, err := skipElem(b[i:], vt, vsz, depth)
			if err != nil {
				return i, err
			}
			i += n
		}
		return i, nil
	case 12:
		i := 0
		for {
			if i >= len(b) {
				return i, errShort
			}
			ft := b[i]
			i++
			if ft == 0 {
				return i, nil
			}
			i += 2
			if i >= len(b) {
				return i, errShort
			}
			n, err := skipElem(b[i:], ft, fixed(ft), depth)
			if err != nil {
				return i, err
			}
			i += n
		}
	}
	return 0, thrift.NewProtocolException(thrift.INVALID_DATA, "unknown data type")
}

func skipElem(b []byte, t byte, sz int, depth int) (int, error) {
	if sz > 0 {
		return sz, nil
	}
	if t == 11 {
		return skipstr(b)
	}
	return skip(b, t, depth-1)
}
