//zz:target .
package main

import (
	"errors"
	"fmt"

	"github.com/cloudwego/thriftgo/plugin"

	zzrt "github.com/cloudwego/thriftgo/internal/zzverifrt"
)

// The last step of every diagnosis: main's mapping from the outcome of sdk.InvokeThriftgo to
// the process exit status. InvokeThriftgo is an environment stub with forked outcomes (each
// way it can end); main, its deferred handlePanic and os.Exit are the real code.
func H_C04_exit() {
	mode := zzrt.Choose("invoke", 6)
	zzrt.Override("github.com/cloudwego/thriftgo/sdk.InvokeThriftgo", func(p []plugin.SDKPlugin, args ...string) error {
		switch mode {
		case 1:
			return errors.New("main.thrift: undefined type Foo")
		case 2:
			return fmt.Errorf("generate: %w", errors.New("plugin failed"))
		case 3:
			panic(errors.New("a failure the generator reports by panicking"))
		case 4:
			panic("a failure reported by panicking with a string")
		case 5:
			var m map[string]int
			m["x"] = 1 // a runtime error inside the compiler
		}
		return nil
	})
	code, exited := zzrt.CatchExit(main)
	switch mode {
	case 0:
		zzrt.Assert(!exited || code == 0, "a successful run exits 0")
		zzrt.Cover("ok")
	case 1, 2:
		zzrt.Assert(exited && code != 0, "an error returned by the compiler gives a non-zero exit status")
		zzrt.Cover("error")
	default:
		zzrt.Cover("panic")
		zzrt.Assert(exited && code != 0, "a panic inside the compiler must not end in exit status 0")
	}
}
