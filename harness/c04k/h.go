//zz:target generator/golang
package golang

import (
	"github.com/cloudwego/thriftgo/generator/backend"
	"github.com/cloudwego/thriftgo/parser"
	"github.com/cloudwego/thriftgo/semantic"

	zzrt "github.com/cloudwego/thriftgo/internal/zzverifrt"
)

// Constant and default values of a kind the declared type cannot hold are only diagnosed by the
// Go backend while it builds its scope (resolver.go). The declared type and the value are free
// choices; the error direction is asserted for the clearly ill-kinded pairs of the statement.

var zzKTypes = []string{"bool", "byte", "i16", "i32", "i64", "double", "string", "binary", "list<i32>", "set<string>", "map<string, i32>", "S", "E", "TI"}

// value spellings and their kind
var zzKVals = []struct{ text, kind string }{
	{"7", "int"}, {"1.5", "double"}, {`"txt"`, "string"}, {"true", "bool"}, {"[1, 2]", "list"}, {`["a"]`, "strlist"}, {`{"a": 1}`, "map"},
	{`{"a": 3}`, "structlit"}, {`{"nosuch": 3}`, "badfield"}, {`{1: 3}`, "intkey"}, {"E.A", "enumval"}, {"Nosuch", "undef"},
}

// zzIllKinded: pairs the statement names as errors -- a value of a kind the declared SCALAR or
// STRUCT type cannot hold (a string for a number, a container or struct literal for a scalar, a
// scalar or list for a struct, an unknown field or a non-string key in a struct literal) and an
// undefined identifier. Container-typed declarations are not in the statement (thriftgo
// deliberately falls back to an empty container there) and are not asserted.
func zzIllKinded(t, kind string) bool {
	num := t == "byte" || t == "i16" || t == "i32" || t == "i64" || t == "double" || t == "TI"
	scalar := num || t == "bool" || t == "string" || t == "binary" || t == "E"
	if !scalar && t != "S" {
		return false
	}
	switch kind {
	case "string":
		return num || t == "bool" || t == "S"
	case "list", "strlist", "map", "structlit", "badfield", "intkey":
		if scalar {
			return true
		}
		return kind == "list" || kind == "strlist" || kind == "badfield" || kind == "intkey"
	case "int", "double":
		return t == "S" || t == "string" || t == "binary"
	case "undef":
		return true
	}
	return false
}

func zzKBuild(src string) error {
	ast, err := parser.ParseString("main.thrift", src)
	if err != nil {
		return err
	}
	if _, err := semantic.NewChecker(semantic.Options{FixWarnings: true}).CheckAll(ast); err != nil {
		return err
	}
	if err := semantic.ResolveSymbols(ast); err != nil {
		return err
	}
	cu := NewCodeUtils(backend.DummyLogFunc())
	if err := cu.HandleOptions([]string{"package_prefix=example.com/x"}); err != nil {
		return err
	}
	_, err = BuildScope(cu, ast)
	return err
}

func H_C04_constkind(position int) {
	ti := zzrt.Choose("type", len(zzKTypes))
	vi := zzrt.Choose("value", len(zzKVals))
	t, v := zzKTypes[ti], zzKVals[vi]
	src := "namespace go k\nstruct S { 1: i32 a }\nenum E { A = 1 }\ntypedef i32 TI\n"
	switch position {
	case 0:
		src += "const " + t + " C = " + v.text + "\n"
	case 1:
		src += "struct H { 1: " + t + " f = " + v.text + " }\n"
	case 2: // inside a container constant
		src += "const list<" + t + "> C = [" + v.text + "]\n"
	case 3: // as a member of a struct literal
		src += "struct W { 1: " + t + " w }\nconst W C = {\"w\": " + v.text + "}\n"
	}
	var err error
	code, exited := zzrt.CatchExit(func() { err = zzKBuild(src) })
	if zzIllKinded(t, v.kind) {
		zzrt.Cover("bad")
		zzrt.Assert(err != nil || (exited && code != 0), "a "+v.kind+" value ("+v.text+") for a "+t+" is diagnosed")
	} else {
		zzrt.Cover("other")
	}
}
