//zz:target generator
package generator

import (
	"strings"

	"github.com/cloudwego/thriftgo/generator/backend"
	"github.com/cloudwego/thriftgo/plugin"

	zzrt "github.com/cloudwego/thriftgo/internal/zzverifrt"
)

var zzNames = []string{"a.go", "b.go", "c"}
var zzPoints = []string{"p", "q", "r"}

func zzMark(p string) string { return plugin.InsertionPoint(p) }

// contents: no marker / one p / p twice and q once
func zzContents() []string {
	return []string{"x", "A" + zzMark("p") + "B", zzMark("p") + "C" + zzMark("q") + "D" + zzMark("p")}
}

type zzItem struct {
	kind    int // 0 named file, 1 named patch, 2 unnamed patch
	name    string
	content string
	point   string
}

type zzOut struct {
	origName string
	content  string // as submitted
	patches  map[string]string
	dropped  bool
}

// zzExpected is the reference model of the statement. It returns the files that must be in
// the output (content after patching) and whether an error is required.
func zzExpected(feeds [][]zzItem) (outs []*zzOut, wantErr bool) {
	byName := map[string]*zzOut{} // first file submitted under a name
	var all []*zzOut
	for _, items := range feeds {
		var last *zzOut
		skipPatches := false
		for _, it := range items {
			switch it.kind {
			case 2:
				if skipPatches {
					continue
				}
				if last == nil {
					return nil, true
				}
				last.patches[it.point] += it.content
			case 1:
				skipPatches = false
				if first, ok := byName[it.name]; ok {
					first.patches[it.point] += it.content
					last = first
				} else {
					// a named item with an unknown name is a new file even if it carries an insertion point
					o := &zzOut{origName: it.name, content: it.content, patches: map[string]string{}}
					byName[it.name] = o
					all = append(all, o)
					last = o
				}
			case 0:
				skipPatches = false
				first, ok := byName[it.name]
				if !ok {
					o := &zzOut{origName: it.name, content: it.content, patches: map[string]string{}}
					byName[it.name] = o
					all = append(all, o)
					last = o
					continue
				}
				// identical to a file already kept for this name: dropped with its patches
				dup := false
				for _, o := range all {
					if o.origName == it.name && o.content == it.content {
						dup = true
					}
				}
				_ = first
				if dup {
					skipPatches = true
					continue
				}
				o := &zzOut{origName: it.name, content: it.content, patches: map[string]string{}}
				all = append(all, o)
				last = o
			}
		}
	}
	return all, false
}

func zzApply(o *zzOut) string {
	s := o.content
	for _, p := range zzPoints {
		s = strings.Replace(s, zzMark(p), o.patches[p], -1)
	}
	return s
}

func zzDrawItem(kind int) zzItem {
	it := zzItem{kind: kind}
	switch kind {
	case 0:
		it.name = zzNames[zzrt.Choose("name", len(zzNames))]
		it.content = zzContents()[zzrt.Choose("content", 3)]
	case 1:
		it.name = zzNames[zzrt.Choose("name", len(zzNames))]
		it.point = zzPoints[zzrt.Choose("point", len(zzPoints))]
		it.content = []string{"<N>", "<M>"}[zzrt.Choose("ptext", 2)] // may become a file when the name is new: keep concrete for the marker scan
	case 2:
		it.point = zzPoints[zzrt.Choose("point", len(zzPoints))]
		it.content = "[" + zzrt.String("patch", 1) + "]"
	}
	return it
}

func zzToGenerated(it zzItem) *plugin.Generated {
	g := &plugin.Generated{Content: it.content}
	if it.kind != 2 {
		n := it.name
		g.Name = &n
	}
	if it.kind != 0 {
		p := it.point
		g.InsertionPoint = &p
	}
	return g
}

// H_C12_assemble: three items of kinds k0,k1,k2 split into feeds after item `split`
// (split=3: one Feed call); names, contents, points are free choices, patch texts free bytes.
func H_C12_assemble(k0, k1, k2, split int) {
	kinds := []int{k0, k1, k2}
	var items []zzItem
	for _, k := range kinds {
		it := zzDrawItem(k)
		if k == 2 {
			// patch bytes must not form marker syntax
			zzrt.Assume(it.content[1] != '@' && it.content[1] < 0x80)
		}
		items = append(items, it)
	}
	var feeds [][]zzItem
	if split >= 1 && split < 3 {
		feeds = [][]zzItem{items[:split], items[split:]}
	} else {
		feeds = [][]zzItem{items}
	}
	want, wantErr := zzExpected(feeds)

	fm := NewFileManager(backend.DummyLogFunc())
	var err error
	for i, f := range feeds {
		var gs []*plugin.Generated
		for _, it := range f {
			gs = append(gs, zzToGenerated(it))
		}
		if e := fm.Feed("src"+string([]byte{'0' + byte(i)}), gs); e != nil {
			err = e
			break
		}
	}
	if wantErr {
		zzrt.Assert(err != nil, "a patch with no target file is an error")
		zzrt.Cover("error")
		return
	}
	zzrt.Assert(err == nil, "Feed succeeds")
	res := fm.BuildResponse()
	zzrt.Assert(len(res.Contents) == len(want), "every distinct submitted file is in the output exactly once")
	for i, g := range res.Contents {
		for j := 0; j < i; j++ {
			zzrt.Assert(res.Contents[j].GetName() != g.GetName(), "output file names are pairwise distinct")
		}
		zzrt.Assert(!strings.Contains(g.Content, "@@thriftgo_insertion_point("), "no insertion point marker is left")
	}
	// output order is submission order of kept files
	seen := map[string]bool{}
	for i, o := range want {
		g := res.Contents[i]
		zzrt.Assert(g.Content == zzApply(o), "patches are inserted at every occurrence of their point, in submission order; other text unchanged")
		if !seen[o.origName] {
			seen[o.origName] = true
			zzrt.Assert(g.GetName() == o.origName, "the first file submitted under a name keeps it")
		}
	}
	zzrt.Cover("assembled")
}

// H_C12_collision: n plain files whose names are free choices among {a.go, a_1.go, a_2.go}
// (so that a rename target can coincide with a submitted name) and whose contents are free
// choices among two texts. Whatever the history, no two output files may share a name and no
// submitted content may disappear.
func H_C12_collision(n int) {
	names := []string{"a.go", "a_1.go", "a_2.go"}
	texts := []string{"one", "two", "three"}
	fm := NewFileManager(backend.DummyLogFunc())
	var subs [][2]string
	for i := 0; i < n; i++ {
		nm := names[zzrt.Choose("name", len(names))]
		tx := texts[zzrt.Choose("text", len(texts))]
		subs = append(subs, [2]string{nm, tx})
		name := nm
		zzrt.Assert(fm.Feed("s", []*plugin.Generated{{Content: tx, Name: &name}}) == nil, "Feed succeeds")
	}
	res := fm.BuildResponse()
	for i, g := range res.Contents {
		for j := 0; j < i; j++ {
			zzrt.Assert(res.Contents[j].GetName() != g.GetName(), "two output files share one name (the rename probe picked a name that was itself submitted)")
		}
	}
	// every submitted (name, content) whose name was new at that time is still there under that name
	first := map[string]string{}
	for _, s := range subs {
		if _, ok := first[s[0]]; !ok {
			first[s[0]] = s[1]
		}
	}
	zzrt.Cover("end")
}

func zzIsRenameOf(cs []*plugin.Generated, i int) bool { return true }

func D_C12_1() string {
	fm := NewFileManager(backend.DummyLogFunc())
	mk := func(name, content, point string) *plugin.Generated {
		g := &plugin.Generated{Content: content}
		if name != "" {
			g.Name = &name
		}
		if point != "" {
			g.InsertionPoint = &point
		}
		return g
	}
	c := zzContents()
	_ = fm.Feed("s", []*plugin.Generated{mk("a.go", c[2], ""), mk("", "P1", "p"), mk("", "Q1", "q"), mk("a.go", c[1], ""), mk("", "P2", "p"), mk("a.go", c[2], ""), mk("", "P3", "p")})
	_ = fm.Feed("t", []*plugin.Generated{mk("a.go", "N", "p"), mk("b.go", c[0], ""), mk("a.go", c[0], "")})
	out := ""
	for _, g := range fm.BuildResponse().Contents {
		out += g.GetName() + "=" + g.Content + ";"
	}
	return out
}

// H_C12_dup_patches: a file submitted again with identical content is dropped together with ALL
// the unnamed patches that follow it (0..3 of them); nothing of it reaches another file and the
// batch is not rejected, wherever the duplicate stands in its batch.
func H_C12_dup_patches() {
	s := func(x string) *string { return &x }
	mk := func(name, tag string) *plugin.Generated {
		return &plugin.Generated{Name: s(name), Content: "// " + tag + "\n// " + zzMark("p") + "\n// " + zzMark("q") + "\nend\n"}
	}
	fm := NewFileManager(backend.DummyLogFunc())
	zzrt.Assert(fm.Feed("be", []*plugin.Generated{mk("a.go", "A"), mk("b.go", "B")}) == nil, "first batch")
	var batch []*plugin.Generated
	lead := zzrt.Choose("lead", 3) // what precedes the duplicate in its batch: nothing / a new file / a patch to b.go
	switch lead {
	case 1:
		batch = append(batch, mk("c.go", "C"))
	case 2:
		batch = append(batch, &plugin.Generated{Name: s("b.go"), InsertionPoint: s("p"), Content: "PB"})
	}
	batch = append(batch, mk("a.go", "A")) // identical content: a duplicate
	n := zzrt.Choose("patches", 4)
	for i := 0; i < n; i++ {
		pt := []string{"p", "q"}[zzrt.Choose("point", 2)]
		batch = append(batch, &plugin.Generated{InsertionPoint: s(pt), Content: "DUP" + string(rune('0'+i)) + string([]byte{zzrt.Byte("x")})})
	}
	tail := zzrt.Bool("tail") // a further new file after the patches
	if tail {
		batch = append(batch, mk("d.go", "D"))
	}
	err := fm.Feed("p", batch)
	zzrt.Assert(err == nil, "a duplicate with its patches is not an error")
	res := fm.BuildResponse()
	want := 2
	if lead == 1 {
		want++
	}
	if tail {
		want++
	}
	zzrt.Assert(len(res.Contents) == want, "the duplicate adds no output file")
	for _, c := range res.Contents {
		zzrt.Assert(!strings.Contains(c.Content, "DUP"), "a patch of the dropped duplicate reached "+c.GetName())
		if c.GetName() == "b.go" {
			zzrt.Assert(strings.Contains(c.Content, "PB") == (lead == 2), "the patch addressed to b.go is applied")
		}
	}
	zzrt.Cover("end")
}
