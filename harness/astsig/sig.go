//zz:target parser
package parser

import (
	"strconv"
	"strings"
)

// ZZSig renders every semantic field of an AST (no comments). With res, the results of
// semantic resolution (category, typedef flag, references, const extras, include usage) are
// included too. Included files are rendered once each, in depth-first order.
// zzNumeric: render numeric constants by value only (a double of integral value and the integer of
// the same value get the same text), as the dump round trip allows.
var zzNumeric bool

// ZZSigNumeric is ZZSig with numeric constants compared by value.
func ZZSigNumeric(t *Thrift, res bool) string {
	zzNumeric = true
	defer func() { zzNumeric = false }()
	return ZZSig(t, res)
}

func ZZSig(t *Thrift, res bool) string {
	var sb strings.Builder
	seen := map[*Thrift]bool{}
	zzSigFile(&sb, t, res, seen)
	return sb.String()
}

func zzAnn(sb *strings.Builder, as Annotations) {
	if len(as) == 0 {
		return
	}
	sb.WriteString("(")
	for _, a := range as {
		sb.WriteString(a.Key + "=" + strconv.Quote(strings.Join(a.Values, "\x00")) + ";")
	}
	sb.WriteString(")")
}

func zzType(sb *strings.Builder, t *Type, res bool) {
	if t == nil {
		sb.WriteString("<nil>")
		return
	}
	sb.WriteString(t.Name)
	if t.KeyType != nil || t.ValueType != nil {
		sb.WriteString("<")
		if t.KeyType != nil {
			zzType(sb, t.KeyType, res)
			sb.WriteString(",")
		}
		zzType(sb, t.ValueType, res)
		sb.WriteString(">")
	}
	if t.CppType != "" {
		sb.WriteString(" cpp:" + t.CppType)
	}
	zzAnn(sb, t.Annotations)
	if res {
		sb.WriteString("#" + strconv.Itoa(int(t.Category)))
		if t.IsTypedef != nil {
			sb.WriteString("td" + strconv.FormatBool(*t.IsTypedef))
		}
		if t.Reference != nil {
			sb.WriteString("@" + t.Reference.Name + ":" + strconv.Itoa(int(t.Reference.Index)))
		}
	}
}

func zzConst(sb *strings.Builder, v *ConstValue, res bool) {
	if v == nil {
		sb.WriteString("<nil>")
		return
	}
	if zzNumeric && v.TypedValue != nil && (v.TypedValue.Double != nil || v.TypedValue.Int != nil) && v.TypedValue.Literal == nil && v.TypedValue.Identifier == nil {
		tv := v.TypedValue
		if tv.Int != nil {
			sb.WriteString("N:" + strconv.FormatInt(*tv.Int, 10))
			return
		}
		d := *tv.Double
		if d == float64(int64(d)) && d > -9e18 && d < 9e18 {
			sb.WriteString("N:" + strconv.FormatInt(int64(d), 10))
		} else {
			sb.WriteString("N:d" + strconv.FormatFloat(d, 'g', -1, 64))
		}
		return
	}
	sb.WriteString(strconv.Itoa(int(v.Type)) + ":")
	if v.TypedValue != nil {
		tv := v.TypedValue
		switch {
		case tv.Double != nil:
			sb.WriteString("d" + strconv.FormatFloat(*tv.Double, 'g', -1, 64))
		case tv.Int != nil:
			sb.WriteString("i" + strconv.FormatInt(*tv.Int, 10))
		case tv.Literal != nil:
			sb.WriteString("s" + strconv.Quote(*tv.Literal))
		case tv.Identifier != nil:
			sb.WriteString("id" + *tv.Identifier)
		case tv.Map != nil:
			sb.WriteString("{")
			for _, kv := range tv.Map {
				zzConst(sb, kv.Key, res)
				sb.WriteString("=>")
				zzConst(sb, kv.Value, res)
				sb.WriteString(",")
			}
			sb.WriteString("}")
		default:
			sb.WriteString("[")
			for _, e := range tv.List {
				zzConst(sb, e, res)
				sb.WriteString(",")
			}
			sb.WriteString("]")
		}
	}
	if res && v.Extra != nil {
		sb.WriteString("!" + strconv.FormatBool(v.Extra.IsEnum) + ":" + strconv.Itoa(int(v.Extra.Index)) + ":" + v.Extra.Name + ":" + v.Extra.Sel)
	}
}

func zzFields(sb *strings.Builder, fs []*Field, res bool) {
	for _, f := range fs {
		sb.WriteString("  " + strconv.Itoa(int(f.ID)) + ":" + strconv.Itoa(int(f.Requiredness)) + " ")
		zzType(sb, f.Type, res)
		sb.WriteString(" " + f.Name)
		if f.Default != nil {
			sb.WriteString(" = ")
			zzConst(sb, f.Default, res)
		}
		zzAnn(sb, f.Annotations)
		sb.WriteString("\n")
	}
}

func zzSigFile(sb *strings.Builder, t *Thrift, res bool, seen map[*Thrift]bool) {
	if t == nil || seen[t] {
		return
	}
	seen[t] = true
	sb.WriteString("FILE " + t.Filename + "\n")
	for _, inc := range t.Includes {
		sb.WriteString("include " + inc.Path)
		if res && inc.Used != nil {
			sb.WriteString(" used=" + strconv.FormatBool(*inc.Used))
		}
		sb.WriteString("\n")
	}
	for _, c := range t.CppIncludes {
		sb.WriteString("cpp_include " + c + "\n")
	}
	for _, n := range t.Namespaces {
		sb.WriteString("namespace " + n.Language + " " + n.Name)
		zzAnn(sb, n.Annotations)
		sb.WriteString("\n")
	}
	for _, td := range t.Typedefs {
		sb.WriteString("typedef ")
		zzType(sb, td.Type, res)
		sb.WriteString(" " + td.Alias)
		zzAnn(sb, td.Annotations)
		sb.WriteString("\n")
	}
	for _, c := range t.Constants {
		sb.WriteString("const ")
		zzType(sb, c.Type, res)
		sb.WriteString(" " + c.Name + " = ")
		zzConst(sb, c.Value, res)
		zzAnn(sb, c.Annotations)
		sb.WriteString("\n")
	}
	for _, e := range t.Enums {
		sb.WriteString("enum " + e.Name)
		zzAnn(sb, e.Annotations)
		sb.WriteString("\n")
		for _, v := range e.Values {
			sb.WriteString("  " + v.Name + "=" + strconv.FormatInt(v.Value, 10))
			zzAnn(sb, v.Annotations)
			sb.WriteString("\n")
		}
	}
	for _, group := range [][]*StructLike{t.Structs, t.Unions, t.Exceptions} {
		for _, s := range group {
			sb.WriteString(s.Category + " " + s.Name)
			zzAnn(sb, s.Annotations)
			sb.WriteString("\n")
			zzFields(sb, s.Fields, res)
		}
	}
	for _, s := range t.Services {
		sb.WriteString("service " + s.Name + " extends " + s.Extends)
		if res && s.Reference != nil {
			sb.WriteString("@" + s.Reference.Name + ":" + strconv.Itoa(int(s.Reference.Index)))
		}
		zzAnn(sb, s.Annotations)
		sb.WriteString("\n")
		for _, f := range s.Functions {
			sb.WriteString(" fn " + f.Name + " oneway=" + strconv.FormatBool(f.Oneway) + " void=" + strconv.FormatBool(f.Void) + " ")
			zzType(sb, f.FunctionType, res)
			zzAnn(sb, f.Annotations)
			sb.WriteString("\n  args\n")
			zzFields(sb, f.Arguments, res)
			sb.WriteString("  throws\n")
			zzFields(sb, f.Throws, res)
		}
	}
	for _, inc := range t.Includes {
		zzSigFile(sb, inc.Reference, res, seen)
	}
}
