//zz:target semantic
package semantic

import (
	"math"
	"strings"

	"github.com/cloudwego/thriftgo/parser"

	zzrt "github.com/cloudwego/thriftgo/internal/zzverifrt"
)

// ---------------------------------------------------------------------------------------------
// The program model: three files. It is rendered to IDL text (parsed by the real parser) and it
// is the schema the reference resolver below interprets with plain loops.

type zzDef struct {
	kind   string   // typedef enum struct union exception const service
	name   string
	target string   // typedef: target type as written; const: its type
	vals   []string // enum values
	value  string   // const: initializer as written
}

type zzFileM struct {
	path string
	incs []string
	defs []zzDef
}

// y.thrift and z.thrift are leaves; x.thrift includes z and y (so y sits at index 1 in x while x
// sits at index 0 in a); a.thrift includes x and y (diamond on y).
// The same local names (T, E) exist in x and y on purpose.
func zzModel() []zzFileM {
	return []zzFileM{
		{path: "a.thrift", incs: []string{"x.thrift", "y.thrift", "z.thrift"}, defs: []zzDef{
			{kind: "typedef", name: "M", target: "y.S"},
			{kind: "typedef", name: "N", target: "M"},
			{kind: "typedef", name: "J", target: "x.O"},
			{kind: "typedef", name: "F", target: "y.F"}, // re-exports an included name under the same name (typedef chain a:F -> y:F -> y:E)
			{kind: "enum", name: "G", vals: []string{"P", "H"}},
			{kind: "struct", name: "A"},
			{kind: "const", name: "D", target: "i32", value: "7"},
			{kind: "service", name: "W"},
		}},
		{path: "x.thrift", incs: []string{"z.thrift", "y.thrift"}, defs: []zzDef{
			{kind: "typedef", name: "T", target: "y.T"},
			{kind: "typedef", name: "U", target: "T"},
			{kind: "typedef", name: "O", target: "y.E"},
			{kind: "enum", name: "E", vals: []string{"P", "R"}},
			{kind: "struct", name: "Z"},
			{kind: "exception", name: "X"},
			{kind: "const", name: "K", target: "i32", value: "1"},
			{kind: "service", name: "V"},
		}},
		{path: "z.thrift", defs: []zzDef{
			{kind: "struct", name: "ZS"},
		}},
		{path: "y.thrift", defs: []zzDef{
			{kind: "typedef", name: "I", target: "i32"},
			{kind: "enum", name: "E", vals: []string{"P", "Q"}},
			{kind: "struct", name: "S"},
			{kind: "typedef", name: "T", target: "S"},
			{kind: "typedef", name: "F", target: "E"},
			{kind: "union", name: "L"},
			{kind: "const", name: "C", target: "i32", value: "2"},
		}},
	}
}

func zzRenderFile(f zzFileM, order int) string {
	var sb strings.Builder
	for _, inc := range f.incs {
		sb.WriteString("include \"" + inc + "\"\n")
	}
	n := len(f.defs)
	for k := 0; k < n; k++ {
		i := k
		switch order {
		case 1:
			i = n - 1 - k
		case 2:
			i = (k + n/2) % n
		}
		d := f.defs[i]
		switch d.kind {
		case "typedef":
			sb.WriteString("typedef " + d.target + " " + d.name + "\n")
		case "enum":
			sb.WriteString("enum " + d.name + " { " + strings.Join(d.vals, ", ") + " }\n")
		case "struct", "union", "exception":
			sb.WriteString(d.kind + " " + d.name + " { 1: i32 q }\n")
		case "const":
			sb.WriteString("const " + d.target + " " + d.name + " = " + d.value + "\n")
		case "service":
			sb.WriteString("service " + d.name + " { void ping() }\n")
		}
	}
	return sb.String()
}

// zzParse renders the model (plus extra text appended to a.thrift) and parses it.
func zzParse(extraMain string, order int) *parser.Thrift {
	m := zzModel()
	files := map[string]string{}
	for _, f := range m {
		src := zzRenderFile(f, order)
		if f.path == "a.thrift" {
			src += extraMain
		}
		files[f.path] = src
	}
	ast, err := parser.ParseBatchString("a.thrift", files, nil)
	if err != nil {
		panic("model does not parse: " + err.Error())
	}
	return ast
}

// zzPipeline is what the compiler runs before generating code (sdk/invoke.go).
func zzPipeline(ast *parser.Thrift) error {
	if path := parser.CircleDetect(ast); len(path) > 0 {
		return errStr("include circle " + path)
	}
	if _, err := NewChecker(Options{FixWarnings: true}).CheckAll(ast); err != nil {
		return err
	}
	return ResolveSymbols(ast)
}

type errStr string

func (e errStr) Error() string { return string(e) }

// ---------------------------------------------------------------------------------------------
// reference resolver over the model (no maps, no fix-point)

func zzFileIdx(m []zzFileM, path string) int {
	for i := range m {
		if m[i].path == path {
			return i
		}
	}
	return -1
}

func zzFind(f zzFileM, name string) (zzDef, bool) {
	for _, d := range f.defs {
		if d.name == name {
			return d, true
		}
	}
	return zzDef{}, false
}

func zzPrefix(path string) string { return strings.TrimSuffix(path, ".thrift") }

func zzBaseCat(name string) (parser.Category, bool) {
	switch name {
	case "bool":
		return parser.Category_Bool, true
	case "byte", "i8":
		return parser.Category_Byte, true
	case "i16":
		return parser.Category_I16, true
	case "i32":
		return parser.Category_I32, true
	case "i64":
		return parser.Category_I64, true
	case "double":
		return parser.Category_Double, true
	case "string":
		return parser.Category_String, true
	case "binary":
		return parser.Category_Binary, true
	}
	return 0, false
}

func zzKindCat(kind string) parser.Category {
	switch kind {
	case "enum":
		return parser.Category_Enum
	case "struct":
		return parser.Category_Struct
	case "union":
		return parser.Category_Union
	case "exception":
		return parser.Category_Exception
	case "typedef":
		return parser.Category_Typedef
	case "const":
		return parser.Category_Constant
	case "service":
		return parser.Category_Service
	}
	return 0
}

type zzBinding struct {
	ok        bool
	cat       parser.Category // final category (typedefs followed)
	isTypedef bool
	refName   string // set for include-qualified names
	refIndex  int
	finalFile int    // model index of the file that defines the final type (-1: base type)
	finalName string
}

// zzResolveType: what `spelling`, written in file fi, denotes. depth guards cycles.
func zzResolveType(m []zzFileM, fi int, spelling string, depth int) zzBinding {
	if depth > 8 {
		return zzBinding{}
	}
	if c, ok := zzBaseCat(spelling); ok {
		return zzBinding{ok: true, cat: c, finalFile: -1, finalName: spelling}
	}
	if spelling == "" || spelling == "map" || spelling == "list" || spelling == "set" {
		return zzBinding{}
	}
	dot := strings.LastIndex(spelling, ".")
	if dot < 0 {
		d, ok := zzFind(m[fi], spelling)
		if !ok {
			return zzBinding{}
		}
		switch d.kind {
		case "enum", "struct", "union", "exception":
			return zzBinding{ok: true, cat: zzKindCat(d.kind), finalFile: fi, finalName: d.name}
		case "typedef":
			b := zzResolveType(m, fi, d.target, depth+1)
			if !b.ok {
				return zzBinding{}
			}
			return zzBinding{ok: true, cat: b.cat, isTypedef: true, finalFile: b.finalFile, finalName: b.finalName}
		}
		return zzBinding{}
	}
	prefix, name := spelling[:dot], spelling[dot+1:]
	for i, inc := range m[fi].incs {
		if zzPrefix(inc) != prefix {
			continue
		}
		gi := zzFileIdx(m, inc)
		d, ok := zzFind(m[gi], name)
		if !ok {
			continue
		}
		switch d.kind {
		case "enum", "struct", "union", "exception":
			return zzBinding{ok: true, cat: zzKindCat(d.kind), refName: name, refIndex: i, finalFile: gi, finalName: d.name}
		case "typedef":
			b := zzResolveType(m, gi, d.target, depth+1)
			if !b.ok {
				return zzBinding{}
			}
			return zzBinding{ok: true, cat: b.cat, isTypedef: true, refName: name, refIndex: i, finalFile: b.finalFile, finalName: b.finalName}
		}
	}
	return zzBinding{}
}

// ---------------------------------------------------------------------------------------------
// type references

// positions at which the free name is planted (all in a.thrift)
const zzTypePositions = 7

func zzPlantType(ast *parser.Thrift, pos int, name string) *parser.Type {
	t := &parser.Type{Name: name}
	switch pos {
	case 0: // typedef target
		ast.Typedefs = append(ast.Typedefs, &parser.Typedef{Type: t, Alias: "ZZ"})
	case 1: // struct field
		ast.Structs[0].Fields = append(ast.Structs[0].Fields, &parser.Field{ID: 9, Name: "zz", Type: t})
	case 2: // map key inside a list in a union field
		ast.Unions = append(ast.Unions, &parser.StructLike{Category: "union", Name: "ZZU", Fields: []*parser.Field{{ID: 1, Name: "zz",
			Type: &parser.Type{Name: "list", ValueType: &parser.Type{Name: "map", KeyType: t, ValueType: &parser.Type{Name: "i32"}}}}}})
	case 3: // function result
		ast.Services[0].Functions = append(ast.Services[0].Functions, &parser.Function{Name: "zz", FunctionType: t})
	case 4: // argument
		ast.Services[0].Functions = append(ast.Services[0].Functions, &parser.Function{Name: "zz", Void: true, Arguments: []*parser.Field{{ID: 1, Name: "a", Type: t}}})
	case 5: // throws
		ast.Services[0].Functions = append(ast.Services[0].Functions, &parser.Function{Name: "zz", Void: true, Throws: []*parser.Field{{ID: 1, Name: "e", Type: t}}})
	case 6: // constant type
		i := int64(0)
		ast.Constants = append(ast.Constants, &parser.Constant{Name: "ZZC", Type: t, Value: &parser.ConstValue{Type: parser.ConstType_ConstInt, TypedValue: &parser.ConstTypedValue{Int: &i}}})
	}
	return t
}

// H_SEM_typeref: a type reference spelled with n free bytes at position pos.
// mode 0 (C05): when the reference resolver finds a binding, resolution succeeds and records it.
// mode 1 (C04): when it finds none, the pipeline reports an error.
func H_SEM_typeref(mode, pos, n int) {
	m := zzModel()
	ast := zzParse("", 0)
	name := zzrt.String("name", n)
	// the planted definitions themselves are not part of the model
	zzrt.Assume(name != "ZZ" && name != "ZZU" && name != "ZZC")
	t := zzPlantType(ast, pos, name)
	want := zzResolveType(m, 0, name, 0)
	err := zzPipeline(ast)
	if !want.ok {
		zzrt.Cover("unbound")
		if mode == 1 {
			zzrt.Assert(err != nil, "a reference that names no type is diagnosed")
		}
		return
	}
	zzrt.Cover("bound")
	if mode == 1 {
		return
	}
	zzrt.Assert(err == nil, "a reference that names a type is accepted")
	zzrt.Assert(t.Category == want.cat, "category of the ultimate definition")
	zzrt.Assert(t.GetIsTypedef() == want.isTypedef, "typedef flag")
	if want.refName != "" {
		zzrt.Assert(t.Reference != nil && t.Reference.Name == want.refName && int(t.Reference.Index) == want.refIndex, "include index and name of a qualified reference")
	} else {
		zzrt.Assert(t.Reference == nil, "no include reference for a local name")
	}
	// include usage: the model itself uses x (typedef J -> x.O) and y (typedef M -> y.S), never z
	wantZ := want.refName != "" && want.refIndex == 2
	zzrt.Assert(ast.Includes[2].GetUsed() == wantZ, "include z marked used exactly when referred to")
	zzrt.Assert(ast.Includes[0].GetUsed() && ast.Includes[1].GetUsed(), "includes x and y are used by the model")
	// Deref ends at the ultimate definition
	if want.finalFile >= 0 {
		dast, dt, derr := Deref(ast, t)
		zzrt.Assert(derr == nil, "Deref succeeds")
		zzrt.Assert(dt.Name == want.finalName || strings.HasSuffix(dt.Name, "."+want.finalName), "Deref reaches the ultimate definition")
		zzrt.Assert(dt.Category == want.cat, "Deref category")
		zzrt.Assert(dast.Filename == m[want.finalFile].path || dt.Reference != nil, "Deref returns the defining file")
	}
}

// ---------------------------------------------------------------------------------------------
// constant identifiers

type zzValBinding struct {
	n      int // number of explanations
	isEnum bool
	index  int
	name   string
	sel    string
}

// zzEnumOf: the enum that `name` (local name in file fi, possibly a typedef chain) denotes.
// idx is the include index (relative to fi) of the first hop into another file, -1 if local.
func zzEnumOf(m []zzFileM, fi int, name string, depth int) (vals []string, idx int, ok bool) {
	if depth > 8 {
		return nil, -1, false
	}
	d, found := zzFind(m[fi], name)
	if !found {
		return nil, -1, false
	}
	switch d.kind {
	case "enum":
		return d.vals, -1, true
	case "typedef":
		dot := strings.LastIndex(d.target, ".")
		if dot >= 0 {
			prefix, tn := d.target[:dot], d.target[dot+1:]
			for i, inc := range m[fi].incs {
				if zzPrefix(inc) != prefix {
					continue
				}
				gi := zzFileIdx(m, inc)
				if _, ok := zzFind(m[gi], tn); !ok {
					continue
				}
				if v, _, ok := zzEnumOf(m, gi, tn, depth+1); ok {
					return v, i, true
				}
				return nil, -1, false
			}
			return nil, -1, false
		}
		return zzEnumOf(m, fi, d.target, depth+1)
	}
	return nil, -1, false
}

func zzHas(vals []string, v string) bool {
	for _, x := range vals {
		if x == v {
			return true
		}
	}
	return false
}

func zzResolveValue(m []zzFileM, fi int, id string) zzValBinding {
	var b zzValBinding
	add := func(isEnum bool, index int, name, sel string) {
		b.n++
		b.isEnum, b.index, b.name, b.sel = isEnum, index, name, sel
	}
	if id == "" {
		return b
	}
	dot := strings.LastIndex(id, ".")
	if dot < 0 {
		if d, ok := zzFind(m[fi], id); ok && d.kind == "const" {
			add(false, -1, id, "")
		}
		return b
	}
	i, v := id[:dot], id[dot+1:]
	// enum.value (enum possibly behind typedefs)
	if vals, idx, ok := zzEnumOf(m, fi, i, 0); ok && zzHas(vals, v) {
		add(true, idx, v, i)
	}
	// include.constant
	for k, inc := range m[fi].incs {
		if zzPrefix(inc) != i {
			continue
		}
		if d, ok := zzFind(m[zzFileIdx(m, inc)], v); ok && d.kind == "const" {
			add(false, k, v, i)
		}
	}
	// include.enum.value
	if dot2 := strings.LastIndex(i, "."); dot2 >= 0 {
		p, en := i[:dot2], i[dot2+1:]
		for k, inc := range m[fi].incs {
			if zzPrefix(inc) != p {
				continue
			}
			if vals, _, ok := zzEnumOf(m, zzFileIdx(m, inc), en, 0); ok && zzHas(vals, v) {
				add(true, k, v, en)
			}
		}
	}
	return b
}

func zzIdent(id string) *parser.ConstValue {
	return &parser.ConstValue{Type: parser.ConstType_ConstIdentifier, TypedValue: &parser.ConstTypedValue{Identifier: &id}}
}

// H_SEM_valref: a constant identifier of n free bytes. pos 0: constant initializer,
// 1: field default, 2: element of a list constant, 3: key of a map constant.
func H_SEM_valref(mode, pos, n int) {
	m := zzModel()
	ast := zzParse("", 0)
	id := zzrt.String("id", n)
	zzrt.Assume(id != "true" && id != "false" && id != "ZZC")
	cv := zzIdent(id)
	switch pos {
	case 0:
		ast.Constants = append(ast.Constants, &parser.Constant{Name: "ZZC", Type: &parser.Type{Name: "i32"}, Value: cv})
	case 1:
		ast.Structs[0].Fields = append(ast.Structs[0].Fields, &parser.Field{ID: 9, Name: "zz", Type: &parser.Type{Name: "i32"}, Default: cv})
	case 2:
		ast.Constants = append(ast.Constants, &parser.Constant{Name: "ZZC", Type: &parser.Type{Name: "list", ValueType: &parser.Type{Name: "i32"}},
			Value: &parser.ConstValue{Type: parser.ConstType_ConstList, TypedValue: &parser.ConstTypedValue{List: []*parser.ConstValue{cv}}}})
	case 3:
		one := int64(1)
		ast.Constants = append(ast.Constants, &parser.Constant{Name: "ZZC", Type: &parser.Type{Name: "map", KeyType: &parser.Type{Name: "i32"}, ValueType: &parser.Type{Name: "i32"}},
			Value: &parser.ConstValue{Type: parser.ConstType_ConstMap, TypedValue: &parser.ConstTypedValue{Map: []*parser.MapConstValue{{Key: cv,
				Value: &parser.ConstValue{Type: parser.ConstType_ConstInt, TypedValue: &parser.ConstTypedValue{Int: &one}}}}}}})
	}
	want := zzResolveValue(m, 0, id)
	err := zzPipeline(ast)
	if want.n != 1 {
		zzrt.Cover("unbound")
		if mode == 1 {
			zzrt.Assert(err != nil, "an undefined or ambiguous constant identifier is diagnosed")
		}
		return
	}
	zzrt.Cover("bound")
	if mode == 1 {
		return
	}
	zzrt.Assert(err == nil, "a constant identifier with exactly one meaning is accepted")
	zzrt.Assert(cv.Extra != nil, "binding recorded")
	zzrt.Assert(cv.Extra.IsEnum == want.isEnum, "enum value vs constant")
	zzrt.Assert(cv.Extra.Name == want.name, "bound name")
	zzrt.Assert(int(cv.Extra.Index) == want.index, "include index of the binding (-1: local)")
	zzrt.Assert(cv.Extra.Sel == want.sel, "selector")
	// z defines no constant or enum: a bound identifier never goes through it
	zzrt.Assert(!ast.Includes[2].GetUsed(), "an include that nothing refers to is not marked used")
}

// ---------------------------------------------------------------------------------------------
// base service

func H_SEM_extends(mode, n int) {
	m := zzModel()
	ast := zzParse("", 0)
	name := zzrt.String("ext", n)
	zzrt.Assume(name != "ZZS")
	svc := &parser.Service{Name: "ZZS", Extends: name}
	ast.Services = append(ast.Services, svc)
	// reference: local service, or prefix.Service of an include
	ok, idx, base := false, -1, ""
	if dot := strings.LastIndex(name, "."); dot < 0 {
		if d, found := zzFind(m[0], name); found && d.kind == "service" {
			ok = true
		}
	} else {
		p, s := name[:dot], name[dot+1:]
		for i, inc := range m[0].incs {
			if zzPrefix(inc) == p {
				if d, found := zzFind(m[zzFileIdx(m, inc)], s); found && d.kind == "service" {
					ok, idx, base = true, i, s
					break
				}
			}
		}
	}
	err := zzPipeline(ast)
	if !ok {
		zzrt.Cover("unbound")
		if mode == 1 {
			zzrt.Assert(err != nil, "an unknown base service is diagnosed")
		}
		return
	}
	zzrt.Cover("bound")
	if mode == 1 {
		return
	}
	zzrt.Assert(err == nil, "an existing base service is accepted")
	if idx >= 0 {
		zzrt.Assert(svc.Reference != nil && svc.Reference.Name == base && int(svc.Reference.Index) == idx, "base service reference")
		zzrt.Assert(ast.Includes[idx].GetUsed(), "include of the base service marked used")
	} else {
		zzrt.Assert(svc.Reference == nil, "local base service has no include reference")
	}
}

// ---------------------------------------------------------------------------------------------
// order independence

func zzSortedSig(ast *parser.Thrift) string {
	lines := strings.Split(parser.ZZSig(ast, true), "\n")
	// definitions of one kind may be permuted: sort blocks (a block = a line not starting with a blank + its indented lines)
	var blocks []string
	for _, l := range lines {
		if strings.HasPrefix(l, " ") && len(blocks) > 0 {
			blocks[len(blocks)-1] += "\n" + l
		} else {
			blocks = append(blocks, l)
		}
	}
	// insertion sort (no sort package dependency on reflection)
	for i := 1; i < len(blocks); i++ {
		for j := i; j > 0 && blocks[j] < blocks[j-1]; j-- {
			blocks[j], blocks[j-1] = blocks[j-1], blocks[j]
		}
	}
	return strings.Join(blocks, "\n")
}

const zzRichMain = `
typedef N N2
typedef x.U XU
typedef list<x.O> LO
struct B { 1: N2 a, 2: XU b = {"q": 1}, 3: map<y.I, x.E> c, 4: G g = G.H, 5: y.E e = y.E.Q, 6: i32 k = x.K, 7: y.F f = y.F.P, 8: i32 d = D }
const list<G> GS = [G.P, G.H]
const map<x.O, i32> OM = {x.O.P: 1, y.E.Q: D}
service W2 extends x.V { N2 f(1: LO a) throws (1: x.X e) }
`

// H_SEM_order: the definition order of every file is one of three permutations.
func H_SEM_order() {
	o := zzrt.Choose("order", 3)
	base := zzParse(zzRichMain, 0)
	zzrt.Assert(zzPipeline(base) == nil, "model is accepted")
	ast := zzParse(zzRichMain, o)
	zzrt.Assert(zzPipeline(ast) == nil, "permuted model is accepted")
	zzrt.Assert(zzSortedSig(ast) == zzSortedSig(base), "resolution does not depend on the definition order")
	zzrt.Cover("end")
}

func D_SEM_rich() string {
	ast := zzParse(zzRichMain, 0)
	if err := zzPipeline(ast); err != nil {
		return "ERR " + err.Error()
	}
	return parser.ZZSig(ast, true)
}

func D_SEM_errors() string {
	out := ""
	for _, extra := range []string{"typedef Nope Q1\n", "const i32 Q = Nope\n", "const i32 Q = y.E.Z\n", "struct A {}\n", "service Q extends y.S {}\n",
		"typedef Q2 Q1\ntypedef Q1 Q2\n", "enum Q { A = 1, B = 1 }\n", "struct Q { 1: i32 a, 1: i32 b }\n", "service Q { oneway i32 f() }\n", "union Q { 1: i32 a = 1, 2: i32 b = 2 }\n"} {
		ast := zzParse(extra, 0)
		if err := zzPipeline(ast); err != nil {
			out += "E;"
		} else {
			out += "ok;"
		}
	}
	return out
}

// ---------------------------------------------------------------------------------------------
// C04: rule breaking edits with free names / numbers

var zzKinds = []string{"typedef", "const", "enum", "struct", "union", "exception", "service"}

func zzDefText(kind, name string) string {
	switch kind {
	case "typedef":
		return "typedef i32 " + name + "\n"
	case "const":
		return "const i32 " + name + " = 1\n"
	case "enum":
		return "enum " + name + " { ZA }\n"
	case "service":
		return "service " + name + " {}\n"
	}
	return kind + " " + name + " { 1: i32 q }\n"
}

// H_C04_dup_global: two definitions of kinds k1, k2 whose names are free 2-byte strings, added
// to file number `file` of the include graph (0 = main, 1 = x, 2 = y).
func H_C04_dup_global(k1, k2, file int) {
	m := zzModel()
	n1, n2 := zzrt.String("n1", 2), zzrt.String("n2", 2)
	files := map[string]string{}
	for i, f := range m {
		files[f.path] = zzRenderFile(f, 0)
		if i == file {
			files[f.path] += zzDefText(zzKinds[k1], "Q"+n1) + zzDefText(zzKinds[k2], "Q"+n2)
		}
	}
	for i := 0; i < 2; i++ {
		c1, c2 := n1[i], n2[i]
		zzrt.Assume((c1 >= 'a' && c1 <= 'z') || (c1 >= '0' && c1 <= '9') || c1 == '_')
		zzrt.Assume((c2 >= 'a' && c2 <= 'z') || (c2 >= '0' && c2 <= '9') || c2 == '_')
	}
	ast, err := parser.ParseBatchString("a.thrift", files, nil)
	zzrt.Assert(err == nil, "document parses")
	err = zzPipeline(ast)
	if n1 == n2 {
		zzrt.Assert(err != nil, "duplicate global name is diagnosed")
		zzrt.Cover("dup")
	} else {
		zzrt.Assert(err == nil, "distinct names are accepted")
		zzrt.Cover("distinct")
	}
}

// H_C04_dup_field: two fields with free ids and free 1-byte names in holder h
// (0 struct, 1 union, 2 exception, 3 arguments, 4 throws).
func H_C04_dup_field(h int) {
	ast := zzParse("", 0)
	id1, id2 := zzrt.Int32("id1"), zzrt.Int32("id2")
	c1, c2 := zzrt.Byte("c1"), zzrt.Byte("c2")
	zzrt.Assume(c1 >= 'a' && c1 <= 'z' && c2 >= 'a' && c2 <= 'z')
	f1 := &parser.Field{ID: id1, Name: string([]byte{c1}), Type: &parser.Type{Name: "i32"}}
	f2 := &parser.Field{ID: id2, Name: string([]byte{c2}), Type: &parser.Type{Name: "i32"}}
	if h == 4 {
		f1.Type = &parser.Type{Name: "x.X"}
		f2.Type = &parser.Type{Name: "x.X"}
	}
	fs := []*parser.Field{f1, f2}
	switch h {
	case 0, 1, 2:
		cat := []string{"struct", "union", "exception"}[h]
		sl := &parser.StructLike{Category: cat, Name: "ZZ", Fields: fs}
		switch h {
		case 0:
			ast.Structs = append(ast.Structs, sl)
		case 1:
			ast.Unions = append(ast.Unions, sl)
		case 2:
			ast.Exceptions = append(ast.Exceptions, sl)
		}
	case 3:
		ast.Services[0].Functions = append(ast.Services[0].Functions, &parser.Function{Name: "zz", Void: true, Arguments: fs})
	case 4:
		ast.Services[0].Functions = append(ast.Services[0].Functions, &parser.Function{Name: "zz", Void: true, Throws: fs})
	}
	err := zzPipeline(ast)
	if id1 == id2 || c1 == c2 {
		zzrt.Assert(err != nil, "duplicate field id or name is diagnosed")
		zzrt.Cover("dup")
	} else {
		zzrt.Assert(err == nil, "distinct fields are accepted")
		zzrt.Cover("distinct")
	}
}

// H_C04_enum: an enum with two values with free names and free numbers.
func H_C04_enum() {
	ast := zzParse("", 0)
	v1, v2 := zzrt.Int64("v1"), zzrt.Int64("v2")
	c1, c2 := zzrt.Byte("c1"), zzrt.Byte("c2")
	zzrt.Assume(c1 >= 'A' && c1 <= 'Z' && c2 >= 'A' && c2 <= 'Z')
	ast.Enums = append(ast.Enums, &parser.Enum{Name: "ZZ", Values: []*parser.EnumValue{{Name: string([]byte{c1}), Value: v1}, {Name: string([]byte{c2}), Value: v2}}})
	err := zzPipeline(ast)
	bad := c1 == c2 || v1 == v2 || v1 < math.MinInt32 || v1 > math.MaxInt32 || v2 < math.MinInt32 || v2 > math.MaxInt32
	if bad {
		zzrt.Assert(err != nil, "duplicate enum value name/number or a number outside int32 is diagnosed")
		zzrt.Cover("bad")
	} else {
		zzrt.Assert(err == nil, "a proper enum is accepted")
		zzrt.Cover("good")
	}
}

// H_C04_function: one or two functions with free flags.
func H_C04_function() {
	ast := zzParse("", 0)
	oneway, void, throws := zzrt.Bool("oneway"), zzrt.Bool("void"), zzrt.Bool("throws")
	c1, c2 := zzrt.Byte("c1"), zzrt.Byte("c2")
	zzrt.Assume(c1 >= 'a' && c1 <= 'z' && c2 >= 'a' && c2 <= 'z')
	f := &parser.Function{Name: string([]byte{c1}), Oneway: oneway, Void: void}
	if !void {
		f.FunctionType = &parser.Type{Name: "i32"}
	}
	if throws {
		f.Throws = []*parser.Field{{ID: 1, Name: "e", Type: &parser.Type{Name: "x.X"}}}
	}
	g := &parser.Function{Name: string([]byte{c2}), Void: true}
	ast.Services[0].Functions = append(ast.Services[0].Functions, f, g)
	err := zzPipeline(ast)
	bad := c1 == c2 || (oneway && (!void || throws)) || c1 == 'p' && false
	if bad {
		zzrt.Assert(err != nil, "duplicate function name or a oneway function that returns or throws is diagnosed")
		zzrt.Cover("bad")
	} else {
		zzrt.Assert(err == nil, "proper functions are accepted")
		zzrt.Cover("good")
	}
}

// H_C04_union_default: a union with three members; each has a default iff its flag is set.
func H_C04_union_default() {
	ast := zzParse("", 0)
	n := 0
	var fs []*parser.Field
	for i := 0; i < 3; i++ {
		f := &parser.Field{ID: int32(i + 1), Name: string([]byte{'a' + byte(i)}), Type: &parser.Type{Name: "i32"}}
		if zzrt.Bool("def") {
			v := int64(i)
			f.Default = &parser.ConstValue{Type: parser.ConstType_ConstInt, TypedValue: &parser.ConstTypedValue{Int: &v}}
			n++
		}
		fs = append(fs, f)
	}
	ast.Unions = append(ast.Unions, &parser.StructLike{Category: "union", Name: "ZZ", Fields: fs})
	err := zzPipeline(ast)
	if n >= 2 {
		zzrt.Assert(err != nil, "a second default value in a union is diagnosed")
		zzrt.Cover("two")
	} else {
		zzrt.Assert(err == nil, "a union with at most one default is accepted")
		zzrt.Cover("one")
	}
}

// H_C04_typedef_cycle: three typedefs whose targets are free choices among {i32, Q0, Q1, Q2, y.I}
// and a constant that selects an enum value through them. A cycle must be diagnosed without
// hanging or overflowing the stack.
func H_C04_typedef_cycle(withConst int) {
	names := []string{"Q0", "Q1", "Q2"}
	targets := []string{"i32", "Q0", "Q1", "Q2", "y.I", "G"}
	var tg [3]int
	extra := ""
	for i := 0; i < 3; i++ {
		tg[i] = zzrt.Choose("t", len(targets))
		extra += "typedef " + targets[tg[i]] + " " + names[i] + "\n"
	}
	if withConst == 1 {
		extra += "const i32 QC = Q0.P\n"
	}
	ast := zzParse(extra, 0)
	err := zzPipeline(ast)
	// reference: follow the chain from each typedef with a step bound
	cyc := false
	for i := 0; i < 3; i++ {
		cur := i
		for steps := 0; steps < 4; steps++ {
			t := tg[cur]
			if t >= 1 && t <= 3 {
				cur = t - 1
				if steps == 3 {
					cyc = true
				}
			} else {
				break
			}
		}
	}
	if cyc {
		zzrt.Assert(err != nil, "an unresolvable typedef chain is diagnosed")
		zzrt.Cover("cycle")
	} else if withConst == 0 {
		zzrt.Assert(err == nil, "acyclic typedefs are accepted")
		zzrt.Cover("acyclic")
	}
}

// H_C04_include_cycle: k files with a free include matrix (built as ASTs); a cycle reachable
// from the main file must be reported.
func H_C04_include_cycle(k int) {
	asts := make([]*parser.Thrift, k)
	for i := range asts {
		asts[i] = &parser.Thrift{Filename: string([]byte{'a' + byte(i)}) + ".thrift"}
	}
	var edge [4][4]bool
	for i := 0; i < k; i++ {
		for j := 0; j < k; j++ {
			if zzrt.Bool("inc") {
				edge[i][j] = true
				asts[i].Includes = append(asts[i].Includes, &parser.Include{Path: asts[j].Filename, Reference: asts[j]})
			}
		}
	}
	// reference: is some node reachable from 0 (incl. 0) on a cycle? transitive closure by k rounds
	var reach [4][4]bool
	for i := 0; i < k; i++ {
		for j := 0; j < k; j++ {
			reach[i][j] = edge[i][j]
		}
	}
	for r := 0; r < k; r++ {
		for i := 0; i < k; i++ {
			for j := 0; j < k; j++ {
				for l := 0; l < k; l++ {
					if reach[i][l] && reach[l][j] {
						reach[i][j] = true
					}
				}
			}
		}
	}
	cyc := false
	for i := 0; i < k; i++ {
		if (i == 0 || reach[0][i]) && reach[i][i] {
			cyc = true
		}
	}
	err := zzPipeline(asts[0])
	if cyc {
		zzrt.Assert(err != nil, "an include cycle is diagnosed")
		zzrt.Cover("cycle")
	} else {
		zzrt.Assert(err == nil, "an acyclic include graph of empty files is accepted")
		zzrt.Cover("dag")
	}
}

// H_C04_ambiguous: two included files of the same base name (different directories) define
// constants and enums; 'c.' + a free byte names a constant of the first, of the second, of both
// (ambiguous: must be diagnosed) or of neither (undefined: must be diagnosed). pos: 0 constant
// value, 1 field default. Likewise 'c.N.' + free byte for enum values through the include.
func H_C04_ambiguous(pos int) {
	files := map[string]string{
		"d1/c.thrift": "const i32 L = 1\nconst i32 K = 2\nenum N { P, R }\n",
		"d2/c.thrift": "const i32 L = 3\nconst i32 J = 4\nenum N { P, Q }\n",
	}
	b := zzrt.Byte("b")
	zzrt.Assume(b >= 'A' && b <= 'Z')
	viaEnum := zzrt.Bool("enum")
	id := "c." + string([]byte{b})
	if viaEnum {
		id = "c.N." + string([]byte{b})
	}
	main := "include \"d1/c.thrift\"\ninclude \"d2/c.thrift\"\n"
	ty := "i32"
	if viaEnum {
		ty = "i64"
	}
	if pos == 0 {
		main += "const " + ty + " M = " + id + "\n"
	} else {
		main += "struct SS { 1: " + ty + " f = " + id + " }\n"
	}
	files["a.thrift"] = main
	ast, err := parser.ParseBatchString("a.thrift", files, nil)
	zzrt.Assert(err == nil, "model parses")
	err = zzPipeline(ast)
	n := 0
	if viaEnum {
		if b == 'P' {
			n = 2
		} else if b == 'R' || b == 'Q' {
			n = 1
		}
	} else {
		if b == 'L' {
			n = 2
		} else if b == 'K' || b == 'J' {
			n = 1
		}
	}
	switch n {
	case 2:
		zzrt.Assert(err != nil, "a constant identifier that two includes of the same name both define is diagnosed as ambiguous")
		zzrt.Cover("ambiguous")
	case 1:
		zzrt.Assert(err == nil, "a constant identifier only one of two same-named includes defines is accepted")
		zzrt.Cover("one")
	default:
		zzrt.Assert(err != nil, "an undefined constant identifier is diagnosed")
		zzrt.Cover("none")
	}
}
