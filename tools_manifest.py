#!/usr/bin/env python3
"""Regenerates MANIFEST.json from the table below (kept valid at all times)."""
import json
props=[json.loads(l) for l in open('/verif/properties.jsonl')]
ids=[p['id'] for p in props]
TECH="bounded symbolic execution of the Go SSA of the real code (own engine gosym) with SMT-decided path conditions and assertions (z3 5.1 bit-vectors); counterexamples replayed natively"
claimed={
 "C18": dict(
   text="Generated DeepEqual (real thriftgo binary, gen_deep_equal) executed symbolically on two values of every struct-like of the corpus: for all full-width symbolic leaves, symbolic optional presence and symbolic map keys, x.DeepEqual(y) is true exactly when an in-harness structural equality over the generic value trees holds (absent optional differs from present, nil and empty containers equal, key-wise maps), it is symmetric and reflexive, nil receivers/arguments do not panic, and Write rejects exactly the sets that hold two equal elements.",
   note="Bounds: containers/strings of length n<=1 quick (y shares the presence structure of x except one freely chosen member), thorough n<=2 and fully independent x, y; sets with 2 (3) free elements. Doubles assumed non-NaN. Struct-typed map keys are not in the corpus. Programs dimension: the designed corpus.",
   ref="6 C18"),
 "C02": dict(
   text="The real thriftgo binary is built from /repo and generates Go code for a designed IDL corpus under 6 option configurations; the generated Write/Read (with apache thrift's TBinaryProtocol, all interpreted from go/ssa) are executed symbolically: for every value of every struct-like (all scalar leaves full-width symbolic, optional presence symbolic, containers/strings of the stated lengths) the bytes written decode under an independent schema-driven reference decoder to exactly that value, and Read of the reference encoding yields that value; an unknown field with a FREE i16 id of any of 11 wire types at any position is skipped, a retagged declared field is skipped (error iff required), a deleted field is an error iff required, a union with 0 or 2 members is refused.",
   note="The programs dimension is the designed corpus (7 struct-likes in one file; sampled), only values/perturbations are solver-decided. Bounds: container and string length n<=1 quick, <=2 thorough, recursion depth 1. Presentation-only configurations are checked against the same reference (so they cannot change a wire byte). use_type_alias=false, value_type_in_container and cross-include corpora are not covered yet. Trusted: own SSA interpreter + z3 5.1, the reference codec in the harness, corpus naming convention (IDL name -> Go name).",
   ref="6 C02, 4"),
 "C20": dict(
   text="Bounded symbolic model checking of golang.CodeUtils.HandleOptions/checkBool/validateOptions (option table built by reflection, executed through the engine's reflect model): for every documented boolean option and every value string of 0..3 (thorough 5) FREE bytes the result is an error iff the value is not '', 'true' or 'false', otherwise exactly that feature is switched and every other feature equals the default documented in README.md; ordered pairs and option triples with free positions and values apply sequentially (last write wins, also for names that are prefixes of one another); naming_style/template/use_package with free value strings accept exactly the documented values; slim disables deep-equal; documented invalid combinations are rejected.",
   note="The pair/triple dimension is a finite choice space enumerated through the solver; the solver's own contribution is the value-string dimension. Documented defaults are parsed from README.md on every run; the option -> Features field table is part of the harness. Outside: thriftgo -h text, flag parsing, args.checkOptions' template adaptation.",
   ref="6 C20"),
 "C17": dict(
   text="Bounded symbolic model checking of parse -> semantic check -> dump.DumpIDL -> parse -> check on the real SSA (including the interpreted html.UnescapeString and the placeholder substitutions): for every literal body of the stated length (free ASCII bytes) at 12 positions and both quote kinds, for placeholder prefixes followed by free bytes, for integer/double/id spellings with free digits and for service shapes with free counts and flags, whenever the source is accepted the dumped text is accepted and its AST equals the original node by node (doubles by value).",
   note="Bounds: one literal at a time, <=3 (thorough 4) free bytes; 2 free digits; <=2 arguments x <=3 throws. Five known findings of the dumper's quoting scheme are reported as KNOWN-FINDING inside narrow value regions (value contains backslash+quote, ##34;, #OUTQUOTES, '&' in a type annotation, a double quote in an include path); outside those regions every mismatch is a violation. DumpIDL_V1 (html/template) is outside.",
   ref="6 C17"),
 "C12": dict(
   text="Bounded symbolic model checking of generator.FileManager.Feed/BuildResponse from go/ssa: for every history of 3 submissions (named file / named patch / unnamed patch in every combination, fed in one call or split at every position) with names, contents and insertion points as solver-enumerated choices and a FREE byte in every unnamed patch text, the output equals an in-harness reference model of the statement (each kept file once in submission order, patches at every occurrence of their point in submission order, no marker left, identical duplicates dropped with their patches, first holder keeps its name, unnamed patch without target is an error); a second harness feeds 2..3 plain files named from {a.go,a_1.go,a_2.go} and requires pairwise distinct output names.",
   note="The name/content/point dimension is a finite choice space enumerated through the solver (exhaustive within the stated alphabet); the solver's own contribution is the patch bytes. The insertion-point scan is a regexp call-out on concrete contents. Known finding KF-C12-rename-collides-with-submitted-name is reported as KNOWN-FINDING. Outside: longer histories, persistence to disk (C19).",
   ref="6 C12"),
 "C04": dict(
   text="Bounded symbolic model checking of the in-process diagnosis pipeline CircleDetect -> CheckAll -> ResolveSymbols (sdk/invoke.go order) on a three-file include diamond: whenever an in-harness reference predicate says the program is broken (reference that names no type / value / service written as a FREE byte string, duplicate globals of every kind pair with free names in any file, duplicate field ids or names in struct/union/exception/argument/throws lists with free i32 ids, enum with free names and i64 numbers incl. the int32 range, oneway that returns or throws, second union default, typedef cycles with and without a constant selecting through them, include cycles of 1..3 files) the pipeline returns an error, never panics, overflows the stack or exceeds the step bound.",
   note="Only the error direction is asserted. Outside the technique: the process itself (exit status of the binary, 'no file written', hangs of the real process, message text), syntax errors (C03's error branch), constant/default type checks inside the Go backend (need BuildScope + text/template), command-line parsing. Bounds: one free reference at a time (<=4..6 bytes), 3 typedefs, <=3 files.",
   ref="6 C04"),
 "C05": dict(
   text="Bounded symbolic model checking of semantic.ResolveSymbols/Deref on a three-file include diamond with same local names in two files and typedef chains crossing files: for every spelling of a type reference (7 positions), constant identifier (4 positions) or base service as a FREE byte string of the stated length, when an in-harness reference resolver (plain loops over a hand-written model) finds exactly one binding, resolution succeeds and records exactly that category, typedef flag, include index/name, constant binding (IsEnum, Index, Name, Sel), include usage and Deref target; the result is independent of three permutations of the definition order.",
   note="Bounds: one free reference at a time, n<=4/5 bytes (types), <=5/6 (values), <=3/4 (extends); definition names are single letters. Trusted: own SSA interpreter + z3, the hand-written reference resolver.",
   ref="6 C05"),
 "C03": dict(
   text="Bounded symbolic model checking of parser.ParseString (the PEG rule closures and the tree walk, from go/ssa): totality (no panic, AST xor error, termination within the step bound) for every string 'context + N free bytes' in 34 syntactic contexts; explicit and implicit field ids / enum values for all 8 spellings with free digits in structs, unions, exceptions, argument and throws lists; literal unescaping for every body of the stated length in 5 positions and both quote kinds against the documented rule; annotation accumulation; independence of the AST from whitespace, comments and list separators at every token boundary of a 190-token document.",
   note="Bounds: N<=2 free bytes quick, <=3 thorough (the 64 KiB of the statement is far outside); literal bodies <=3/4 bytes; one layout hole at a time with 1-2 free whitespace bytes or a comment with <=1/2 free bytes. Oracles are in-harness reference code. Trusted: own SSA interpreter + z3; strconv.ParseFloat digits are enumerated by the solver rather than encoded. Leading-zero decimal spellings are not generated.",
   ref="6 C03"),
 "C14": dict(
   text="Bounded symbolic model checking of fieldmask.NewFieldMask/GetPath on the real SSA: for every byte string of the stated length in 11 syntactic contexts, and for ids/indices/keys written with up to 20 digits, the solver shows that no panic escapes and that exactly one of (mask, error) is returned; accepted numeric paths are members of their own mask.",
   note="Bounds: context prefix + <=2 (quick) / <=4 (thorough) free bytes; digit strings of 1,2,10 free digits and 19/20-digit numbers with 3 free digits. Trusted: own SSA interpreter + z3; function-level models of pathValue's unsafe string header and rand.Read. Outside: JSON (un)marshalling (encoding/json not encodable), longer paths.",
   ref="6 C14"),
}
na={
 "C01":"the deciding procedure is the Go type checker applied to text/template output; there is no assertion over symbolic inputs for an SMT solver, and the template interpreter (reflection driven) is out of reach of the hand-written encoder (DESIGN.md section 7)",
}
checks=[]
for i in ids:
    if i in claimed:
        c=claimed[i]
        checks.append({"property_id":i,"quick_cmd":f"/verif/check {i} quick","thorough_cmd":f"/verif/check {i} thorough","evidence_file":f"/verif/evidence/{i}.json",
          "replay_cmd_template":"cat {path}","engine":"gosym",
          "level_claimed":{"category":"model_checking","text":c["text"],"design_ref":c["ref"]},"level_note":c["note"],"technique":c.get("tech",TECH)})
m={"version":1,
 "setup_cmd":"cd /verif && GOFLAGS=-mod=mod GOPROXY=off GOSUMDB=off GOTOOLCHAIN=local go build -o bin/vcheck ./cmd/vcheck",
 "hooks":{"guard":"verif","enable":"no hook is committed to /repo: harnesses and the zzverifrt runtime package are injected with go/packages Overlay (engine) and go test -overlay (native replay); build tag 'verif' is reserved and unused","baseline_off_cmd":"cd /repo && go build ./... && go test -vet=off -count=1 ./...","source_commits":[],"add_only":True},
 "engines":[{"name":"gosym","path":"/verif/gosym","serves_properties":[c["property_id"] for c in checks],"kind_free_text":"symbolic executor for Go SSA (golang.org/x/tools/go/ssa v0.29.0) with SMT back end (z3 5.1 / z3 4.8 / cvc5 over pipes)"}],
 "checks":checks,
 "notes":"Exit 2 (INCONCLUSIVE) means the engine could not decide within the registered bounds; it is never a verdict. Genuine defects that were repaired are listed as 'fixed:' in /verif/known_findings.txt.",
 "not_applicable":[{"property_id":i,"reason":na.get(i,"check not built yet (work in progress in this session)")} for i in ids if i not in claimed]}
json.dump(m,open('/verif/MANIFEST.json','w'),indent=1)
print("claimed",len(checks),"n/a",len(m["not_applicable"]))
